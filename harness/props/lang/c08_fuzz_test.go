package lang

import (
	"testing"

	"verifharness/stats"
)

// FuzzC08: native coverage-guided fuzzing of the four parser entry points
// with the same oracle as TestC08NearValid (thorough tier only).
func FuzzC08(f *testing.F) {
	seeds := loadSeeds(f)
	for _, s := range seeds {
		f.Add(s.data)
	}
	for _, h := range hostileTokens {
		f.Add([]byte(h))
	}
	f.Add([]byte(`stage A(in int x, src py "",)`))
	f.Add([]byte(`call A(x = 9223372036854775808,)`))
	anchor := seeds[len(seeds)-1]
	f.Fuzz(func(t *testing.T, data []byte) {
		if len(data) > 1<<16 {
			return
		}
		if stats.Known("C08/quadratic-memory-in-nesting-depth") && maxBracketDepth(data) > 1000 {
			return // known finding, excluded so the campaign continues
		}
		if _, v := evalEntries("C08", anchor, data, "fuzz input"); v != nil {
			t.Fatalf("VKEY=C08/%s %s", v.key, v.msg)
		}
	})
}
