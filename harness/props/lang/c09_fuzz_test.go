package lang

import (
	"testing"
	"unicode/utf8"

	"github.com/martian-lang/martian/martian/syntax"
)

// FuzzC09: for every byte string the parser accepts, the formatted text is
// accepted, denotes the same program and loses no comment (thorough tier).
func FuzzC09(f *testing.F) {
	for _, s := range loadSeeds(f) {
		f.Add(s.data)
	}
	f.Fuzz(func(t *testing.T, data []byte) {
		if len(data) > 1<<15 || maxBracketDepth(data) > 200 {
			return
		}
		if !utf8.Valid(data) {
			return // C09 is about source *text*; invalid UTF-8 is C08's domain
		}
		var parser syntax.Parser
		ast0, err := parser.UncheckedParse(data, "fuzz.mro")
		if err != nil || ast0 == nil {
			return
		}
		out, err := syntax.FormatSrcBytes(data, "fuzz.mro", false, nil)
		if err != nil {
			t.Fatalf("VKEY=C09/format-error FormatSrcBytes failed on accepted source: %v\n%q", err, data)
		}
		ast1, err := parser.UncheckedParse([]byte(out), "fuzz.mro")
		if err != nil {
			t.Fatalf("VKEY=C09/formatted-not-accepted %v\n--- input\n%q\n--- output\n%s", err, data, out)
		}
		if d0, d1 := astDump(ast0), astDump(ast1); d0 != d1 {
			t.Fatalf("VKEY=C09/program-changed %s\n--- input\n%q\n--- output\n%s", firstDiff(d0, d1), data, out)
		}
		in, outBag := commentBagLex(string(data)), commentBagLex(out)
		for c, n := range in {
			if outBag[c] < n {
				t.Fatalf("VKEY=C09/comment-lost comment %q: %d in input, %d in output\n--- input\n%q\n--- output\n%s", c, n, outBag[c], data, out)
			}
		}
	})
}
