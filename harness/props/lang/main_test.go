package lang

import (
	"encoding/json"
	"fmt"
	"os"
	"strings"
	"testing"

	"github.com/martian-lang/martian/martian/syntax"
	"pgregory.net/rapid"

	"verifharness/mrogen"
	"verifharness/stats"
)

func TestMain(m *testing.M) {
	code := m.Run()
	stats.Flush()
	os.Exit(code)
}

// fail reports a violation with a root-cause key the driver can match
// against known_findings.json.
func fail(t *rapid.T, prop, key, format string, args ...any) {
	t.Helper()
	if dir := os.Getenv("VERIF_SURVEY"); dir != "" {
		// survey mode (development aid): record each distinct key once and
		// carry on, to see what lies behind the first failure.
		stats.Count(prop, "survey:"+key, 1)
		name := dir + "/" + strings.NewReplacer("/", "_", ":", "_", " ", "_").Replace(key) + ".txt"
		if _, err := os.Stat(name); err != nil {
			os.WriteFile(name, []byte(fmt.Sprintf(format, args...)), 0o644)
		}
		return
	}
	t.Fatalf("VKEY=%s/%s %s", prop, key, fmt.Sprintf(format, args...))
}

func typeId(ty mrogen.Ty) syntax.TypeId {
	return syntax.TypeId{Tname: ty.Base, ArrayDim: int16(ty.Arr), MapDim: int16(ty.Map)}
}

// compileDecls compiles a universe's declarations and returns the Ast.
func compileDecls(t *rapid.T, u *mrogen.Universe) *syntax.Ast {
	src := u.Decls()
	_, _, ast, err := syntax.ParseSourceBytes([]byte(src), "universe.mro", nil, false)
	if err != nil {
		t.Fatalf("GENERATOR: universe does not compile: %v\n%s", err, src)
	}
	return ast
}

// jsonMarshal serializes; a panic inside martian's marshalers (seen on
// call graphs of map-call shapes recorded as known findings under C01) is
// returned as a marker string.
func jsonMarshal(v any) (s string, err error) {
	defer func() {
		if p := recover(); p != nil {
			s, err = fmt.Sprintf("<panic while serializing: %v>", p), nil
		}
	}()
	b, err := json.Marshal(v)
	return string(b), err
}
