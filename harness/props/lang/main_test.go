package lang

import (
	"fmt"
	"os"
	"testing"

	"github.com/martian-lang/martian/martian/syntax"
	"pgregory.net/rapid"

	"verifharness/mrogen"
	"verifharness/stats"
)

func TestMain(m *testing.M) {
	code := m.Run()
	stats.Flush()
	os.Exit(code)
}

// fail reports a violation with a root-cause key the driver can match
// against known_findings.json.
func fail(t *rapid.T, prop, key, format string, args ...any) {
	t.Helper()
	t.Fatalf("VKEY=%s/%s %s", prop, key, fmt.Sprintf(format, args...))
}

func typeId(ty mrogen.Ty) syntax.TypeId {
	return syntax.TypeId{Tname: ty.Base, ArrayDim: int16(ty.Arr), MapDim: int16(ty.Map)}
}

// compileDecls compiles a universe's declarations and returns the Ast.
func compileDecls(t *rapid.T, u *mrogen.Universe) *syntax.Ast {
	src := u.Decls()
	_, _, ast, err := syntax.ParseSourceBytes([]byte(src), "universe.mro", nil, false)
	if err != nil {
		t.Fatalf("GENERATOR: universe does not compile: %v\n%s", err, src)
	}
	return ast
}
