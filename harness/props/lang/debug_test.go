package lang

import (
	"fmt"
	"os"
	"sort"
	"testing"

	"github.com/martian-lang/martian/martian/syntax"
)

// TestDebugNodes prints the node closure of the file named by
// VERIF_DEBUG_MRO (development aid, not part of any check).
func TestDebugNodes(t *testing.T) {
	p := os.Getenv("VERIF_DEBUG_MRO")
	if p == "" {
		t.Skip()
	}
	b, _ := os.ReadFile(p)
	_, _, ast, err := syntax.ParseSourceBytes(b, p, nil, false)
	if err != nil {
		t.Fatal(err)
	}
	g, err := ast.MakeCallGraph("", ast.Call)
	if err != nil {
		t.Fatal(err)
	}
	var ids []string
	for id, n := range g.NodeClosure() {
		ids = append(ids, fmt.Sprintf("%s kind=%v disabled=%d", id, n.Kind(), len(n.Disabled())))
	}
	sort.Strings(ids)
	for _, id := range ids {
		fmt.Println(id)
	}
}
