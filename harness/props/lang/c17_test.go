package lang

import (
	"encoding/json"
	"fmt"
	"strconv"
	"strings"
	"testing"

	"github.com/martian-lang/martian/martian/syntax"
	"pgregory.net/rapid"

	"verifharness/jsonx"
	"verifharness/mrogen"
	"verifharness/refsem"
	"verifharness/stats"
)

func padGen(t *rapid.T) func() string {
	mode := rapid.IntRange(0, 3).Draw(t, "wsMode")
	if mode < 2 {
		return nil
	}
	pads := []string{"", " ", "\n", "\t", "  ", " \r\n "}
	return func() string { return rapid.SampledFrom(pads).Draw(t, "ws") }
}

func realValid(rt syntax.Type, data []byte, lookup *syntax.TypeLookup) (ok, clean bool, msg string) {
	var alarms strings.Builder
	err := rt.IsValidJson(json.RawMessage(data), &alarms, lookup)
	if err != nil {
		return false, false, err.Error()
	}
	return true, alarms.Len() == 0, alarms.String()
}

// TestC17Assignability: reflexivity; agreement with the component-wise
// reference rules on constructed-assignable and random pairs.
func TestC17Assignability(t *testing.T) {
	rapid.Check(t, func(t *rapid.T) {
		u := mrogen.GenUniverse(t, mrogen.UniverseCfg{MaxStructs: 4, MaxWider: 3})
		ast := compileDecls(t, u)
		lookup := &ast.TypeTable
		for i := 0; i < 8; i++ {
			dst := u.GenType(t, false)
			var src mrogen.Ty
			constructed := rapid.Bool().Draw(t, "constructed")
			if constructed {
				src = u.GenSourceType(t, dst)
			} else {
				src = u.GenType(t, false)
			}
			rd, rs := lookup.Get(typeId(dst)), lookup.Get(typeId(src))
			if rd == nil || rs == nil {
				t.Fatalf("GENERATOR: type lookup failed for %v / %v", dst, src)
			}
			if err := rd.IsAssignableFrom(rd, lookup); err != nil {
				fail(t, "C17", "assign-not-reflexive", "%v not assignable from itself: %v\n%s", dst, err, u.Decls())
			}
			want := refsem.Assignable(u, dst, src)
			got := rd.IsAssignableFrom(rs, lookup)
			composite := dst.Arr > 0 || dst.Map > 0 || u.Struct(dst.Base) != nil
			classes := []string{"assign"}
			if want {
				classes = append(classes, "assign:yes")
			} else {
				classes = append(classes, "assign:no")
			}
			stats.Case("C17", composite && dst != src, stats.Digest("assign", u.Decls(), dst, src), classes, func() any {
				return map[string]any{"kind": "assignability", "dst": dst.String(), "src": src.String(), "expected": want, "decls": stats.Trunc(u.Decls(), 600)}
			})
			if (got == nil) != want {
				key := "assign-refused-but-components-assignable"
				if !want {
					key = "assign-accepted-but-components-not"
				}
				fail(t, "C17", key, "dst=%v src=%v reference=%v martian=%v\n%s", dst, src, want, got, u.Decls())
			}
		}
	})
}

// TestC17Filter: validation exactness, filter differential against the
// reference, idempotence, validity of filtered values of assignable types.
func TestC17Filter(t *testing.T) {
	rapid.Check(t, func(t *rapid.T) {
		u := mrogen.GenUniverse(t, mrogen.UniverseCfg{MaxStructs: 4, MaxWider: 3})
		ast := compileDecls(t, u)
		lookup := &ast.TypeTable
		dst := u.GenType(t, false)
		if d2 := u.GenType(t, false); typeDepth(u, d2) > typeDepth(u, dst) {
			dst = d2 // bias towards composite types
		}
		src := u.GenSourceType(t, dst)
		// Half of the cases: a struct with a wider variant as base, so that
		// filtering actually has fields to drop.
		var wider []*mrogen.Struct
		for _, s := range u.Structs {
			if s.WiderOf != "" {
				wider = append(wider, s)
			}
		}
		if len(wider) > 0 && rapid.Bool().Draw(t, "useWider") {
			w := rapid.SampledFrom(wider).Draw(t, "wider")
			dst.Base, src.Base = w.WiderOf, w.Name
			src.Arr, src.Map = dst.Arr, dst.Map
		}
		if !refsem.Assignable(u, dst, src) {
			t.Fatalf("GENERATOR: constructed source %v not assignable to %v by the reference", src, dst)
		}
		rd, rs := lookup.Get(typeId(dst)), lookup.Get(typeId(src))
		cfg := &mrogen.ValueCfg{
			NullPct:              rapid.SampledFrom([]int{0, 5, 25}).Draw(t, "nullPct"),
			IntegralFloatsForInt: rapid.IntRange(0, 3).Draw(t, "intFloats") == 0,
		}
		var v any
		mode := rapid.SampledFrom([]string{"conforming", "conforming", "near-miss", "arbitrary"}).Draw(t, "mode")
		mutKind := ""
		switch mode {
		case "conforming":
			v = u.GenValue(t, src, cfg)
		case "near-miss":
			var m mrogen.Mutation
			v, m = mrogen.Mutate(t, u.GenValue(t, src, cfg))
			mutKind = m.Kind
		default:
			v = u.GenAnyJSON(t, cfg)
		}
		st := &jsonx.Style{Pad: padGen(t)}
		switch rapid.IntRange(0, 3).Draw(t, "jsonStyle") {
		case 0:
			st.ASCII, st.Spaced = true, true // Python's json.dumps
		case 1:
			st.ASCII, st.EscapeSlash = true, true
		}
		data := jsonx.MarshalStyle(v, st)

		classes := []string{"mode:" + mode}
		if mutKind != "" {
			classes = append(classes, "mut:"+mutKind)
		}

		// (1) validation accepts exactly the declared shape.
		for _, side := range []struct {
			ty mrogen.Ty
			rt syntax.Type
		}{{src, rs}, {dst, rd}} {
			want := refsem.Valid(u, side.ty, v)
			if want.Ambiguous {
				stats.Count("C17", "ambiguous_file_keys_skipped", 1)
				continue
			}
			ok, clean, msg := realValid(side.rt, data, lookup)
			if ok != want.OK {
				key := "valid-rejects-conforming"
				if ok {
					key = "valid-accepts-nonconforming"
				}
				fail(t, "C17", key, "type %v value %s: reference=%v martian ok=%v (%s)\n%s", side.ty, data, want, ok, msg, u.Decls())
			}
			if ok && clean != want.Clean {
				fail(t, "C17", "valid-alarm-mismatch", "type %v value %s: reference clean=%v martian clean=%v (%s)\n%s", side.ty, data, want.Clean, clean, msg, u.Decls())
			}
		}

		// (2) filter to dst.
		out, fatal, ferr := rd.FilterJson(json.RawMessage(data), lookup)
		wantOut, wantOK := refsem.Filter(u, dst, v)
		changed := false
		if wantOK {
			classes = append(classes, "filter:conforming")
			// An integral float in an int position is converted and
			// reported as a non-fatal error; a value that is valid for
			// dst as it stands must filter without any error.
			if dv := refsem.Valid(u, dst, v); fatal || (ferr != nil && dv.OK && dv.Clean) {
				fail(t, "C17", "filter-error-on-conforming", "type %v value %s: filter fatal=%v error %v\n%s", dst, data, fatal, ferr, u.Decls())
			}
			got, perr := jsonx.Parse(out)
			if perr != nil {
				fail(t, "C17", "filter-output-not-json", "type %v value %s: output %q: %v\n%s", dst, data, out, perr, u.Decls())
			}
			if !jsonx.Equal(got, wantOut, false) {
				fail(t, "C17", "filter-differs-from-reference", "type %v value %s:\n martian: %s\n reference: %s\n%s", dst, data, out, jsonx.Marshal(wantOut), u.Decls())
			}
			changed = !jsonx.Equal(v, wantOut, false)
			if changed {
				classes = append(classes, "filter:changed")
			}
			// (4) result validates cleanly when input validated cleanly
			// against the assignable source type.
			// (typed-map keys that are not legal file names are only
			// restricted for file-bearing maps: skip when string keys
			// become file names through string -> file coercion.)
			if sv := refsem.Valid(u, src, v); sv.OK && sv.Clean && !sv.Ambiguous && !refsem.Valid(u, dst, v).Ambiguous {
				ok, clean, msg := realValid(rd, out, lookup)
				if !ok || !clean {
					fail(t, "C17", "filtered-not-valid", "value %s valid for %v, filtered to %v gives %s which does not validate cleanly: %s\n%s", data, src, dst, out, msg, u.Decls())
				}
				classes = append(classes, "valid-after-filter")
			}
		} else {
			classes = append(classes, "filter:nonconforming")
		}
		// (2b) whatever the value (conforming or not): a result delivered
		// without a fatal error is the input with nothing changed except
		// dropped object members and integral floats written as integers.
		if !fatal {
			if got, perr := jsonx.Parse(out); perr == nil {
				if why := notPruningOf(v, got, "$"); why != "" {
					fail(t, "C17", "filter-changes-value", "type %v value %s: filter (fatal=false, err=%v) returned %s: %s\n%s", dst, data, ferr, out, why, u.Decls())
				}
				classes = append(classes, "pruning-checked")
			}
		}
		// (3) idempotence whenever the first result is JSON.
		if g1, perr := jsonx.Parse(out); perr == nil {
			out2, _, _ := rd.FilterJson(json.RawMessage(append([]byte{}, out...)), lookup)
			g2, perr2 := jsonx.Parse(out2)
			if perr2 != nil || !jsonx.Equal(g1, g2, false) {
				fail(t, "C17", "filter-not-idempotent", "type %v value %s: F=%s FF=%s\n%s", dst, data, out, out2, u.Decls())
			}
		} else if ferr == nil {
			fail(t, "C17", "filter-output-not-json", "type %v value %s: output %q: %v\n%s", dst, data, out, perr, u.Decls())
		}
		depth := typeDepth(u, dst)
		nontrivial := depth >= 2 && (changed || mode == "near-miss")
		stats.Case("C17", nontrivial, stats.Digest("filter", u.Decls(), dst, src, data), classes, func() any {
			return map[string]any{"kind": "filter", "dst": dst.String(), "src": src.String(), "mode": mode, "mutation": mutKind,
				"value": stats.Trunc(string(data), 300), "filtered": stats.Trunc(string(out), 300), "decls": stats.Trunc(u.Decls(), 600)}
		})
	})
}

// notPruningOf explains why out is not "in with object members dropped and
// integral floats written as integers" ("" if it is).  Numbers that do not
// fit an int64 token are compared at float64 precision (JSON numbers are
// doubles to martian), so only a change of the denoted value is reported.
func notPruningOf(in, out any, path string) string {
	switch o := out.(type) {
	case nil:
		if in != nil {
			return path + ": value replaced by null"
		}
		return ""
	case bool:
		if b, ok := in.(bool); !ok || b != o {
			return path + ": bool changed"
		}
		return ""
	case string:
		if s, ok := in.(string); !ok || s != o {
			return path + ": string changed"
		}
		return ""
	case json.Number:
		n, ok := in.(json.Number)
		if !ok {
			return path + ": number in place of another kind of value"
		}
		if string(n) == string(o) {
			return ""
		}
		fi, err1 := strconv.ParseFloat(string(n), 64)
		fo, err2 := strconv.ParseFloat(string(o), 64)
		if err1 != nil || err2 != nil || fi != fo {
			return fmt.Sprintf("%s: number %s became %s", path, n, o)
		}
		if ii, err := strconv.ParseInt(string(n), 10, 64); err == nil {
			if io, err := strconv.ParseInt(string(o), 10, 64); err != nil || ii != io {
				return fmt.Sprintf("%s: integer %s became %s", path, n, o)
			}
		}
		return ""
	case []any:
		a, ok := in.([]any)
		if !ok || len(a) != len(o) {
			return path + ": array shape changed"
		}
		for i := range o {
			if why := notPruningOf(a[i], o[i], fmt.Sprintf("%s[%d]", path, i)); why != "" {
				return why
			}
		}
		return ""
	case *jsonx.Obj:
		io, ok := in.(*jsonx.Obj)
		if !ok {
			return path + ": object in place of another kind of value"
		}
		for i, k := range o.Keys {
			iv, ok := io.Get(k)
			if !ok {
				return fmt.Sprintf("%s: member %q invented", path, k)
			}
			if why := notPruningOf(iv, o.Vals[i], path+"."+k); why != "" {
				return why
			}
		}
		return ""
	}
	return path + ": unexpected kind of value"
}

func typeDepth(u *mrogen.Universe, ty mrogen.Ty) int {
	d := ty.Arr + ty.Map
	if s := u.Struct(ty.Base); s != nil {
		m := 0
		for _, f := range s.Fields {
			if fd := typeDepth(u, f.T); fd > m {
				m = fd
			}
		}
		d += 1 + m
	}
	return d
}
