package lang

import (
	"fmt"
	"encoding/json"
	"regexp"
	"strconv"
	"testing"

	"github.com/martian-lang/martian/martian/syntax"
	"pgregory.net/rapid"

	"verifharness/mrogen"
	"verifharness/stats"
)

// wrongExpr returns an expression that cannot be converted to ty under any
// documented coercion.
func wrongExpr(t *rapid.T, u *mrogen.Universe, ty mrogen.Ty) (mrogen.Expr, string) {
	intLit := mrogen.Lit{V: json.Number("5"), T: mrogen.Ty{Base: "int"}}
	strLit := mrogen.Lit{V: "x", T: mrogen.Ty{Base: "string"}}
	boolLit := mrogen.Lit{V: true, T: mrogen.Ty{Base: "bool"}}
	fracLit := mrogen.Lit{V: json.Number("1.5"), T: mrogen.Ty{Base: "float"}}
	arrLit := mrogen.ArrayLit{Elems: []mrogen.Expr{intLit}}
	mapLit := mrogen.MapLit{Keys: []string{"k"}, Vals: []mrogen.Expr{intLit}}
	pick := func(opts ...struct {
		e mrogen.Expr
		n string
	}) (mrogen.Expr, string) {
		o := opts[rapid.IntRange(0, len(opts)-1).Draw(t, "wrongKind")]
		return o.e, o.n
	}
	type o = struct {
		e mrogen.Expr
		n string
	}
	if ty.Arr > 0 {
		// wrong depth (too shallow / too deep) or a map
		deep := mrogen.Expr(intLit)
		for i := 0; i <= ty.Arr; i++ {
			deep = mrogen.ArrayLit{Elems: []mrogen.Expr{deep}}
		}
		if ty.Base == "int" || ty.Base == "float" {
			return pick(o{intLit, "depth-1:scalar-for-array"}, o{mapLit, "map-for-array"}, o{deep, "depth+1"}, o{strLit, "string-for-array"})
		}
		return pick(o{intLit, "scalar-for-array"}, o{mapLit, "map-for-array"}, o{boolLit, "bool-for-array"})
	}
	if ty.Map > 0 {
		return pick(o{arrLit, "array-for-map"}, o{intLit, "scalar-for-map"}, o{strLit, "string-for-map"})
	}
	switch ty.Base {
	case "int":
		return pick(o{strLit, "string-for-int"}, o{boolLit, "bool-for-int"}, o{fracLit, "fraction-for-int"}, o{arrLit, "array-for-scalar"}, o{mapLit, "map-for-int"})
	case "float":
		return pick(o{strLit, "string-for-float"}, o{boolLit, "bool-for-float"}, o{arrLit, "array-for-scalar"})
	case "bool":
		return pick(o{intLit, "int-for-bool"}, o{strLit, "string-for-bool"}, o{arrLit, "array-for-scalar"})
	case "string", "file", "path":
		return pick(o{intLit, "int-for-string"}, o{boolLit, "bool-for-string"}, o{arrLit, "array-for-scalar"})
	case "map":
		return pick(o{intLit, "int-for-map"}, o{arrLit, "array-for-map"}, o{strLit, "string-for-map"})
	}
	if u.IsFileType(ty.Base) {
		return pick(o{intLit, "int-for-filetype"}, o{boolLit, "bool-for-filetype"}, o{arrLit, "array-for-scalar"})
	}
	if st := u.Struct(ty.Base); st != nil {
		vc := &mrogen.ValueCfg{PlainStrings: true, SafeKeys: true, PlainNumbers: true}
		missing := mrogen.StructLit{}
		for i, f := range st.Fields {
			if i == 0 {
				continue
			}
			missing.Fields = append(missing.Fields, f.Name)
			missing.Vals = append(missing.Vals, mrogen.Lit{V: u.GenValue(t, f.T, vc), T: f.T})
		}
		extra := mrogen.StructLit{}
		for _, f := range st.Fields {
			extra.Fields = append(extra.Fields, f.Name)
			extra.Vals = append(extra.Vals, mrogen.Lit{V: u.GenValue(t, f.T, vc), T: f.T})
		}
		extra.Fields = append(extra.Fields, "zz_extra")
		extra.Vals = append(extra.Vals, intLit)
		return pick(o{intLit, "int-for-struct"}, o{arrLit, "array-for-struct"}, o{missing, "struct-missing-field"}, o{extra, "struct-extra-field"})
	}
	return intLit, "int-for-struct"
}

var lineRe = regexp.MustCompile(`gen\.mro:(\d+)`)

// TestC07Reject: single-point ill-typed mutations of accepted programs are
// rejected at compile time with an error that points into the call that
// holds the offending binding.
func TestC07Reject(t *testing.T) {
	rapid.Check(t, func(t *rapid.T) {
		cfg := fullCfg()
		prog := mrogen.GenProgram(t, cfg)
		// pick a call (any pipeline call, or the top-level call)
		type site struct {
			pl *mrogen.Pipeline
			c  *mrogen.Call
		}
		var sites []site
		for _, pl := range prog.Pipelines {
			for _, c := range pl.Calls {
				if len(c.Bindings) > 0 {
					sites = append(sites, site{pl, c})
				}
			}
		}
		if len(prog.Top.Bindings) > 0 {
			sites = append(sites, site{nil, prog.Top})
		}
		if len(sites) == 0 {
			return
		}
		s := sites[rapid.IntRange(0, len(sites)-1).Draw(t, "site")]
		ins, _, _ := prog.Callable(s.c.Callee)
		bi := rapid.IntRange(0, len(s.c.Bindings)-1).Draw(t, "binding")
		b := &s.c.Bindings[bi]
		p := mrogen.FindParam(ins, b.Param)
		kind := rapid.SampledFrom([]string{"wrong-literal", "wrong-literal", "wrong-literal", "unknown-param", "missing-param", "bad-output-ref", "bad-field-ref", "split-mismatch", "wrong-ref", "wrong-ref", "wrong-default-shorthand", "mapped-output-depth", "mapped-output-depth"}).Draw(t, "mutation")
		switch kind {
		case "wrong-literal":
			e, n := wrongExpr(t, prog.U, p.T)
			if _, isSplit := b.E.(mrogen.Split); isSplit {
				// keep the call a map call: wrong element type inside the split
				b.E = mrogen.Split{E: mrogen.ArrayLit{Elems: []mrogen.Expr{e}}}
				if _, isArr := e.(mrogen.ArrayLit); isArr && p.T.Arr == 0 {
					n = "split:" + n
				}
				// an array of wrong elements is certainly wrong unless the element happens to fit
			} else {
				b.E = e
			}
			kind += ":" + n
		case "wrong-ref":
			// a reference to a new pipeline input whose type certainly
			// cannot be converted (dimension mismatch, or bool/int/string
			// confusion); callers pass null for it.
			if s.pl == nil {
				return
			}
			var wt mrogen.Ty
			sub := "dims"
			switch {
			case p.T.Arr > 0 || p.T.Map > 0:
				wt = p.T
				switch rapid.IntRange(0, 2).Draw(t, "dimMut") {
				case 0:
					wt.Arr++
					sub = "array-depth+1"
				case 1:
					if wt.Arr > 0 {
						wt.Arr--
						sub = "array-depth-1"
					} else {
						wt.Map++
						sub = "inner-depth+1"
					}
				default:
					if wt.Map > 0 {
						wt.Map++
						sub = "inner-depth+1"
					} else {
						wt.Arr += 2
						sub = "array-depth+2"
					}
				}
			case p.T.Base == "bool":
				wt, sub = mrogen.Ty{Base: "int"}, "int-for-bool"
			case p.T.Base == "int" || p.T.Base == "float":
				wt, sub = mrogen.Ty{Base: "bool"}, "bool-for-number"
			default:
				wt, sub = mrogen.Ty{Base: p.T.Base, Arr: 1}, "array-for-scalar"
			}
			if _, isSplit := b.E.(mrogen.Split); isSplit {
				return
			}
			s.pl.Ins = append(s.pl.Ins, mrogen.Param{Name: "zz_in", T: wt})
			b.E = mrogen.Ref{Out: "zz_in"}
			null := mrogen.Lit{V: nil, T: wt}
			for _, opl := range prog.Pipelines {
				for _, oc := range opl.Calls {
					if oc.Callee == s.pl.Name {
						oc.Bindings = append(oc.Bindings, mrogen.Binding{Param: "zz_in", E: null})
					}
				}
			}
			if prog.Top.Callee == s.pl.Name {
				prog.Top.Bindings = append(prog.Top.Bindings, mrogen.Binding{Param: "zz_in", E: null})
			}
			kind += ":" + sub
		case "mapped-output-depth":
			// the output of a map call has one more dimension than the
			// stage declares: a new stage with an output of exactly the
			// parameter's type, map-called over a literal, is bound to the
			// parameter (its type is then T[] or map<T>, never T); the calls
			// may be written in any order
			if s.pl == nil {
				return
			}
			if _, isSplit := b.E.(mrogen.Split); isSplit {
				return
			}
			intT := mrogen.Ty{Base: "int"}
			prog.Stages = append(prog.Stages, &mrogen.Stage{Name: "ZZ_M", Ins: []mrogen.Param{{Name: "p", T: intT}},
				Outs: []mrogen.Param{{Name: "o", T: p.T}}, SrcLang: "comp", SrcPath: "stagebin ZZ_M"})
			one, two := mrogen.Lit{V: json.Number("1"), T: intT}, mrogen.Lit{V: json.Number("2"), T: intT}
			var over mrogen.Expr = mrogen.ArrayLit{Elems: []mrogen.Expr{one, two}}
			sub := "array"
			if p.T.Map == 0 && p.T.Base != "map" && rapid.Bool().Draw(t, "overMap") {
				over = mrogen.MapLit{Keys: []string{"a", "b"}, Vals: []mrogen.Expr{one, two}}
				sub = "map"
			}
			zc := &mrogen.Call{Id: "ZZ_M", Callee: "ZZ_M", Mapped: true, Bindings: []mrogen.Binding{{Param: "p", E: mrogen.Split{E: over}}}}
			s.pl.Calls = append([]*mrogen.Call{zc}, s.pl.Calls...)
			b.E = mrogen.Ref{Call: "ZZ_M", Out: "o"}
			kind += ":" + sub
		case "wrong-default-shorthand":
			// legacy shorthand "x = CALL" for "x = CALL.default": a new stage
			// with one unnamed output whose type certainly cannot be
			// converted to the parameter's type (float for int, bool / number
			// confusion, wrong dimensions); the whole output struct
			// {default: T'} is not assignable to such a parameter either.
			if s.pl == nil {
				return
			}
			if _, isSplit := b.E.(mrogen.Split); isSplit {
				return
			}
			if p.T.Map > 0 || p.T.Base == "map" || prog.U.Struct(p.T.Base) != nil || prog.Stage(p.T.Base) != nil || prog.Pipeline(p.T.Base) != nil {
				return // struct / map destinations take the whole output struct
			}
			var wt mrogen.Ty
			sub := ""
			switch {
			case p.T.Base == "int":
				wt, sub = mrogen.Ty{Base: "float", Arr: p.T.Arr}, "float-for-int"
			case p.T.Base == "bool":
				wt, sub = mrogen.Ty{Base: "int", Arr: p.T.Arr}, "int-for-bool"
			case p.T.Base == "float":
				wt, sub = mrogen.Ty{Base: "bool", Arr: p.T.Arr}, "bool-for-float"
			default:
				wt, sub = mrogen.Ty{Base: "int", Arr: p.T.Arr}, "int-for-string"
			}
			if rapid.IntRange(0, 3).Draw(t, "alsoDepth") == 0 {
				wt = p.T
				wt.Arr++
				sub = "array-depth+1"
			}
			prog.Stages = append(prog.Stages, &mrogen.Stage{Name: "ZZ_DEF", Ins: []mrogen.Param{{Name: "p", T: mrogen.Ty{Base: "int"}}},
				Outs: []mrogen.Param{{Name: "default", T: wt}}, SrcLang: "comp", SrcPath: "stagebin ZZ_DEF"})
			zc := &mrogen.Call{Id: "ZZ_DEF", Callee: "ZZ_DEF", Bindings: []mrogen.Binding{{Param: "p", E: mrogen.Lit{V: json.Number("1"), T: mrogen.Ty{Base: "int"}}}}}
			s.pl.Calls = append([]*mrogen.Call{zc}, s.pl.Calls...)
			b.E = mrogen.Ref{Call: "ZZ_DEF"}
			kind += ":" + sub
		case "unknown-param":
			b.Param = "zz_nope"
		case "missing-param":
			s.c.Bindings = append(s.c.Bindings[:bi], s.c.Bindings[bi+1:]...)
		case "bad-output-ref":
			if s.pl == nil {
				return // the top-level call binds literals only
			}
			if len(s.pl.Calls) > 0 && s.pl.Calls[0] != s.c && rapid.Bool().Draw(t, "viaCall") {
				b.E = mrogen.Ref{Call: s.pl.Calls[0].Id, Out: "zz_nope"}
			} else {
				b.E = mrogen.Ref{Out: "zz_nope"}
			}
		case "bad-field-ref":
			r, ok := b.E.(mrogen.Ref)
			if !ok || s.pl == nil {
				return
			}
			r.Path = append(append([]string{}, r.Path...), "zz_nofield")
			b.E = r
		case "split-mismatch":
			if s.pl == nil || len(ins) < 2 || prog.Stage(s.c.Callee) == nil {
				return
			}
			vc := &mrogen.ValueCfg{PlainStrings: true, SafeKeys: true, PlainNumbers: true}
			mk := func(pa mrogen.Param, n int) mrogen.Expr {
				a := mrogen.ArrayLit{}
				for i := 0; i < n; i++ {
					a.Elems = append(a.Elems, mrogen.Lit{V: prog.U.GenValue(t, pa.T, vc), T: pa.T})
				}
				return mrogen.Split{E: a}
			}
			s.c.Mapped = true
			s.c.Disabled = nil
			s.c.Bindings = nil
			if len(ins) >= 2 && rapid.Bool().Draw(t, "mixedSources") {
				// sources of different kinds in one map call, in any order:
				// a collection of unknown size (a new pipeline input), the
				// output of a helper map call over a literal of 3 elements
				// (size known through that call), a literal of 2 elements.
				// 3 and 2 cannot both be the number of forks.
				intT := mrogen.Ty{Base: "int"}
				kinds := []string{"helper3", "literal2"}
				for len(kinds) < len(ins) {
					kinds = append(kinds, rapid.SampledFrom([]string{"unknown", "unknown", "fixed"}).Draw(t, "extraSrc"))
				}
				kinds = shuffled(t, kinds, "srcOrder")
				helperMade := false
				for i, pa := range ins {
					switch kinds[i] {
					case "helper3":
						if !helperMade {
							helperMade = true
							prog.Stages = append(prog.Stages, &mrogen.Stage{Name: "ZZ_ONE", Ins: []mrogen.Param{{Name: "p", T: intT}},
								Outs: []mrogen.Param{{Name: "y", T: pa.T}}, SrcLang: "comp", SrcPath: "stagebin ZZ_ONE"})
							one := mrogen.Lit{V: json.Number("1"), T: intT}
							zc := &mrogen.Call{Id: "ZZ_ONE", Callee: "ZZ_ONE", Mapped: true,
								Bindings: []mrogen.Binding{{Param: "p", E: mrogen.Split{E: mrogen.ArrayLit{Elems: []mrogen.Expr{one, one, one}}}}}}
							s.pl.Calls = append([]*mrogen.Call{zc}, s.pl.Calls...)
						}
						s.c.Bindings = append(s.c.Bindings, mrogen.Binding{Param: pa.Name, E: mrogen.Split{E: mrogen.Ref{Call: "ZZ_ONE", Out: "y"}}})
					case "literal2":
						s.c.Bindings = append(s.c.Bindings, mrogen.Binding{Param: pa.Name, E: mk(pa, 2)})
					case "unknown":
						name := fmt.Sprintf("zz_arr%d", i)
						s.pl.Ins = append(s.pl.Ins, mrogen.Param{Name: name, T: pa.T.ArrayOf()})
						null := mrogen.Lit{V: nil, T: pa.T.ArrayOf()}
						for _, opl := range prog.Pipelines {
							for _, oc := range opl.Calls {
								if oc.Callee == s.pl.Name {
									oc.Bindings = append(oc.Bindings, mrogen.Binding{Param: name, E: null})
								}
							}
						}
						if prog.Top.Callee == s.pl.Name {
							prog.Top.Bindings = append(prog.Top.Bindings, mrogen.Binding{Param: name, E: null})
						}
						s.c.Bindings = append(s.c.Bindings, mrogen.Binding{Param: pa.Name, E: mrogen.Split{E: mrogen.Ref{Out: name}}})
					default:
						s.c.Bindings = append(s.c.Bindings, mrogen.Binding{Param: pa.Name, E: mrogen.Lit{V: prog.U.GenValue(t, pa.T, vc), T: pa.T}})
					}
				}
				kind += ":mixed-sources"
				ins = nil // (bindings are complete)
			}
			for i, pa := range ins {
				switch i {
				case 0:
					s.c.Bindings = append(s.c.Bindings, mrogen.Binding{Param: pa.Name, E: mk(pa, 2)})
				case 1:
					if rapid.Bool().Draw(t, "kindMismatch") && pa.T.Map == 0 && pa.T.Base != "map" {
						s.c.Bindings = append(s.c.Bindings, mrogen.Binding{Param: pa.Name, E: mrogen.Split{E: mrogen.MapLit{Keys: []string{"a", "b"}, Vals: []mrogen.Expr{
							mrogen.Lit{V: prog.U.GenValue(t, pa.T, vc), T: pa.T}, mrogen.Lit{V: prog.U.GenValue(t, pa.T, vc), T: pa.T}}}}})
						kind += ":array-vs-map"
					} else {
						s.c.Bindings = append(s.c.Bindings, mrogen.Binding{Param: pa.Name, E: mk(pa, 3)})
						kind += ":length"
					}
				default:
					s.c.Bindings = append(s.c.Bindings, mrogen.Binding{Param: pa.Name, E: mrogen.Lit{V: prog.U.GenValue(t, pa.T, vc), T: pa.T}})
				}
			}
		}
		var lay *mrogen.Layout
		if rapid.Bool().Draw(t, "shuffleCalls") {
			lay = &mrogen.Layout{Pick: func(n int) int { return rapid.IntRange(0, n-1).Draw(t, "lay") }, ShuffleCalls: true}
		}
		src, lines := prog.SourceLines(lay)
		key := "." + s.c.Id
		if s.pl != nil {
			key = s.pl.Name + "." + s.c.Id
		}
		span := lines[key]
		_, _, _, err := syntax.ParseSourceBytes([]byte(src), "gen.mro", nil, false)
		stats.Case("C07", true, stats.Digest("reject", src), []string{"reject", "mut:" + kind}, func() any {
			msg := "<accepted>"
			if err != nil {
				msg = stats.Trunc(err.Error(), 300)
			}
			return map[string]any{"kind": "ill-typed mutant", "mutation": kind, "call": key, "call_lines": span, "error": msg}
		})
		if err == nil {
			fail(t, "C07", "ill-typed-accepted:"+regexp.MustCompile(`[:].*`).ReplaceAllString(kind, ""), "mutation %s of call %s (lines %d-%d) was accepted by the compiler\n%s", kind, key, span[0], span[1], src)
		}
		located := false
		for _, m := range lineRe.FindAllStringSubmatch(err.Error(), -1) {
			if n, _ := strconv.Atoi(m[1]); n >= span[0] && n <= span[1] {
				located = true
			}
		}
		if !located {
			fail(t, "C07", "error-not-located-at-binding", "mutation %s of call %s (lines %d-%d): the error does not point into the call:\n%v\n%s", kind, key, span[0], span[1], err, src)
		}
	})
}
