package lang

import (
	"fmt"
	"testing"

	"pgregory.net/rapid"

	"verifharness/mrogen"
	"verifharness/stats"
)

// contextErrorKinds put legal constructs where the language does not allow
// them, or tie calls into knots: the compiler has to answer every one of
// them with a located error (or accept it), never with a panic or a loop.
var contextErrorKinds = []string{"top-wildcard", "top-self-ref", "top-call-ref", "top-disabled-self", "top-disabled-call", "top-map-over-ref",
	"self-recursion", "mutual-recursion", "dependency-cycle", "dependency-cycle-self-disabled", "disabled-by-own-output", "bound-to-own-output",
	"preflight-with-refs", "split-in-plain-call", "map-call-without-split", "return-undefined-call", "call-undefined-callee", "three-cycle"}

func boolOutOf(prog *mrogen.Program, callee string) string {
	if st := prog.Stage(callee); st != nil {
		for _, o := range st.Outs {
			if o.T == (mrogen.Ty{Base: "bool"}) {
				return o.Name
			}
		}
		if len(st.Outs) > 0 {
			return st.Outs[0].Name
		}
	}
	return "o"
}

func injectContextError(t *rapid.T, prog *mrogen.Program) string {
	kind := rapid.SampledFrom(contextErrorKinds).Draw(t, "ctxErrKind")
	var pls []*mrogen.Pipeline
	for _, pl := range prog.Pipelines {
		if len(pl.Calls) > 0 {
			pls = append(pls, pl)
		}
	}
	pickPl := func(minCalls int) *mrogen.Pipeline {
		var c []*mrogen.Pipeline
		for _, pl := range pls {
			if len(pl.Calls) >= minCalls {
				c = append(c, pl)
			}
		}
		if len(c) == 0 {
			return nil
		}
		return c[rapid.IntRange(0, len(c)-1).Draw(t, "ctxErrPipe")]
	}
	firstOut := func(c *mrogen.Call) string {
		if prog.Stage(c.Callee) == nil && prog.Pipeline(c.Callee) == nil {
			return "o" // (a callee a previous injection made up)
		}
		_, outs, _ := prog.Callable(c.Callee)
		if len(outs) == 0 {
			return "o"
		}
		return outs[0].Name
	}
	top := prog.Top
	switch kind {
	case "top-wildcard":
		top.WildcardSelf = true
		for i := range top.Bindings {
			top.Bindings[i].E = mrogen.Ref{Out: top.Bindings[i].Param}
		}
		if len(top.Bindings) == 0 {
			top.Bindings = append(top.Bindings, mrogen.Binding{Param: "zz", E: mrogen.Ref{Out: "zz"}})
		}
	case "top-self-ref":
		if len(top.Bindings) == 0 {
			return ""
		}
		top.Bindings[0].E = mrogen.Ref{Out: "anything"}
	case "top-call-ref":
		if len(top.Bindings) == 0 {
			return ""
		}
		top.Bindings[0].E = mrogen.Ref{Call: prog.Stages[0].Name, Out: "o"}
	case "top-disabled-self":
		top.Disabled = &mrogen.Ref{Out: "flag"}
	case "top-disabled-call":
		top.Disabled = &mrogen.Ref{Call: prog.Stages[0].Name, Out: boolOutOf(prog, prog.Stages[0].Name)}
	case "top-map-over-ref":
		if len(top.Bindings) == 0 {
			return ""
		}
		top.Mapped = true
		top.Bindings[0].E = mrogen.Split{E: mrogen.Ref{Out: "xs"}}
	case "self-recursion":
		pl := pickPl(1)
		if pl == nil {
			return ""
		}
		c := &mrogen.Call{Id: pl.Name, Callee: pl.Name}
		for _, in := range pl.Ins {
			c.Bindings = append(c.Bindings, mrogen.Binding{Param: in.Name, E: mrogen.Ref{Out: in.Name}})
		}
		pl.Calls = append(pl.Calls, c)
	case "mutual-recursion":
		if len(prog.Pipelines) < 2 {
			return ""
		}
		// an earlier pipeline calls a later one (which calls it, or may)
		a, b := prog.Pipelines[0], prog.Pipelines[len(prog.Pipelines)-1]
		c := &mrogen.Call{Id: b.Name, Callee: b.Name}
		for _, in := range b.Ins {
			c.Bindings = append(c.Bindings, mrogen.Binding{Param: in.Name, E: mrogen.Lit{V: nil, T: in.T}})
		}
		a.Calls = append(a.Calls, c)
		back := &mrogen.Call{Id: a.Name + "_BACK", Callee: a.Name}
		for _, in := range a.Ins {
			back.Bindings = append(back.Bindings, mrogen.Binding{Param: in.Name, E: mrogen.Lit{V: nil, T: in.T}})
		}
		b.Calls = append(b.Calls, back)
	case "dependency-cycle", "dependency-cycle-self-disabled", "three-cycle":
		n := 2
		if kind == "three-cycle" {
			n = 3
		}
		pl := pickPl(n)
		if pl == nil {
			return ""
		}
		start := rapid.IntRange(0, len(pl.Calls)-n).Draw(t, "cycleAt")
		cyc := pl.Calls[start : start+n]
		for i, c := range cyc {
			next := cyc[(i+1)%n]
			if len(c.Bindings) == 0 {
				return ""
			}
			c.Bindings[0].E = mrogen.Ref{Call: next.Id, Out: firstOut(next)}
			if _, isSplit := c.Bindings[0].E.(mrogen.Split); isSplit {
				c.Mapped = false
			}
			c.Mapped = false
			for j := range c.Bindings {
				if sp, ok := c.Bindings[j].E.(mrogen.Split); ok {
					c.Bindings[j].E = sp.E
				}
			}
			if kind == "dependency-cycle-self-disabled" || (kind == "three-cycle" && rapid.Bool().Draw(t, "selfDisabled")) {
				c.Disabled = &mrogen.Ref{Call: c.Id, Out: boolOutOf(prog, c.Callee)}
			}
		}
	case "disabled-by-own-output":
		pl := pickPl(1)
		if pl == nil {
			return ""
		}
		c := pl.Calls[rapid.IntRange(0, len(pl.Calls)-1).Draw(t, "ctxErrCall")]
		c.Disabled = &mrogen.Ref{Call: c.Id, Out: boolOutOf(prog, c.Callee)}
	case "bound-to-own-output":
		pl := pickPl(1)
		if pl == nil {
			return ""
		}
		c := pl.Calls[rapid.IntRange(0, len(pl.Calls)-1).Draw(t, "ctxErrCall")]
		if len(c.Bindings) == 0 {
			return ""
		}
		b := &c.Bindings[rapid.IntRange(0, len(c.Bindings)-1).Draw(t, "ctxErrBinding")]
		if _, isSplit := b.E.(mrogen.Split); isSplit {
			b.E = mrogen.Split{E: mrogen.Ref{Call: c.Id, Out: firstOut(c)}}
		} else {
			b.E = mrogen.Ref{Call: c.Id, Out: firstOut(c)}
		}
	case "preflight-with-refs":
		pl := pickPl(2)
		if pl == nil {
			return ""
		}
		c := pl.Calls[len(pl.Calls)-1]
		c.Preflight = true
		c.Mapped = false
		for j := range c.Bindings {
			if sp, ok := c.Bindings[j].E.(mrogen.Split); ok {
				c.Bindings[j].E = sp.E
			}
		}
		if len(c.Bindings) > 0 {
			c.Bindings[0].E = mrogen.Ref{Call: pl.Calls[0].Id, Out: firstOut(pl.Calls[0])}
		}
	case "split-in-plain-call":
		pl := pickPl(1)
		if pl == nil {
			return ""
		}
		c := pl.Calls[rapid.IntRange(0, len(pl.Calls)-1).Draw(t, "ctxErrCall")]
		if len(c.Bindings) == 0 {
			return ""
		}
		c.Mapped = false
		c.Bindings[0].E = mrogen.Split{E: mrogen.ArrayLit{Elems: []mrogen.Expr{mrogen.Lit{V: nil, T: mrogen.Ty{Base: "int"}}}}}
	case "map-call-without-split":
		pl := pickPl(1)
		if pl == nil {
			return ""
		}
		c := pl.Calls[rapid.IntRange(0, len(pl.Calls)-1).Draw(t, "ctxErrCall")]
		c.Mapped = true
		for j := range c.Bindings {
			if sp, ok := c.Bindings[j].E.(mrogen.Split); ok {
				c.Bindings[j].E = sp.E
			}
		}
	case "return-undefined-call":
		pl := pickPl(1)
		if pl == nil || len(pl.Ret) == 0 {
			return ""
		}
		pl.Ret[0].E = mrogen.Ref{Call: "ZZ_NOWHERE", Out: "o"}
	case "call-undefined-callee":
		pl := pickPl(1)
		if pl == nil {
			return ""
		}
		pl.Calls = append(pl.Calls, &mrogen.Call{Id: "ZZ_UNDEF", Callee: "ZZ_UNDEF", Bindings: []mrogen.Binding{{Param: "p", E: mrogen.Lit{V: nil, T: mrogen.Ty{Base: "int"}}}}})
	}
	return kind
}

// TestC08SemanticErrors: well-formed texts the compiler has to refuse for
// what they mean - constructs in contexts that do not allow them, calls that
// depend on themselves or on each other, pipelines that call themselves,
// bursts of declaration-level mistakes.  Same oracle as for byte-level
// inputs: every entry point returns, with a tree or an error that carries a
// position, in proportionate time (a loop in the compiler shows as a hang).
func TestC08SemanticErrors(t *testing.T) {
	rapid.Check(t, func(t *rapid.T) {
		prog := mrogen.GenProgram(t, c10Cfg())
		kind := ""
		if rapid.IntRange(0, 3).Draw(t, "declBurst") == 0 {
			k, n := injectDeclErrors(t, prog)
			if n > 0 {
				kind = "decl:" + k
			}
		} else {
			if k := injectContextError(t, prog); k != "" {
				kind = "ctx:" + k
			}
		}
		if kind != "" && rapid.IntRange(0, 3).Draw(t, "second") == 0 {
			if k := injectContextError(t, prog); k != "" {
				kind += "+" + k
			}
		}
		lay := &mrogen.Layout{Pick: func(n int) int { return rapid.IntRange(0, n-1).Draw(t, "lay") }, OldModifiers: rapid.Bool().Draw(t, "oldMods"), ShuffleCalls: rapid.Bool().Draw(t, "shuffleCalls")}
		src := []byte(prog.Source(lay))
		classes := checkEntries(t, "C08", seedFile{name: "gen.mro", dir: "."}, src, "generated program with "+kind)
		classes = append(classes, "semantic-error-program")
		if kind != "" {
			classes = append(classes, "inject:"+kind)
		}
		stats.Case("C08", kind != "", stats.Digest(src), classes, func() any {
			return map[string]any{"kind": "semantic error program", "injected": kind, "class": classes[0], "input": stats.Trunc(string(src), 500)}
		})
	})
	_ = fmt.Sprint
}
