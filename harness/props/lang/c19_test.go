package lang

import (
	"encoding/json"
	"fmt"
	"os"
	"path/filepath"
	"runtime/debug"
	"sort"
	"strings"
	"testing"

	"github.com/martian-lang/martian/martian/syntax"
	"github.com/martian-lang/martian/martian/syntax/refactoring"
	"pgregory.net/rapid"

	"verifharness/mrogen"
	"verifharness/refsem"
	"verifharness/stats"
)

func c19Cfg() *mrogen.ProgCfg {
	return &mrogen.ProgCfg{MaxStages: 4, MaxPipelines: 3, MaxCalls: 4, MapCalls: true, Disabled: true, SplitStage: true,
		Preflight: true, NoFiles: false, Wildcards: true, Assignable: refsem.Assignable,
		Values: mrogen.ValueCfg{NullPct: 5, PlainStrings: true, SafeKeys: true, PlainNumbers: true}}
}

// applyEdit does what `mro edit` does for one file: compile, Refactor,
// apply the edit to the uncompiled parse, format.
// A program spread over several files (main.mro including pipes.mro and
// sub/types.mro, as mrogen.SourceFiles lays it out) travels through this test
// as one string: "\x00FILE <name>\n<content>" per file.
const fileMark = "\x00FILE "

var setOrder = []string{"main.mro", "pipes.mro", "sub/types.mro"}

func encodeSet(files map[string]string) string {
	var b strings.Builder
	for _, n := range setOrder {
		b.WriteString(fileMark + n + "\n" + files[n])
	}
	return b.String()
}

func decodeSet(text string) map[string]string {
	files := map[string]string{}
	for _, part := range strings.Split(text, fileMark)[1:] {
		i := strings.IndexByte(part, '\n')
		files[part[:i]] = part[i+1:]
	}
	return files
}

func isSet(text string) bool { return strings.HasPrefix(text, fileMark) }

// writeSet puts the files below the directory of path.
func writeSet(text, path string) (string, map[string]string) {
	dir := filepath.Join(filepath.Dir(path), "c19set")
	files := decodeSet(text)
	for n, c := range files {
		p := filepath.Join(dir, n)
		os.MkdirAll(filepath.Dir(p), 0o755)
		os.WriteFile(p, []byte(c), 0o644)
	}
	return dir, files
}

// applyEditSet does what `mro edit -w main.mro pipes.mro sub/types.mro` does:
// every file is compiled (with its includes), one Refactor over all of them,
// the edit replayed on the unchecked parse of each file, each formatted.
func applyEditSet(text, path string, conf refactoring.RefactorConfig) (string, int, []*syntax.Ast, error) {
	dir, files := writeSet(text, path)
	var parser syntax.Parser
	var asts []*syntax.Ast
	for _, n := range setOrder {
		_, _, ast, err := parser.ParseSourceBytes([]byte(files[n]), filepath.Join(dir, n), []string{dir}, false)
		if err != nil {
			return "", 0, nil, fmt.Errorf("compile %s: %w", n, err)
		}
		asts = append(asts, ast)
	}
	payload, _ := json.Marshal(map[string]any{"src": text, "conf": conf})
	stats.Inflight("C19/refactor-kills-process", payload)
	edit, err := refactoring.Refactor(asts, conf)
	stats.InflightDone()
	if err != nil {
		return "", 0, nil, fmt.Errorf("refactor: %w", err)
	}
	if edit == nil {
		return text, 0, nil, nil
	}
	total := 0
	out := map[string]string{}
	var edited []*syntax.Ast
	for _, n := range setOrder {
		ast, err := parser.UncheckedParse([]byte(files[n]), filepath.Join(dir, n))
		if err != nil {
			return "", 0, nil, err
		}
		c, err := edit.Apply(ast)
		if err != nil {
			return "", total, nil, fmt.Errorf("apply to %s: %w", n, err)
		}
		total += c
		out[n] = ast.Format()
		edited = append(edited, ast)
	}
	return encodeSet(out), total, edited, nil
}

func applyEdit(src, path string, conf refactoring.RefactorConfig) (string, int, error) {
	out, n, _, err := applyEditAst(src, path, conf)
	return out, n, err
}

func expHasSplit(e syntax.Exp) bool {
	switch x := e.(type) {
	case *syntax.SplitExp:
		return true
	case *syntax.ArrayExp:
		for _, v := range x.Value {
			if expHasSplit(v) {
				return true
			}
		}
	case *syntax.MapExp:
		for _, v := range x.Value {
			if expHasSplit(v) {
				return true
			}
		}
	}
	return false
}

// mapCallWithoutSplit names a map call of the (uncompiled) AST none of whose
// bindings is split over any more.
func mapCallWithoutSplit(asts []*syntax.Ast) string {
	for _, ast := range asts {
		if w := mapCallWithoutSplit1(ast); w != "" {
			return w
		}
	}
	return ""
}

func mapCallWithoutSplit1(ast *syntax.Ast) string {
	for _, pl := range ast.Pipelines {
		for _, c := range pl.Calls {
			if c.Mapping == nil {
				continue
			}
			has := false
			for _, b := range c.Bindings.List {
				if expHasSplit(b.Exp) {
					has = true
				}
			}
			if !has {
				return pl.Id + "." + c.Id
			}
		}
	}
	return ""
}

// emptyCallableUsedAsType names a callable of the (uncompiled) AST that has no
// outputs while its name is used as a type.
func emptyCallableUsedAsType(asts []*syntax.Ast) string {
	used := map[string]bool{}
	var callables []syntax.Callable
	for _, ast := range asts {
		callables = append(callables, ast.Callables.List...)
		for _, st := range ast.StructTypes {
			for _, m := range st.Members {
				used[m.Tname.Tname] = true
			}
		}
	}
	for _, c := range callables {
		for _, p := range c.GetInParams().List {
			used[p.Tname.Tname] = true
		}
		for _, p := range c.GetOutParams().List {
			used[p.Tname.Tname] = true
		}
	}
	for _, c := range callables {
		if len(c.GetOutParams().List) == 0 && used[c.GetId()] {
			return c.GetId()
		}
	}
	return ""
}

func emptyCallableUsedAsTypeOld(ast *syntax.Ast) string {
	used := map[string]bool{}
	for _, c := range ast.Callables.List {
		for _, p := range c.GetInParams().List {
			used[p.Tname.Tname] = true
		}
		for _, p := range c.GetOutParams().List {
			used[p.Tname.Tname] = true
		}
	}
	for _, st := range ast.StructTypes {
		for _, m := range st.Members {
			used[m.Tname.Tname] = true
		}
	}
	for _, c := range ast.Callables.List {
		if len(c.GetOutParams().List) == 0 && used[c.GetId()] {
			return c.GetId()
		}
	}
	return ""
}

func applyEditAst(src, path string, conf refactoring.RefactorConfig) (string, int, []*syntax.Ast, error) {
	if isSet(src) {
		return applyEditSet(src, path, conf)
	}
	out, n, ast, err := applyEditOne(src, path, conf)
	if ast == nil {
		return out, n, nil, err
	}
	return out, n, []*syntax.Ast{ast}, err
}

func applyEditOne(src, path string, conf refactoring.RefactorConfig) (string, int, *syntax.Ast, error) {
	var parser syntax.Parser
	_, _, compiled, err := parser.ParseSourceBytes([]byte(src), path, nil, false)
	if err != nil {
		return "", 0, nil, fmt.Errorf("compile: %w", err)
	}
	// Refactor can die of a Go stack overflow, which nothing can recover:
	// leave the case behind for the driver.
	payload, _ := json.Marshal(map[string]any{"src": src, "conf": conf})
	stats.Inflight("C19/refactor-kills-process", payload)
	edit, err := refactoring.Refactor([]*syntax.Ast{compiled}, conf)
	stats.InflightDone()
	if err != nil {
		return "", 0, nil, fmt.Errorf("refactor: %w", err)
	}
	if edit == nil {
		return src, 0, nil, nil
	}
	ast, err := parser.UncheckedParse([]byte(src), path)
	if err != nil {
		return "", 0, nil, err
	}
	n, err := edit.Apply(ast)
	if err != nil {
		return "", n, nil, fmt.Errorf("apply: %w", err)
	}
	return ast.Format(), n, ast, nil
}

func renameRefsFull(e mrogen.Expr, f func(r mrogen.Ref) mrogen.Ref) mrogen.Expr {
	switch x := e.(type) {
	case mrogen.Ref:
		return f(x)
	case mrogen.Split:
		return mrogen.Split{E: renameRefsFull(x.E, f)}
	case mrogen.ArrayLit:
		for i := range x.Elems {
			x.Elems[i] = renameRefsFull(x.Elems[i], f)
		}
		return x
	case mrogen.MapLit:
		for i := range x.Vals {
			x.Vals[i] = renameRefsFull(x.Vals[i], f)
		}
		return x
	case mrogen.StructLit:
		for i := range x.Vals {
			x.Vals[i] = renameRefsFull(x.Vals[i], f)
		}
		return x
	}
	return e
}

func hasSplit(e mrogen.Expr) bool {
	switch x := e.(type) {
	case mrogen.Split:
		return true
	case mrogen.ArrayLit:
		for _, v := range x.Elems {
			if hasSplit(v) {
				return true
			}
		}
	case mrogen.MapLit:
		for _, v := range x.Vals {
			if hasSplit(v) {
				return true
			}
		}
	case mrogen.StructLit:
		for _, v := range x.Vals {
			if hasSplit(v) {
				return true
			}
		}
	}
	return false
}

// splitBindingsLost: does some map call of the original program have fewer
// split arguments after the edit (calls that were removed do not count)?
func splitBindingsLost(ast0, ast1 *syntax.Ast) bool {
	count := func(ast *syntax.Ast) map[string]int {
		r := map[string]int{}
		for _, pl := range ast.Pipelines {
			for _, c := range pl.Calls {
				if c.Mapping == nil {
					continue
				}
				n := 0
				for _, b := range c.Bindings.List {
					if b.Id == "*" {
						break
					}
					if expHasSplit(b.Exp) {
						n++
					}
				}
				r[pl.Id+"."+c.Id] = n
			}
		}
		return r
	}
	after := count(ast1)
	for k, n := range count(ast0) {
		if m, ok := after[k]; ok && m < n {
			return true
		}
	}
	return false
}

// splitSourceRemoved: is the parameter split over in some map call of the
// callable?  Then the call maps over something else (or over less) after the
// removal, and what it and everything downstream resolves to may change.
func splitSourceRemoved(prog *mrogen.Program, callable, param string) bool {
	for _, pl := range prog.Pipelines {
		for _, c := range pl.Calls {
			if c.Callee != callable || !c.Mapped {
				continue
			}
			for _, b := range c.Bindings {
				if b.Param == param && hasSplit(b.E) {
					return true
				}
			}
		}
	}
	return false
}

// soleSplitSource: is the parameter, in some map call of the callable, the
// only binding that is split over?  Removing it cannot leave a valid map
// call (and turning the call into a plain one changes its output type), so
// the edit is not an applicable one.
// inputBoundByWildcard: is the input of the callable supplied, in some call,
// by the wildcard binding "* = self" (either callable's input reached through
// a wildcard call of it, or the callable is a pipeline which hands its own
// input of that name on through a wildcard)?
func inputBoundByWildcard(prog *mrogen.Program, callable, param string) bool {
	for _, pl := range prog.Pipelines {
		for _, c := range pl.Calls {
			if c.WildcardFrom != nil && c.Callee == callable {
				// "* = self.x" / "* = CALL": same mechanism, the parameter
				// is supplied by a member of a struct value
				for _, b := range c.Bindings {
					if r, ok := b.E.(mrogen.Ref); ok && b.Param == param && mrogen.IsMemberOf(r, *c.WildcardFrom, b.Param) {
						return true
					}
				}
			}
			if !c.WildcardSelf {
				continue
			}
			for _, b := range c.Bindings {
				r, ok := b.E.(mrogen.Ref)
				if !ok || r.Call != "" || r.Out != b.Param || len(r.Path) > 0 {
					continue
				}
				if b.Param == param && (c.Callee == callable || pl.Name == callable) {
					return true
				}
			}
		}
	}
	return false
}

func soleSplitSource(prog *mrogen.Program, callable, param string) bool {
	for _, pl := range prog.Pipelines {
		for _, c := range pl.Calls {
			if c.Callee != callable || !c.Mapped {
				continue
			}
			mine, others := false, false
			for _, b := range c.Bindings {
				if hasSplit(b.E) {
					if b.Param == param {
						mine = true
					} else {
						others = true
					}
				}
			}
			if mine && !others {
				return true
			}
		}
	}
	return false
}

func forEachExpr(pl *mrogen.Pipeline, f func(r mrogen.Ref) mrogen.Ref) {
	for _, c := range pl.Calls {
		for i := range c.Bindings {
			c.Bindings[i].E = renameRefsFull(c.Bindings[i].E, f)
		}
		if c.Disabled != nil {
			r := f(*c.Disabled)
			c.Disabled = &r
		}
	}
	for i := range pl.Ret {
		pl.Ret[i].E = renameRefsFull(pl.Ret[i].E, f)
	}
	for i := range pl.Retain {
		pl.Retain[i] = f(pl.Retain[i])
	}
}

// The reference implementation of the renames, on the generator's IR.

func irRenameCallable(prog *mrogen.Program, from, to string) {
	for _, s := range prog.Stages {
		if s.Name == from {
			s.Name = to
		}
	}
	for _, p := range prog.Pipelines {
		if p.Name == from {
			p.Name = to
		}
	}
	for _, pl := range prog.Pipelines {
		renamedIds := map[string]bool{}
		for _, c := range pl.Calls {
			if c.Callee == from {
				if c.Id == from {
					c.Id = to
					renamedIds[from] = true
				}
				c.Callee = to
			}
		}
		if renamedIds[from] {
			forEachExpr(pl, func(r mrogen.Ref) mrogen.Ref {
				if r.Call == from {
					r.Call = to
				}
				return r
			})
		}
		// struct-typed parameters named after the callable
		for i := range pl.Ins {
			if pl.Ins[i].T.Base == from {
				pl.Ins[i].T.Base = to
			}
		}
		for i := range pl.Outs {
			if pl.Outs[i].T.Base == from {
				pl.Outs[i].T.Base = to
			}
		}
	}
	for _, s := range prog.Stages {
		for i := range s.Ins {
			if s.Ins[i].T.Base == from {
				s.Ins[i].T.Base = to
			}
		}
		for i := range s.Outs {
			if s.Outs[i].T.Base == from {
				s.Outs[i].T.Base = to
			}
		}
	}
	if prog.Top.Callee == from {
		prog.Top.Callee, prog.Top.Id = to, to
	}
}

func irRenameInput(prog *mrogen.Program, callable, from, to string) {
	for _, s := range prog.Stages {
		if s.Name == callable {
			for i := range s.Ins {
				if s.Ins[i].Name == from {
					s.Ins[i].Name = to
				}
			}
		}
	}
	for _, p := range prog.Pipelines {
		if p.Name == callable {
			for i := range p.Ins {
				if p.Ins[i].Name == from {
					p.Ins[i].Name = to
				}
			}
			forEachExpr(p, func(r mrogen.Ref) mrogen.Ref {
				if r.Call == "" && r.Out == from {
					r.Out = to
				}
				return r
			})
		}
	}
	fix := func(c *mrogen.Call) {
		if c.Callee == callable {
			for i := range c.Bindings {
				if c.Bindings[i].Param == from {
					c.Bindings[i].Param = to
				}
			}
		}
	}
	for _, pl := range prog.Pipelines {
		for _, c := range pl.Calls {
			fix(c)
		}
	}
	fix(prog.Top)
}

func irRenameOutput(prog *mrogen.Program, callable, from, to string) {
	for _, s := range prog.Stages {
		if s.Name == callable {
			for i := range s.Outs {
				if s.Outs[i].Name == from {
					s.Outs[i].Name = to
				}
			}
			for i := range s.Retain {
				if s.Retain[i] == from {
					s.Retain[i] = to
				}
			}
		}
	}
	for _, p := range prog.Pipelines {
		if p.Name == callable {
			for i := range p.Outs {
				if p.Outs[i].Name == from {
					p.Outs[i].Name = to
				}
			}
			for i := range p.Ret {
				if p.Ret[i].Param == from {
					p.Ret[i].Param = to
				}
			}
		}
	}
	// references CALL.from(...) where CALL calls the callable; and
	// projections through values of the callable's output struct type are
	// only reached through whole-call references (CALL.field).
	for _, pl := range prog.Pipelines {
		ids := map[string]bool{}
		for _, c := range pl.Calls {
			if c.Callee == callable {
				ids[c.Id] = true
			}
		}
		forEachExpr(pl, func(r mrogen.Ref) mrogen.Ref {
			if ids[r.Call] && r.Out == from {
				r.Out = to
			}
			return r
		})
	}
}

// usesStructOfCallable: is the callable's implicit output struct used as a
// type, or a whole-call reference to it passed on (then a field rename has
// to follow the value, which the IR reference does not model)?
func usesStructOfCallable(prog *mrogen.Program, callable string) bool {
	ids := map[string]bool{}
	hit := false
	chk := func(ps []mrogen.Param) {
		for _, p := range ps {
			if p.T.Base == callable {
				hit = true
			}
		}
	}
	for _, s := range prog.Stages {
		chk(s.Ins)
		chk(s.Outs)
	}
	for _, pl := range prog.Pipelines {
		chk(pl.Ins)
		chk(pl.Outs)
		for _, c := range pl.Calls {
			if c.Callee == callable {
				ids[c.Id] = true
			}
		}
		forEachExpr(pl, func(r mrogen.Ref) mrogen.Ref {
			if ids[r.Call] && r.Out == "" {
				hit = true
			}
			return r
		})
	}
	return hit
}

func expStr(e syntax.Exp) string {
	if e == nil {
		return "<nil>"
	}
	return e.GoString()
}

// compareGraphsAfterRemoval checks the resolved call graph of the top-level
// call after a removal edit against the one before it: no node is invented;
// every stage node that is still there resolves each of its remaining inputs,
// its disabling conditions and its fork roots exactly as before; the resolved
// outputs of the top-level call are the same.  With callsMayGo, stage nodes
// may disappear, but never a preflight; without it the set of nodes is the
// same and only nodes of the edited callable lose exactly the one input.
func compareGraphsAfterRemoval(ast0, ast1 *syntax.Ast, callable, param string, callsMayGo, splitRemoved bool) string {
	g0, err0, p0 := safeCallGraph(ast0)
	g1, err1, p1 := safeCallGraph(ast1)
	if p0 != nil || err0 != nil {
		// no graph for the original: nothing to compare with
		stats.Count("C19", "call_graph_unavailable_for_original", 1)
		return ""
	}
	if p1 != nil || err1 != nil {
		return fmt.Sprintf("the original resolves to a call graph, the edited program does not: %v %v", err1, p1)
	}
	n0, n1 := g0.NodeClosure(), g1.NodeClosure()
	var ids []string
	for id := range n1 {
		ids = append(ids, id)
	}
	sort.Strings(ids)
	for _, id := range ids {
		a, b := n0[id], n1[id]
		if a == nil {
			// a map call whose dynamic split source went away with the
			// removed parameters is expanded statically where it was not
			// before: nodes below it are new
			unexpanded := false
			for p := id; strings.Contains(p, "."); {
				p = p[:strings.LastIndexByte(p, '.')]
				if anc := n0[p]; anc != nil {
					unexpanded = anc.Kind() == syntax.KindPipeline && len(anc.GetChildren()) == 0
					break
				}
			}
			if unexpanded {
				continue
			}
			return "node " + id + " is new in the edited program"
		}
		if a.Kind() != b.Kind() || a.Callable().GetId() != b.Callable().GetId() {
			return "node " + id + " is a different callable after the edit"
		}
		if a.Kind() != syntax.KindStage {
			continue
		}
		in0, in1 := a.ResolvedInputs(), b.ResolvedInputs()
		// (a map call of the edited callable that was split over the removed
		// input may change what it maps over, e.g. from a null source to a
		// literal one, which shows in how its other inputs resolve)
		mappedTarget := callable != "" && a.Callable().GetId() == callable && a.Call() != nil && a.Call().Mapping != nil
		for k, v1 := range in1 {
			if mappedTarget || splitRemoved {
				break
			}
			v0, ok := in0[k]
			if !ok {
				return "node " + id + " has a new input " + k
			}
			if expStr(v0.Exp) != expStr(v1.Exp) {
				return fmt.Sprintf("node %s input %s resolves to %s, before the edit to %s", id, k, expStr(v1.Exp), expStr(v0.Exp))
			}
		}
		want := len(in0)
		if callable != "" && a.Callable().GetId() == callable {
			want--
			if _, still := in1[param]; still {
				return "node " + id + " still has input " + param
			}
		}
		if len(in1) != want {
			return fmt.Sprintf("node %s has %d inputs after the edit, expected %d", id, len(in1), want)
		}
		if mappedTarget || splitRemoved {
			// (nor is it disabled by the disabled source of that split)
			continue
		}
		d0, d1 := a.Disabled(), b.Disabled()
		if len(d0) != len(d1) {
			return fmt.Sprintf("node %s has %d disabling conditions after the edit, before %d", id, len(d1), len(d0))
		}
		for i := range d0 {
			if expStr(d0[i]) != expStr(d1[i]) {
				return fmt.Sprintf("node %s is disabled by %s after the edit, before by %s", id, expStr(d1[i]), expStr(d0[i]))
			}
		}
		if callable != "" {
			// the map calls a stage forks with follow from what its inputs
			// depend on: with an input removed they may shrink, for the
			// stage and for everything downstream of it
			continue
		}
		f0, f1 := a.ForkRoots(), b.ForkRoots()
		if len(f0) != len(f1) {
			return fmt.Sprintf("node %s has %d fork roots after the edit, before %d", id, len(f1), len(f0))
		}
		for i := range f0 {
			if f0[i].GetFqid() != f1[i].GetFqid() {
				return fmt.Sprintf("node %s fork root %d is %s after the edit, before %s", id, i, f1[i].GetFqid(), f0[i].GetFqid())
			}
		}
	}
	for id, a := range n0 {
		if _, ok := n1[id]; ok {
			continue
		}
		if !callsMayGo {
			return "node " + id + " disappeared"
		}
		if c := a.Call(); c != nil && c.Modifiers != nil && c.Modifiers.Preflight {
			return "preflight node " + id + " was removed"
		}
	}
	o0, o1 := g0.ResolvedOutputs(), g1.ResolvedOutputs()
	if (o0 == nil) != (o1 == nil) || (o0 != nil && expStr(o0.Exp) != expStr(o1.Exp)) {
		s0, s1 := "<none>", "<none>"
		if o0 != nil {
			s0 = expStr(o0.Exp)
		}
		if o1 != nil {
			s1 = expStr(o1.Exp)
		}
		return "the top-level call's outputs resolve to " + s1 + ", before the edit to " + s0
	}
	return ""
}

// structOfCallableOrCallerUsed: usesStructOfCallable for the callable or for
// any pipeline that (transitively) calls it.
func structOfCallableOrCallerUsed(prog *mrogen.Program, callable string) bool {
	seen := map[string]bool{callable: true}
	for changed := true; changed; {
		changed = false
		for _, pl := range prog.Pipelines {
			if seen[pl.Name] {
				continue
			}
			for _, c := range pl.Calls {
				if seen[c.Callee] {
					seen[pl.Name] = true
					changed = true
					break
				}
			}
		}
	}
	for name := range seen {
		if usesStructOfCallable(prog, name) {
			return true
		}
	}
	return false
}

// typeNameUsed: is the callable's name used as the type of a parameter?
func typeNameUsed(prog *mrogen.Program, callable string) bool {
	hit := false
	chk := func(ps []mrogen.Param) {
		for _, p := range ps {
			if p.T.Base == callable {
				hit = true
			}
		}
	}
	for _, s := range prog.Stages {
		chk(s.Ins)
		chk(s.Outs)
	}
	for _, pl := range prog.Pipelines {
		chk(pl.Ins)
		chk(pl.Outs)
	}
	return hit
}

func callGraphJSON(src, path string) (string, *syntax.Ast, error) {
	var incl []string
	if isSet(src) {
		dir, files := writeSet(src, path)
		src, path, incl = files["main.mro"], filepath.Join(dir, "main.mro"), []string{dir}
	}
	_, _, ast, err := syntax.ParseSourceBytes([]byte(src), path, incl, false)
	if err != nil {
		return "", nil, err
	}
	once := func() string {
		g, gerr, p := safeCallGraph(ast)
		if p != nil {
			return "<panic>"
		}
		if gerr != nil {
			return "<error: " + gerr.Error() + ">"
		}
		j, _ := jsonMarshal(g)
		return j
	}
	j := once()
	// Resolution itself is not always repeatable (C10's business: a
	// pipeline with two instances, one of them mapped, may resolve a merge
	// over either instance's stage; known findings under C10 and C01): an
	// edit cannot be judged against a graph that differs from itself.
	for i := 0; i < 3; i++ {
		if once() != j {
			panic(unstableGraph{})
		}
	}
	return j, ast, nil
}

// unstableGraph: raised by callGraphJSON, turns the case into a counted skip.
type unstableGraph struct{}

func skipUnstableGraph() {
	if p := recover(); p != nil {
		if _, ok := p.(unstableGraph); ok {
			stats.Count("C19", "call_graph_not_repeatable_skipped", 1)
			return
		}
		panic(p)
	}
}

// TestC19Refactor: rename edits keep the program compiling and leave the
// resolved call graph unchanged up to the renamed identifier (checked
// against the same rename applied to the generator's IR); renaming back
// restores an equivalent program.  Removal edits keep it compiling.
func TestC19Refactor(t *testing.T) {
	root := os.Getenv("VERIF_WORK")
	if root == "" {
		root = os.TempDir()
	}
	path := filepath.Join(root, "c19.mro")
	// a runaway recursion should end the process after 256 MB of stack, not 1 GB
	defer debug.SetMaxStack(debug.SetMaxStack(256 << 20))
	if b := stats.InflightReplay(); b != nil {
		var c struct {
			Src  string                     `json:"src"`
			Conf refactoring.RefactorConfig `json:"conf"`
		}
		if err := json.Unmarshal(b, &c); err != nil {
			t.Fatalf("INFRA: %v", err)
		}
		out, _, err := applyEdit(c.Src, path, c.Conf)
		t.Logf("replayed in-flight case: err=%v\n%s", err, out)
		return
	}
	rapid.Check(t, func(t *rapid.T) {
		defer skipUnstableGraph()
		prog := mrogen.GenProgram(t, c19Cfg())
		// parameter names that are prefixes of one another (o / o_tot): an
		// edit of one must leave the other alone
		twins := 0
		twin := func(name string, outs []mrogen.Param) {
			if len(outs) < 2 || usesStructOfCallable(prog, name) || !rapid.Bool().Draw(t, "twin") {
				return
			}
			i := rapid.IntRange(0, len(outs)-1).Draw(t, "twinOf")
			j := (i + 1 + rapid.IntRange(0, len(outs)-2).Draw(t, "twinIs")) % len(outs)
			irRenameOutput(prog, name, outs[j].Name, outs[i].Name+"_tot")
			twins++
		}
		for _, st := range prog.Stages {
			twin(st.Name, append([]mrogen.Param{}, st.Outs...))
		}
		for _, pl := range prog.Pipelines {
			twin(pl.Name, append([]mrogen.Param{}, pl.Outs...))
		}
		multi := rapid.IntRange(0, 3).Draw(t, "multiFile") == 0
		render := func() string {
			if multi {
				return encodeSet(prog.SourceFiles(nil))
			}
			return prog.Source(nil)
		}
		src := render()
		j0, ast0, err := callGraphJSON(src, path)
		if err != nil {
			t.Fatalf("GENERATOR: %v\n%s", err, src)
		}
		reach := reachable(prog)
		var names []string
		for n := range reach {
			names = append(names, n)
		}
		// deterministic order
		for i := range names {
			for j := i + 1; j < len(names); j++ {
				if names[j] < names[i] {
					names[i], names[j] = names[j], names[i]
				}
			}
		}
		target := rapid.SampledFrom(names).Draw(t, "callable")
		ins, outs, isStage := prog.Callable(target)
		kind := rapid.SampledFrom([]string{"rename-callable", "rename-callable", "rename-input", "rename-output", "remove-input", "remove-input", "remove-output", "remove-unused"}).Draw(t, "edit")
		var conf, back refactoring.RefactorConfig
		throughStruct := false
		irEdit := func() {}
		param := ""
		switch kind {
		case "rename-callable":
			if target == "PF0" {
				return
			}
			newName := target + "_NEW"
			conf.Rename = []refactoring.Rename{{Callable: target, NewName: newName}}
			back.Rename = []refactoring.Rename{{Callable: newName, NewName: target}}
			irEdit = func() { irRenameCallable(prog, target, newName) }
		case "rename-input":
			if len(ins) == 0 {
				return
			}
			param = ins[rapid.IntRange(0, len(ins)-1).Draw(t, "param")].Name
			conf.RenameInParam = []refactoring.RenameParam{{CallableParam: refactoring.CallableParam{Callable: target, Param: param}, NewName: param + "_new"}}
			back.RenameInParam = []refactoring.RenameParam{{CallableParam: refactoring.CallableParam{Callable: target, Param: param + "_new"}, NewName: param}}
			irEdit = func() { irRenameInput(prog, target, param, param+"_new") }
		case "rename-output":
			if len(outs) == 0 {
				return
			}
			if usesStructOfCallable(prog, target) {
				// known finding: uses of the output that go through a value
				// of the callable's struct type are not followed
				if stats.Known("C19/output-edit-through-struct-value") {
					stats.Count("C19", "excluded:output-edit-through-struct-value", 1)
					return
				}
				throughStruct = true
			}
			param = outs[rapid.IntRange(0, len(outs)-1).Draw(t, "param")].Name
			conf.RenameOutParam = []refactoring.RenameParam{{CallableParam: refactoring.CallableParam{Callable: target, Param: param}, NewName: param + "_new"}}
			back.RenameOutParam = []refactoring.RenameParam{{CallableParam: refactoring.CallableParam{Callable: target, Param: param + "_new"}, NewName: param}}
			irEdit = func() { irRenameOutput(prog, target, param, param+"_new") }
		case "remove-input":
			if len(ins) == 0 || !isStage {
				return
			}
			param = ins[rapid.IntRange(0, len(ins)-1).Draw(t, "param")].Name
			conf.RemoveInParams = []refactoring.CallableParam{{Callable: target, Param: param}}
		case "remove-output":
			if len(outs) == 0 {
				return
			}
			param = outs[rapid.IntRange(0, len(outs)-1).Draw(t, "param")].Name
			if len(outs) == 1 && typeNameUsed(prog, target) {
				// the callable's output struct is the type of some parameter:
				// with its last output gone that type no longer exists, so
				// the edit has no valid result
				stats.Count("C19", "remove_last_output_of_callable_used_as_type_skipped", 1)
				return
			}
			// (the removal cascades to the outputs of calling pipelines that
			// are bound to the removed one)
			if structOfCallableOrCallerUsed(prog, target) {
				if stats.Known("C19/output-edit-through-struct-value") {
					stats.Count("C19", "excluded:output-edit-through-struct-value", 1)
					return
				}
				throughStruct = true
			}
			conf.RemoveOutParams = []refactoring.CallableParam{{Callable: target, Param: param}}
		case "remove-unused":
			// every pipeline no other pipeline calls is a root of the
			// unused-output analysis: one that is left out is, by the tool's
			// contract, itself unused and may be broken
			conf.TopCalls = refactoring.StringSet{prog.Top.Callee: struct{}{}}
			called := map[string]bool{}
			for _, pl := range prog.Pipelines {
				for _, c := range pl.Calls {
					called[c.Callee] = true
				}
			}
			for _, pl := range prog.Pipelines {
				if !called[pl.Name] {
					conf.TopCalls[pl.Name] = struct{}{}
				}
			}
			conf.RemoveCalls = true
		}
		describe := func(extra string) string {
			return fmt.Sprintf("edit %s on %s %s\n--- original\n%s\n%s", kind, target, param, src, extra)
		}
		if kind == "rename-input" && inputBoundByWildcard(prog, target, param) {
			// known finding: the rename does not see through "* = self"
			const k = "C19/rename-input-through-wildcard"
			if stats.Known(k) {
				stats.Count("C19", "excluded:rename-input-through-wildcard", 1)
				return
			}
			kind = "rename-input-through-wildcard"
		}
		out, nchanges, edited, err := applyEditAst(src, path, conf)
		if err != nil {
			fail(t, "C19", "edit-failed:"+kind, "%v\n%s", err, describe(""))
		}
		if edited != nil {
			if where := mapCallWithoutSplit(edited); where != "" {
				// known finding: an input removed (directly or by the cascade
				// through pipelines whose inputs became unbound) was the only
				// thing a map call was split over
				const k = "C19/map-call-loses-split-source"
				if stats.Known(k) {
					stats.Count("C19", "excluded:map-call-loses-split-source", 1)
					return
				}
				fail(t, "C19", "map-call-loses-split-source", "after the edit, map call %s has nothing left to split over; the file no longer parses\n%s", where, describe("--- edited\n"+out))
			}
		}
		if kind == "remove-output" && edited != nil {
			if name := emptyCallableUsedAsType(edited); name != "" {
				// the removal cascaded through the pipeline outputs bound to
				// the removed one until a callable whose output struct is
				// some parameter's type had no outputs left: the requested
				// edit has no valid result
				stats.Count("C19", "remove_output_not_applicable_empties_type_"+"skipped", 1)
				return
			}
		}
		j1, ast1, err := callGraphJSON(out, path)
		if err != nil {
			if throughStruct {
				fail(t, "C19", "output-edit-through-struct-value", "the edited program does not compile: %v\n%s", err, describe("--- edited\n"+out))
			}
			fail(t, "C19", "edited-does-not-compile:"+kind, "the edited program does not compile: %v\n%s", err, describe("--- edited\n"+out))
		}
		if throughStruct {
			// (the IR reference does not model renames that follow values)
			return
		}
		classes := []string{"edit:" + kind}
		if multi {
			classes = append(classes, "multi-file")
		}
		if twins > 0 {
			classes = append(classes, "prefix-twin-output-names")
		}
		if nchanges >= 2 {
			classes = append(classes, "multi-site")
		}
		switch kind {
		case "rename-callable", "rename-input", "rename-output":
			irEdit()
			want := render()
			jw, _, werr := callGraphJSON(want, path)
			if werr != nil {
				t.Fatalf("GENERATOR: reference rename does not compile: %v\n%s", werr, want)
			}
			if strings.HasPrefix(j0, "<") {
				// MakeCallGraph refuses the original program (its message
				// carries source positions): only the refusal is compared
				stats.Count("C19", "call_graph_unavailable_for_original", 1)
				if !strings.HasPrefix(j1, "<") || !strings.HasPrefix(jw, "<") {
					fail(t, "C19", "call-graph-changed:"+kind, "the original has no call graph (%s) but the edited program has\n%s", stats.Trunc(j0, 300), describe("--- edited\n"+out))
				}
				return
			}
			if j1 != jw {
				fail(t, "C19", "call-graph-changed:"+kind, "after the edit the resolved call graph is not the original one with the identifier renamed:\n%s\n%s", firstDiff(jw, j1), describe("--- edited\n"+out+"\n--- expected (same rename on the generator's IR)\n"+want))
			}
			// and back again
			out2, _, err := applyEdit(out, path, back)
			if err != nil {
				fail(t, "C19", "edit-failed:"+kind+"-back", "%v\n%s", err, describe("--- edited\n"+out))
			}
			j2, ast2, err := callGraphJSON(out2, path)
			if err != nil {
				fail(t, "C19", "edited-does-not-compile:"+kind+"-back", "renaming back does not compile: %v\n%s", err, describe("--- renamed back\n"+out2))
			}
			if j2 != j0 || !ast2.EquivalentCall(ast0) || !ast0.EquivalentCall(ast2) {
				fail(t, "C19", "rename-round-trip-differs:"+kind, "X->Y then Y->X is not equivalent to the original:\n%s\n%s", firstDiff(j0, j2), describe("--- renamed back\n"+out2))
			}
		case "remove-input", "remove-unused":
			// a map call that lost one of the arguments it was split over
			// (the removed input itself, or a pipeline input the cascade
			// removed) maps over something else afterwards: what it and
			// everything downstream resolves to - up to the top-level
			// outputs - legitimately changes; only "still compiles" is
			// claimed for such edits
			if splitBindingsLost(ast0, ast1) {
				stats.Count("C19", "graph_comparison_skipped_split_source_removed", 1)
				break
			}
			if kind == "remove-unused" {
				if msg := compareGraphsAfterRemoval(ast0, ast1, "", "", true, false); msg != "" {
					fail(t, "C19", "call-graph-changed:"+kind, "%s\n%s", msg, describe("--- edited\n"+out))
				}
				// the top-level call's signature must be untouched
				if ast1.Call == nil || ast1.Call.DecId != ast0.Call.DecId {
					fail(t, "C19", "top-call-changed", "%s", describe("--- edited\n"+out))
				}
				c0 := ast0.Callables.Table[ast0.Call.DecId]
				c1 := ast1.Callables.Table[ast1.Call.DecId]
				// (inputs that only fed removed calls disappear legitimately)
				if c1 == nil || len(c0.GetOutParams().List) != len(c1.GetOutParams().List) {
					fail(t, "C19", "top-callable-outputs-changed", "removing unused elements changed the top-level callable's outputs\n%s", describe("--- edited\n"+out))
				}
				break
			}
			if msg := compareGraphsAfterRemoval(ast0, ast1, target, param, false, splitSourceRemoved(prog, target, param)); msg != "" {
				fail(t, "C19", "call-graph-changed:"+kind, "%s\n%s", msg, describe("--- edited\n"+out))
			}
		}
		_ = ast1
		stats.Case("C19", nchanges >= 2, stats.Digest(src, kind, target, param), classes, func() any {
			return map[string]any{"edit": kind, "callable": target, "param": param, "sites_changed": nchanges, "original": stats.Trunc(src, 500)}
		})
	})
}

const c19KnownWildcard = `stage S(
    in  int p,
    out int o,
    src comp "x",
)

pipeline P(
    in  int p,
    out int o,
)
{
    call S(
        * = self,
    )

    return (
        o = S.o,
    )
}

call P(
    p = 1,
)
`

const c19KnownSplit = `stage S(
    in  int p,
    in  int x,
    out int o,
    src comp "x",
)

pipeline P(
    in  int   p,
    in  int[] xs,
    out int[] o,
)
{
    map call S(
        p = self.p,
        x = split self.xs,
    )

    return (
        o = S.o,
    )
}

call P(
    p  = 1,
    xs = [1],
)
`

// Reproducer of C19/rename-input-through-wildcard: S.p is supplied by
// "* = self"; renaming it leaves that call without the argument.
func TestC19KnownWildcardRename(t *testing.T) {
	src := c19KnownWildcard
	if _, _, _, err := syntax.ParseSourceBytes([]byte(src), "k.mro", nil, false); err != nil {
		t.Fatalf("INFRA: %v\n%s", err, src)
	}
	out, _, err := applyEdit(src, "k.mro", refactoring.RefactorConfig{RenameInParam: []refactoring.RenameParam{{
		CallableParam: refactoring.CallableParam{Callable: "S", Param: "p"}, NewName: "p2"}}})
	if err != nil {
		t.Fatalf("INFRA: %v", err)
	}
	if _, _, _, err := syntax.ParseSourceBytes([]byte(out), "k.mro", nil, false); err != nil {
		fmt.Println("KNOWN-PRESENT C19/rename-input-through-wildcard:", err)
	}
}

// Reproducer of C19/map-call-loses-split-source: removing S.x leaves
// "map call S" in P with nothing to split over.
func TestC19KnownMapCallLosesSplit(t *testing.T) {
	src := c19KnownSplit
	if _, _, _, err := syntax.ParseSourceBytes([]byte(src), "k.mro", nil, false); err != nil {
		t.Fatalf("INFRA: %v\n%s", err, src)
	}
	out, _, err := applyEdit(src, "k.mro", refactoring.RefactorConfig{RemoveInParams: []refactoring.CallableParam{{Callable: "S", Param: "x"}}})
	if err != nil {
		t.Fatalf("INFRA: %v", err)
	}
	if _, _, _, err := syntax.ParseSourceBytes([]byte(out), "k.mro", nil, false); err != nil {
		fmt.Println("KNOWN-PRESENT C19/map-call-loses-split-source:", err)
	}
}

const c19KnownStructValue = `stage S(
    in  int p,
    out int o,
    out int r,
    src comp "x",
)

pipeline INNER(
    in  int p,
    out S   s,
)
{
    call S(
        p = self.p,
    )

    return (
        s = S,
    )
}

pipeline P(
    in  int p,
    out int o,
    out int r,
)
{
    call INNER(
        p = self.p,
    )

    return (
        o = INNER.s.o,
        r = INNER.s.r,
    )
}

call P(
    p = 1,
)
`

// Reproducer of C19/output-edit-through-struct-value: S.o is used in P only
// through INNER.s, a value of S's output struct type.
func TestC19KnownOutputThroughStruct(t *testing.T) {
	src := c19KnownStructValue
	if _, _, _, err := syntax.ParseSourceBytes([]byte(src), "k.mro", nil, false); err != nil {
		t.Fatalf("INFRA: %v\n%s", err, src)
	}
	for _, conf := range []refactoring.RefactorConfig{
		{RemoveOutParams: []refactoring.CallableParam{{Callable: "S", Param: "o"}}},
		{RenameOutParam: []refactoring.RenameParam{{CallableParam: refactoring.CallableParam{Callable: "S", Param: "o"}, NewName: "o2"}}},
	} {
		out, _, err := applyEdit(src, "k.mro", conf)
		if err != nil {
			t.Fatalf("INFRA: %v", err)
		}
		if _, _, _, err := syntax.ParseSourceBytes([]byte(out), "k.mro", nil, false); err != nil {
			fmt.Println("KNOWN-PRESENT C19/output-edit-through-struct-value:", err)
		}
	}
}

// TestC19Combined: several edits requested in one mro edit run give what the
// same edits give when they are requested one run after the other (the tool
// applies them in a fixed order: callable renames, input renames, output
// renames, ...).  A rename of a callable - possibly called through an alias -
// is combined with a rename of one of its inputs or outputs under the new
// name.
func TestC19Combined(t *testing.T) {
	root := os.Getenv("VERIF_WORK")
	if root == "" {
		root = os.TempDir()
	}
	path := filepath.Join(root, "c19c.mro")
	rapid.Check(t, func(t *rapid.T) {
		defer skipUnstableGraph()
		prog := mrogen.GenProgram(t, c19Cfg())
		src := prog.Source(nil)
		if _, _, err := callGraphJSON(src, path); err != nil {
			t.Fatalf("GENERATOR: %v\n%s", err, src)
		}
		reach := reachable(prog)
		var names []string
		for n := range reach {
			if n != "PF0" {
				names = append(names, n)
			}
		}
		sort.Strings(names)
		if len(names) == 0 {
			return
		}
		target := rapid.SampledFrom(names).Draw(t, "callable")
		ins, outs, _ := prog.Callable(target)
		newName := target + "_NEW"
		first := refactoring.RefactorConfig{Rename: []refactoring.Rename{{Callable: target, NewName: newName}}}
		var second refactoring.RefactorConfig
		kind := rapid.SampledFrom([]string{"rename-input", "rename-output"}).Draw(t, "second")
		param := ""
		switch kind {
		case "rename-input":
			if len(ins) == 0 {
				return
			}
			param = ins[rapid.IntRange(0, len(ins)-1).Draw(t, "param")].Name
			if inputBoundByWildcard(prog, target, param) {
				stats.Count("C19", "excluded:rename-input-through-wildcard", 1)
				return
			}
			second.RenameInParam = []refactoring.RenameParam{{CallableParam: refactoring.CallableParam{Callable: newName, Param: param}, NewName: param + "_new"}}
		default:
			if len(outs) == 0 {
				return
			}
			if usesStructOfCallable(prog, target) {
				stats.Count("C19", "excluded:output-edit-through-struct-value", 1)
				return
			}
			param = outs[rapid.IntRange(0, len(outs)-1).Draw(t, "param")].Name
			second.RenameOutParam = []refactoring.RenameParam{{CallableParam: refactoring.CallableParam{Callable: newName, Param: param}, NewName: param + "_new"}}
		}
		both := first
		both.RenameInParam, both.RenameOutParam = second.RenameInParam, second.RenameOutParam
		describe := func() string {
			return fmt.Sprintf("rename %s to %s and %s %s.%s in one run\n--- original\n%s", target, newName, kind, newName, param, src)
		}
		step1, _, _, err := applyEditAst(src, path, first)
		if err != nil {
			fail(t, "C19", "edit-failed:rename-callable", "%v\n%s", err, describe())
		}
		twoRuns, _, _, err := applyEditAst(step1, path, second)
		if err != nil {
			fail(t, "C19", "edit-failed:"+kind, "second run: %v\n%s", err, describe())
		}
		j2, ast2, err := callGraphJSON(twoRuns, path)
		if err != nil {
			// (the single edits are TestC19Refactor's business)
			stats.Count("C19", "combined_two_runs_do_not_compile_skipped", 1)
			return
		}
		oneRun, n, _, err := applyEditAst(src, path, both)
		if err != nil {
			fail(t, "C19", "edit-failed:combined", "%v\n%s", err, describe())
		}
		j1, ast1, err := callGraphJSON(oneRun, path)
		if err != nil {
			fail(t, "C19", "edited-does-not-compile:combined", "the edits applied in one run give a program that does not compile: %v\n%s\n--- one run\n%s\n--- two runs\n%s", err, describe(), oneRun, twoRuns)
		}
		if j1 != j2 || !ast1.EquivalentCall(ast2) || !ast2.EquivalentCall(ast1) {
			fail(t, "C19", "combined-differs-from-sequential", "one run and two runs give different programs\n%s\n--- one run\n%s\n--- two runs\n%s", describe(), oneRun, twoRuns)
		}
		aliased := false
		for _, pl := range prog.Pipelines {
			for _, c := range pl.Calls {
				if c.Callee == target && c.Id != c.Callee {
					aliased = true
				}
			}
		}
		classes := []string{"combined", "combined:" + kind}
		if aliased {
			classes = append(classes, "combined:aliased-call")
		}
		stats.Case("C19", n >= 2, stats.Digest("combined", src, target, kind, param), classes, func() any {
			return map[string]any{"kind": "combined edits", "rename": target + " -> " + newName, "second": kind + " " + newName + "." + param, "changes": n}
		})
	})
}
