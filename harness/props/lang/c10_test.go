package lang

import (
	"fmt"
	"os"
	"path/filepath"
	"sort"
	"strings"
	"testing"

	"github.com/martian-lang/martian/martian/syntax"
	"pgregory.net/rapid"

	"verifharness/mrogen"
	"verifharness/refsem"
	"verifharness/stats"
)

func c10Cfg() *mrogen.ProgCfg {
	c := c09Cfg()
	c.Values.MaxLen = 9
	c.Assignable = refsem.Assignable
	return c
}

// artefacts computes everything C10 says must be deterministic for one
// source text.
func artefacts(src string) map[string]string {
	r := map[string]string{}
	out, err := syntax.FormatSrcBytes([]byte(src), "gen.mro", false, nil)
	r["format"] = fmt.Sprintf("%s|%v", out, err)
	combined, _, ast, err := syntax.ParseSourceBytes([]byte(src), "gen.mro", nil, false)
	r["compile-error"] = fmt.Sprint(err)
	r["combined-source"] = combined
	if err == nil && ast != nil && ast.Call != nil {
		g, gerr, p := safeCallGraph(ast)
		if p == nil && gerr != nil {
			// what MakeCallGraph hands back next to an error is whatever had
			// been built when the error was met: only the error is a result
			r["call-graph"] = fmt.Sprintf("error|%v", gerr)
			if stats.Known("C10/nondeterministic:call-graph-error-text") {
				// known finding: which error is reported varies
				r["call-graph"] = "error (text not compared)"
				stats.Count("C10", "excluded_known:call-graph-error-text", 1)
			}
		} else if p == nil {
			j, _ := jsonMarshal(g)
			r["call-graph"] = fmt.Sprintf("%s|%v", j, gerr)
		}
	}
	return r
}


// declErrorKinds are families of declaration-level mistakes; each is applied
// to several distinct names of ONE scope, so that an error list collected by
// ranging over a lookup table (Go map) instead of the declaration list shows
// as a different text on repetition.
var declErrorKinds = []string{"chunk-out-shadows-stage-out", "chunk-in-shadows-stage-in", "duplicate-in-params", "duplicate-out-params",
	"unknown-param-types", "stage-retain-unknown", "duplicate-call-ids", "missing-arguments", "unknown-arguments", "unknown-returns",
	"missing-returns", "duplicate-struct-fields", "unknown-struct-field-types", "unused-pipeline-inputs", "pipeline-retain-unknown",
	"duplicate-callables", "duplicate-bindings"}

func shuffled[T any](t *rapid.T, xs []T, label string) []T {
	out := append([]T{}, xs...)
	for i := len(out) - 1; i > 0; i-- {
		j := rapid.IntRange(0, i).Draw(t, label)
		out[i], out[j] = out[j], out[i]
	}
	return out
}

// injectDeclErrors applies one family; it returns the family and the number
// of instances injected (0: the program has no place for it).
func injectDeclErrors(t *rapid.T, prog *mrogen.Program) (string, int) {
	kind := rapid.SampledFrom(declErrorKinds).Draw(t, "declErrKind")
	k := rapid.IntRange(2, 5).Draw(t, "declErrN")
	intT := mrogen.Ty{Base: "int"}
	names := shuffled(t, []string{"zz_q", "zz_b", "zz_m", "zz_x", "zz_d"}, "nameOrder")[:k]
	pickStage := func(ok func(*mrogen.Stage) bool) *mrogen.Stage {
		var c []*mrogen.Stage
		for _, st := range prog.Stages {
			if ok(st) {
				c = append(c, st)
			}
		}
		if len(c) == 0 {
			return nil
		}
		return c[rapid.IntRange(0, len(c)-1).Draw(t, "declErrStage")]
	}
	pickPipe := func(ok func(*mrogen.Pipeline) bool) *mrogen.Pipeline {
		var c []*mrogen.Pipeline
		for _, pl := range prog.Pipelines {
			if ok(pl) {
				c = append(c, pl)
			}
		}
		if len(c) == 0 {
			return nil
		}
		return c[rapid.IntRange(0, len(c)-1).Draw(t, "declErrPipe")]
	}
	anyStage := func(*mrogen.Stage) bool { return true }
	switch kind {
	case "chunk-out-shadows-stage-out", "chunk-in-shadows-stage-in":
		st := pickStage(anyStage)
		if st == nil {
			return kind, 0
		}
		st.Split = true
		for _, n := range names {
			if kind == "chunk-out-shadows-stage-out" {
				st.Outs = append(st.Outs, mrogen.Param{Name: n, T: intT})
				st.ChunkOuts = append(st.ChunkOuts, mrogen.Param{Name: n, T: intT})
			} else {
				st.Ins = append(st.Ins, mrogen.Param{Name: n, T: intT})
				st.ChunkIns = append(st.ChunkIns, mrogen.Param{Name: n, T: intT})
			}
		}
		if kind == "chunk-in-shadows-stage-in" {
			// every caller would miss the new inputs: bind them
			for _, pl := range prog.Pipelines {
				for _, c := range pl.Calls {
					if c.Callee == st.Name {
						for _, n := range names {
							c.Bindings = append(c.Bindings, mrogen.Binding{Param: n, E: mrogen.Lit{V: nil, T: intT}})
						}
					}
				}
			}
		}
		st.ChunkOuts = shuffled(t, st.ChunkOuts, "chunkOutOrder")
		st.ChunkIns = shuffled(t, st.ChunkIns, "chunkInOrder")
		return kind, k
	case "duplicate-in-params", "duplicate-out-params", "unknown-param-types":
		st := pickStage(anyStage)
		if st == nil {
			return kind, 0
		}
		for i, n := range names {
			switch kind {
			case "duplicate-in-params":
				st.Ins = append(st.Ins, mrogen.Param{Name: n, T: intT}, mrogen.Param{Name: n, T: intT})
			case "duplicate-out-params":
				st.Outs = append(st.Outs, mrogen.Param{Name: n, T: intT}, mrogen.Param{Name: n, T: intT})
			default:
				st.Outs = append(st.Outs, mrogen.Param{Name: n, T: mrogen.Ty{Base: fmt.Sprintf("zzunknown%d", (i*7+3)%10)}})
			}
		}
		return kind, k
	case "stage-retain-unknown":
		st := pickStage(anyStage)
		if st == nil {
			return kind, 0
		}
		st.Retain = append(st.Retain, names...)
		return kind, k
	case "pipeline-retain-unknown":
		pl := pickPipe(func(pl *mrogen.Pipeline) bool { return len(pl.Calls) > 0 })
		if pl == nil {
			return kind, 0
		}
		for _, n := range names {
			pl.Retain = append(pl.Retain, mrogen.Ref{Call: pl.Calls[0].Id, Out: n})
		}
		return kind, k
	case "duplicate-call-ids":
		pl := pickPipe(func(pl *mrogen.Pipeline) bool { return len(pl.Calls) >= 2 })
		if pl == nil {
			return kind, 0
		}
		n := 0
		for _, c := range append([]*mrogen.Call{}, pl.Calls...) {
			if n < k && !c.Preflight {
				cp := *c
				pl.Calls = append(pl.Calls, &cp)
				n++
			}
		}
		return kind, n
	case "missing-arguments", "unknown-arguments", "duplicate-bindings":
		type site struct{ c *mrogen.Call }
		var sites []site
		for _, pl := range prog.Pipelines {
			for _, c := range pl.Calls {
				if len(c.Bindings) >= 2 && !c.WildcardSelf {
					sites = append(sites, site{c})
				}
			}
		}
		if len(sites) == 0 {
			return kind, 0
		}
		c := sites[rapid.IntRange(0, len(sites)-1).Draw(t, "declErrCall")].c
		switch kind {
		case "missing-arguments":
			var keep []mrogen.Binding
			n := 0
			for _, b := range c.Bindings {
				if _, isSplit := b.E.(mrogen.Split); isSplit || n >= k {
					keep = append(keep, b)
				} else {
					n++
				}
			}
			c.Bindings = keep
			return kind, n
		case "unknown-arguments":
			for _, n := range names {
				c.Bindings = append(c.Bindings, mrogen.Binding{Param: n, E: mrogen.Lit{V: nil, T: intT}})
			}
			return kind, k
		default:
			n := 0
			for _, b := range append([]mrogen.Binding{}, c.Bindings...) {
				if n < k {
					c.Bindings = append(c.Bindings, b)
					n++
				}
			}
			return kind, n
		}
	case "unknown-returns", "missing-returns":
		pl := pickPipe(func(pl *mrogen.Pipeline) bool { return len(pl.Ret) >= 2 || kind == "unknown-returns" })
		if pl == nil {
			return kind, 0
		}
		if kind == "unknown-returns" {
			for _, n := range names {
				pl.Ret = append(pl.Ret, mrogen.Binding{Param: n, E: mrogen.Lit{V: nil, T: intT}})
			}
			return kind, k
		}
		n := len(pl.Ret)
		pl.Ret = nil
		return kind, n
	case "duplicate-struct-fields", "unknown-struct-field-types":
		if len(prog.U.Structs) == 0 {
			return kind, 0
		}
		st := prog.U.Structs[rapid.IntRange(0, len(prog.U.Structs)-1).Draw(t, "declErrStruct")]
		for i, n := range names {
			if kind == "duplicate-struct-fields" {
				st.Fields = append(st.Fields, mrogen.Field{Name: n, T: intT}, mrogen.Field{Name: n, T: intT})
			} else {
				st.Fields = append(st.Fields, mrogen.Field{Name: n, T: mrogen.Ty{Base: fmt.Sprintf("zzunknown%d", (i*7+3)%10)}})
			}
		}
		return kind, k
	case "unused-pipeline-inputs":
		pl := pickPipe(func(pl *mrogen.Pipeline) bool { return true })
		if pl == nil {
			return kind, 0
		}
		for _, n := range names {
			pl.Ins = append(pl.Ins, mrogen.Param{Name: n, T: intT})
		}
		for _, opl := range prog.Pipelines {
			for _, oc := range opl.Calls {
				if oc.Callee == pl.Name {
					for _, n := range names {
						oc.Bindings = append(oc.Bindings, mrogen.Binding{Param: n, E: mrogen.Lit{V: nil, T: intT}})
					}
				}
			}
		}
		if prog.Top.Callee == pl.Name {
			for _, n := range names {
				prog.Top.Bindings = append(prog.Top.Bindings, mrogen.Binding{Param: n, E: mrogen.Lit{V: nil, T: intT}})
			}
		}
		return kind, k
	case "duplicate-callables":
		n := 0
		for _, st := range append([]*mrogen.Stage{}, prog.Stages...) {
			if n < k {
				cp := *st
				prog.Stages = append(prog.Stages, &cp)
				n++
			}
		}
		return kind, n
	}
	return kind, 0
}

// TestC10Deterministic: formatted text, compile errors, the include-expanded
// source and the serialized call graph are byte-identical over repetitions.
func TestC10Deterministic(t *testing.T) {
	rapid.Check(t, func(t *rapid.T) {
		prog := mrogen.GenProgram(t, c10Cfg())
		nerr := 0
		if rapid.IntRange(0, 2).Draw(t, "illTyped") == 0 {
			// several independent errors at once
			nerr = rapid.IntRange(2, 4).Draw(t, "nErrors")
			for i := 0; i < nerr; i++ {
				var sites []*mrogen.Call
				for _, pl := range prog.Pipelines {
					for _, c := range pl.Calls {
						if len(c.Bindings) > 0 {
							sites = append(sites, c)
						}
					}
				}
				if len(sites) == 0 {
					break
				}
				c := sites[rapid.IntRange(0, len(sites)-1).Draw(t, "site")]
				b := &c.Bindings[rapid.IntRange(0, len(c.Bindings)-1).Draw(t, "binding")]
				ins, _, _ := prog.Callable(c.Callee)
				if p := mrogen.FindParam(ins, b.Param); p != nil {
					if _, isSplit := b.E.(mrogen.Split); !isSplit {
						b.E, _ = wrongExpr(t, prog.U, p.T)
						// several errors inside one unordered literal
						if el, ok := p.T.Elem(); ok && p.T.IsTypedMap() {
							m := mrogen.MapLit{}
							for _, k := range []string{"kz", "ka", "km", "kb", "kq"} {
								w, _ := wrongExpr(t, prog.U, el)
								m.Keys = append(m.Keys, k)
								m.Vals = append(m.Vals, w)
							}
							b.E = m
						} else if st := prog.U.Struct(p.T.Base); st != nil && p.T.IsScalar() {
							sl := mrogen.StructLit{}
							for _, f := range st.Fields {
								w, _ := wrongExpr(t, prog.U, f.T)
								sl.Fields = append(sl.Fields, f.Name)
								sl.Vals = append(sl.Vals, w)
							}
							for _, x := range []string{"zz_x3", "zz_x1", "zz_x2"} {
								sl.Fields = append(sl.Fields, x)
								sl.Vals = append(sl.Vals, mrogen.Lit{V: nil, T: mrogen.Ty{Base: "int"}})
							}
							b.E = sl
						}
					} else {
						b.Param = fmt.Sprintf("zz_nope%d", i)
					}
				}
			}
		}
		declKind := ""
		if nerr == 0 && rapid.IntRange(0, 2).Draw(t, "declErrors") == 0 {
			// several declaration-level errors in one scope
			declKind, nerr = injectDeclErrors(t, prog)
		}
		if rapid.IntRange(0, 2).Draw(t, "strictLevel") == 0 {
			// the strictest enforcement level reports more (mro check --strict=error)
			syntax.SetEnforcementLevel(syntax.EnforceError)
			defer syntax.SetEnforcementLevel(syntax.EnforceDisable)
		}
		lay := &mrogen.Layout{Pick: func(n int) int { return rapid.IntRange(0, n-1).Draw(t, "lay") }, Comments: rapid.Bool().Draw(t, "comments"),
			ShuffleCalls: rapid.IntRange(0, 2).Draw(t, "shuffleCalls") == 0}
		src := prog.Source(lay)
		first := artefacts(src)
		for rep := 1; rep < 12; rep++ {
			again := artefacts(src)
			for k, v := range first {
				if again[k] != v {
					fail(t, "C10", "nondeterministic:"+k, "%s differs between repetition 0 and %d of the same source:\n%s\n--- source\n%s", k, rep, firstDiff(v, again[k]), src)
				}
			}
		}
		classes := []string{"pure"}
		wide := strings.Count(src, ":") >= 8
		if nerr > 0 && first["compile-error"] != "<nil>" {
			classes = append(classes, "multi-error")
		}
		if _, ok := first["call-graph"]; ok {
			classes = append(classes, "call-graph")
		}
		if declKind != "" && nerr > 0 {
			classes = append(classes, "decl-errors:"+declKind)
			if first["compile-error"] == "<nil>" {
				classes = append(classes, "decl-errors-accepted:"+declKind)
			}
		}
		stats.Case("C10", wide || nerr >= 2, stats.Digest(src), classes, func() any {
			return map[string]any{"kind": "pure", "errors_injected": nerr, "compile_error": stats.Trunc(first["compile-error"], 400), "source": stats.Trunc(src, 600)}
		})
	})
}

// TestC10FixIncludes: formatting with include fixing (mro format --includes)
// of the same files gives the same bytes.  The declarations of a generated
// program are spread over files in one directory - a types file, one file
// per stage, names that do or do not contain the name of the main file - and
// the main file (pipelines and call) lists none, some or all of the
// includes it needs; a few calls may name stages no file declares (several
// "could not find" errors at once).
func TestC10FixIncludes(t *testing.T) {
	root := os.Getenv("VERIF_WORK")
	if root == "" {
		root = os.TempDir()
	}
	root = filepath.Join(root, fmt.Sprintf("c10inc-%d", os.Getpid()))
	os.MkdirAll(root, 0o755)
	defer os.RemoveAll(root)
	n := 0
	rapid.Check(t, func(t *rapid.T) {
		n++
		dir := filepath.Join(root, fmt.Sprintf("f%d", n))
		os.MkdirAll(dir, 0o755)
		defer os.RemoveAll(dir)
		prog := mrogen.GenProgram(t, c10Cfg())
		base := rapid.SampledFrom([]string{"align", "x", "pipe", "main"}).Draw(t, "base")
		typesFile := rapid.SampledFrom([]string{base + "_types.mro", "types.mro", "_" + base + ".mro"}).Draw(t, "typesFile")
		write := func(name, text string) {
			if err := os.WriteFile(filepath.Join(dir, name), []byte(text), 0o644); err != nil {
				t.Fatalf("INFRA: %v", err)
			}
		}
		write(typesFile, prog.U.Decls())
		var stageFiles []string
		for i, st := range prog.Stages {
			var name string
			switch rapid.IntRange(0, 3).Draw(t, "stageFileName") {
			case 0:
				name = fmt.Sprintf("%s_%s.mro", base, strings.ToLower(st.Name))
			case 1:
				name = fmt.Sprintf("%s.mro", strings.ToLower(st.Name))
			case 2:
				name = fmt.Sprintf("s%d_%s.mro", i, base)
			default:
				name = fmt.Sprintf("%s%d.mro", base, i)
			}
			stageFiles = append(stageFiles, name)
			write(name, fmt.Sprintf("@include %q\n\n%s", typesFile, prog.StageText(st, nil)))
		}
		missing := rapid.IntRange(0, 3).Draw(t, "missingCallables")
		if rapid.IntRange(0, 2).Draw(t, "noMissing") != 0 {
			missing = 0
		}
		for i := 0; i < missing && len(prog.Pipelines) > 0; i++ {
			pl := prog.Pipelines[rapid.IntRange(0, len(prog.Pipelines)-1).Draw(t, "missingIn")]
			name := []string{"ZZ_GONE_B", "ZZ_GONE_A", "ZZ_GONE_C"}[i]
			pl.Calls = append(pl.Calls, &mrogen.Call{Id: name, Callee: name, Bindings: []mrogen.Binding{{Param: "p", E: mrogen.Lit{V: nil, T: mrogen.Ty{Base: "int"}}}}})
		}
		var main strings.Builder
		listed := 0
		for _, f := range shuffled(t, append([]string{typesFile}, stageFiles...), "incOrder") {
			if rapid.IntRange(0, 2).Draw(t, "listed") == 0 {
				fmt.Fprintf(&main, "@include %q\n", f)
				listed++
			}
		}
		main.WriteString(prog.PipelinesAndCallText(nil))
		mainPath := filepath.Join(dir, base+".mro")
		write(base+".mro", main.String())
		run := func() string {
			var parser syntax.Parser
			out, err := parser.FormatSrcBytes([]byte(main.String()), mainPath, true, []string{dir})
			return fmt.Sprintf("%s|%v", out, err)
		}
		first := run()
		for rep := 1; rep < 12; rep++ {
			if again := run(); again != first {
				fail(t, "C10", "nondeterministic:format-fix-includes", "formatting %s with include fixing differs between repetition 0 and %d:\n%s\n--- files: types %s, stages %v, %d includes listed, %d undeclared callables\n--- main file\n%s",
					base+".mro", rep, firstDiff(first, again), typesFile, stageFiles, listed, missing, main.String())
			}
		}
		classes := []string{"fix-includes"}
		if missing >= 2 {
			classes = append(classes, "fix-includes:several-undeclared")
		}
		if len(stageFiles)+1-listed >= 2 {
			classes = append(classes, "fix-includes:several-added")
		}
		stats.Case("C10", len(stageFiles)+1-listed >= 2 || missing >= 2, stats.Digest(first, main.String()), classes, func() any {
			return map[string]any{"kind": "format with include fixing", "main": base + ".mro", "files": append([]string{typesFile}, stageFiles...), "includes_listed": listed, "undeclared_callables": missing,
				"result": stats.Trunc(first, 400)}
		})
	})
}

// Reproducer of C10/nondeterministic:call-graph-error-text: a saved program
// that compiles, whose call graph cannot be resolved, and for which
// MakeCallGraph reports one of two unrelated errors from one repetition to
// the next.
func TestKnownC10CallGraphErrorText(t *testing.T) {
	b, err := os.ReadFile("testdata/known/c10_callgraph_error.mro")
	if err != nil {
		dir := os.Getenv("VERIF_DIR")
		b, err = os.ReadFile(dir + "/harness/props/lang/testdata/known/c10_callgraph_error.mro")
	}
	if err != nil {
		t.Fatalf("INFRA: %v", err)
	}
	texts := map[string]int{}
	for i := 0; i < 400; i++ {
		_, _, ast, err := syntax.ParseSourceBytes(b, "gen.mro", nil, false)
		if err != nil || ast == nil || ast.Call == nil {
			t.Fatalf("INFRA: the saved program does not compile: %v", err)
		}
		_, gerr, p := safeCallGraph(ast)
		texts[fmt.Sprintf("%v|%v", gerr, p)]++
	}
	if len(texts) > 1 {
		var heads []string
		for k, n := range texts {
			heads = append(heads, fmt.Sprintf("%dx %q", n, stats.Trunc(k, 90)))
		}
		sort.Strings(heads)
		fmt.Printf("KNOWN-PRESENT C10/nondeterministic:call-graph-error-text: %d different results in 400 repetitions: %s\n", len(texts), strings.Join(heads, " ; "))
	}
}
