package lang

import (
	"fmt"
	"strings"
	"testing"

	"github.com/martian-lang/martian/martian/syntax"
	"pgregory.net/rapid"

	"verifharness/mrogen"
	"verifharness/refsem"
	"verifharness/stats"
)

func c10Cfg() *mrogen.ProgCfg {
	c := c09Cfg()
	c.Values.MaxLen = 9
	c.Assignable = refsem.Assignable
	return c
}

// artefacts computes everything C10 says must be deterministic for one
// source text.
func artefacts(src string) map[string]string {
	r := map[string]string{}
	out, err := syntax.FormatSrcBytes([]byte(src), "gen.mro", false, nil)
	r["format"] = fmt.Sprintf("%s|%v", out, err)
	combined, _, ast, err := syntax.ParseSourceBytes([]byte(src), "gen.mro", nil, false)
	r["compile-error"] = fmt.Sprint(err)
	r["combined-source"] = combined
	if err == nil && ast != nil && ast.Call != nil {
		g, gerr, p := safeCallGraph(ast)
		if p == nil {
			j, _ := jsonMarshal(g)
			r["call-graph"] = fmt.Sprintf("%s|%v", j, gerr)
		}
	}
	return r
}

// TestC10Deterministic: formatted text, compile errors, the include-expanded
// source and the serialized call graph are byte-identical over repetitions.
func TestC10Deterministic(t *testing.T) {
	rapid.Check(t, func(t *rapid.T) {
		prog := mrogen.GenProgram(t, c10Cfg())
		nerr := 0
		if rapid.IntRange(0, 2).Draw(t, "illTyped") == 0 {
			// several independent errors at once
			nerr = rapid.IntRange(2, 4).Draw(t, "nErrors")
			for i := 0; i < nerr; i++ {
				var sites []*mrogen.Call
				for _, pl := range prog.Pipelines {
					for _, c := range pl.Calls {
						if len(c.Bindings) > 0 {
							sites = append(sites, c)
						}
					}
				}
				if len(sites) == 0 {
					break
				}
				c := sites[rapid.IntRange(0, len(sites)-1).Draw(t, "site")]
				b := &c.Bindings[rapid.IntRange(0, len(c.Bindings)-1).Draw(t, "binding")]
				ins, _, _ := prog.Callable(c.Callee)
				if p := mrogen.FindParam(ins, b.Param); p != nil {
					if _, isSplit := b.E.(mrogen.Split); !isSplit {
						b.E, _ = wrongExpr(t, prog.U, p.T)
						// several errors inside one unordered literal
						if el, ok := p.T.Elem(); ok && p.T.IsTypedMap() {
							m := mrogen.MapLit{}
							for _, k := range []string{"kz", "ka", "km", "kb", "kq"} {
								w, _ := wrongExpr(t, prog.U, el)
								m.Keys = append(m.Keys, k)
								m.Vals = append(m.Vals, w)
							}
							b.E = m
						} else if st := prog.U.Struct(p.T.Base); st != nil && p.T.IsScalar() {
							sl := mrogen.StructLit{}
							for _, f := range st.Fields {
								w, _ := wrongExpr(t, prog.U, f.T)
								sl.Fields = append(sl.Fields, f.Name)
								sl.Vals = append(sl.Vals, w)
							}
							for _, x := range []string{"zz_x3", "zz_x1", "zz_x2"} {
								sl.Fields = append(sl.Fields, x)
								sl.Vals = append(sl.Vals, mrogen.Lit{V: nil, T: mrogen.Ty{Base: "int"}})
							}
							b.E = sl
						}
					} else {
						b.Param = fmt.Sprintf("zz_nope%d", i)
					}
				}
			}
		}
		lay := &mrogen.Layout{Pick: func(n int) int { return rapid.IntRange(0, n-1).Draw(t, "lay") }, Comments: rapid.Bool().Draw(t, "comments")}
		src := prog.Source(lay)
		first := artefacts(src)
		for rep := 1; rep < 12; rep++ {
			again := artefacts(src)
			for k, v := range first {
				if again[k] != v {
					fail(t, "C10", "nondeterministic:"+k, "%s differs between repetition 0 and %d of the same source:\n%s\n--- source\n%s", k, rep, firstDiff(v, again[k]), src)
				}
			}
		}
		classes := []string{"pure"}
		wide := strings.Count(src, ":") >= 8
		if nerr > 0 && first["compile-error"] != "<nil>" {
			classes = append(classes, "multi-error")
		}
		if _, ok := first["call-graph"]; ok {
			classes = append(classes, "call-graph")
		}
		stats.Case("C10", wide || nerr >= 2, stats.Digest(src), classes, func() any {
			return map[string]any{"kind": "pure", "errors_injected": nerr, "compile_error": stats.Trunc(first["compile-error"], 400), "source": stats.Trunc(src, 600)}
		})
	})
}
