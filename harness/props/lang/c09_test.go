package lang

import (
	"fmt"
	"math"
	"os"
	"path/filepath"
	"reflect"
	"regexp"
	"sort"
	"strings"
	"testing"

	"github.com/martian-lang/martian/martian/syntax"
	"pgregory.net/rapid"

	"verifharness/mrogen"
	"verifharness/refsem"
	"verifharness/stats"
)

func c09Cfg() *mrogen.ProgCfg {
	return &mrogen.ProgCfg{MaxStages: 4, MaxPipelines: 3, MaxCalls: 4, MapCalls: true, Disabled: true, SplitStage: true,
		Preflight: true, NoFiles: false, Decorate: true, Wildcards: true, Assignable: refsem.Assignable,
		Values: mrogen.ValueCfg{NullPct: 5, PlainStrings: false, SafeKeys: false, PlainNumbers: false,
			NoLongDigitFloats: true}}
}

// astDump renders an AST value canonically, ignoring source locations and
// comment attachment; calls of a pipeline are listed sorted by id (the
// formatter may reorder them into dependency order).
func astDump(v any) string {
	var b strings.Builder
	seen := map[uintptr]bool{}
	var rec func(v reflect.Value, depth int)
	rec = func(v reflect.Value, depth int) {
		if depth > 60 {
			b.WriteString("<deep>")
			return
		}
		switch v.Kind() {
		case reflect.Ptr, reflect.Interface:
			if v.IsNil() {
				b.WriteString("nil")
				return
			}
			if v.Kind() == reflect.Ptr {
				if seen[v.Pointer()] {
					fmt.Fprintf(&b, "<ref %s>", v.Type())
					return
				}
				seen[v.Pointer()] = true
				defer delete(seen, v.Pointer())
			}
			rec(v.Elem(), depth+1)
		case reflect.Struct:
			t := v.Type()
			if t.Name() == "AstNode" || t.Name() == "SourceLoc" || t.Name() == "SourceFile" {
				return
			}
			// an integral float literal and the integer literal denote the
			// same value (the formatter prints 1e2 as 100)
			if t.Name() == "FloatExp" || t.Name() == "IntExp" {
				f := v.FieldByName("Value")
				if f.Kind() == reflect.Float64 {
					if x := f.Float(); x == math.Trunc(x) && math.Abs(x) < 1e18 {
						fmt.Fprintf(&b, "num(%d)", int64(x))
					} else {
						fmt.Fprintf(&b, "num(f%x)", math.Float64bits(x))
					}
				} else {
					fmt.Fprintf(&b, "num(%d)", f.Int())
				}
				return
			}
			// old-style modifier keywords and using(...) bindings are two
			// spellings; the compiled comparison below covers modifiers.
			if t.Name() == "Modifiers" {
				return
			}
			fmt.Fprintf(&b, "%s{", t.Name())
			for i := 0; i < v.NumField(); i++ {
				f := t.Field(i)
				switch f.Name {
				case "Node", "Loc", "Comments", "scopeComments", "comments", "Files", "Includes", "Callables",
					"ThreadNode", "MemNode", "VMemNode", "SpecialNode", "VolatileNode", "Table", "TypeTable", "Errors",
					"intern", "cmd", "Source", "Call", "Mapping", "isComplex", "isFile", "Forks", "CachedId":
					continue
				}
				fmt.Fprintf(&b, "%s:", f.Name)
				fv := v.Field(i)
				if f.Name == "Calls" && fv.Kind() == reflect.Slice {
					// order-insensitive
					var items []string
					for j := 0; j < fv.Len(); j++ {
						var sb strings.Builder
						old := b
						b = sb
						rec(fv.Index(j), depth+1)
						items = append(items, b.String())
						b = old
					}
					sort.Strings(items)
					b.WriteString("[" + strings.Join(items, ";") + "]")
				} else {
					rec(fv, depth+1)
				}
				b.WriteString(",")
			}
			b.WriteString("}")
		case reflect.Slice, reflect.Array:
			b.WriteString("[")
			for i := 0; i < v.Len(); i++ {
				rec(v.Index(i), depth+1)
				b.WriteString(";")
			}
			b.WriteString("]")
		case reflect.Map:
			keys := v.MapKeys()
			sort.Slice(keys, func(i, j int) bool { return fmt.Sprint(keys[i]) < fmt.Sprint(keys[j]) })
			b.WriteString("map{")
			for _, k := range keys {
				fmt.Fprintf(&b, "%q=", fmt.Sprint(k))
				rec(v.MapIndex(k), depth+1)
				b.WriteString(";")
			}
			b.WriteString("}")
		case reflect.Float32, reflect.Float64:
			fmt.Fprintf(&b, "f%x", math.Float64bits(v.Float()))
		case reflect.String:
			fmt.Fprintf(&b, "%q", v.String())
		case reflect.Bool:
			fmt.Fprintf(&b, "%v", v.Bool())
		case reflect.Int, reflect.Int8, reflect.Int16, reflect.Int32, reflect.Int64:
			fmt.Fprintf(&b, "%d", v.Int())
		case reflect.Uint, reflect.Uint8, reflect.Uint16, reflect.Uint32, reflect.Uint64:
			fmt.Fprintf(&b, "%d", v.Uint())
		default:
			fmt.Fprintf(&b, "<%s>", v.Kind())
		}
	}
	rec(reflect.ValueOf(v), 0)
	return b.String()
}

var graphCommentsRe = regexp.MustCompile(`"comments":\[("(\\.|[^"\\])*",?)*\],`)

var commentRe = regexp.MustCompile(`(?m)^[ \t]*#[^\n]*$`)

func commentBag(src string) map[string]int {
	m := map[string]int{}
	for _, c := range commentRe.FindAllString(src, -1) {
		m[strings.TrimSpace(c)]++
	}
	return m
}

// commentBagLex is commentBag for arbitrary accepted text: a '#' that opens a
// line counts only outside string literals (the tokenizer lets a literal run
// over a line end, and the rest of it may look like a comment line).
func commentBagLex(src string) map[string]int {
	m := map[string]int{}
	inStr, lineStart := false, true
	for i := 0; i < len(src); i++ {
		c := src[i]
		switch {
		case inStr:
			if c == '\\' && i+1 < len(src) {
				i++
			} else if c == '"' {
				inStr = false
			}
			lineStart = false
		case c == '"':
			inStr, lineStart = true, false
		case c == '\n':
			lineStart = true
		case c == ' ' || c == '\t' || c == '\r':
		case c == '#':
			j := strings.IndexByte(src[i:], '\n')
			if j < 0 {
				j = len(src) - i
			}
			if lineStart {
				m[strings.TrimSpace(src[i:i+j])]++
			}
			i += j - 1
			lineStart = false
		default:
			lineStart = false
		}
	}
	return m
}

func firstDiff(a, b string) string {
	n := len(a)
	if len(b) < n {
		n = len(b)
	}
	i := 0
	for i < n && a[i] == b[i] {
		i++
	}
	lo := i - 80
	if lo < 0 {
		lo = 0
	}
	ha, hb := i+120, i+120
	if ha > len(a) {
		ha = len(a)
	}
	if hb > len(b) {
		hb = len(b)
	}
	return fmt.Sprintf("...%s\n   vs\n...%s", a[lo:ha], b[lo:hb])
}

// TestC09Format: formatting is accepted, preserves the program, keeps
// comments, and is a fixed point.
func TestC09Format(t *testing.T) {
	rapid.Check(t, func(t *rapid.T) {
		prog := mrogen.GenProgram(t, c09Cfg())
		lay := &mrogen.Layout{
			Pick:         func(n int) int { return rapid.IntRange(0, n-1).Draw(t, "lay") },
			Comments:     rapid.Bool().Draw(t, "comments"),
			OldModifiers: rapid.IntRange(0, 3).Draw(t, "oldMods") == 0,
			Dangling:     rapid.IntRange(0, 3).Draw(t, "dangling") == 0,
			ShuffleCalls: rapid.IntRange(0, 2).Draw(t, "shuffleCalls") == 0,
		}
		if lay.OldModifiers && lay.Comments && stats.Known("C09/comment-duplicated-with-old-style-modifiers") {
			lay.OldModifiers = false
			stats.Count("C09", "excluded_known_old_modifiers_with_comments", 1)
		}
		src, ncomments, ndangling := prog.SourceStats(lay)
		var parser syntax.Parser
		ast0, err := parser.UncheckedParse([]byte(src), "gen.mro")
		if err != nil {
			t.Fatalf("GENERATOR: printed program does not parse: %v\n%s", err, src)
		}
		out, err := syntax.FormatSrcBytes([]byte(src), "gen.mro", false, nil)
		if err != nil {
			fail(t, "C09", "format-error", "FormatSrcBytes failed on accepted source: %v\n%s", err, src)
		}
		ast1, err := parser.UncheckedParse([]byte(out), "gen.mro")
		if err != nil {
			fail(t, "C09", "formatted-not-accepted", "the formatter's output is rejected by the parser: %v\n--- input\n%s\n--- output\n%s", err, src, out)
		}
		if d0, d1 := astDump(ast0), astDump(ast1); d0 != d1 {
			fail(t, "C09", "program-changed", "the formatted text denotes a different program:\n%s\n--- input\n%s\n--- output\n%s", firstDiff(d0, d1), src, out)
		}
		// comments
		in, outBag := commentBag(src), commentBag(out)
		for c, n := range in {
			if outBag[c] < n {
				fail(t, "C09", "comment-lost", "comment %q appears %d times in the input but %d times in the output\n--- input\n%s\n--- output\n%s", c, n, outBag[c], src, out)
			}
			if ndangling == 0 && outBag[c] != n {
				fail(t, "C09", "comment-duplicated", "comment %q appears %d times in the input but %d times in the output (no dangling comments)\n--- input\n%s\n--- output\n%s", c, n, outBag[c], src, out)
			}
		}
		// fixed point
		if ndangling == 0 {
			out2, err := syntax.FormatSrcBytes([]byte(out), "gen.mro", false, nil)
			if err != nil {
				fail(t, "C09", "formatted-not-accepted", "formatting the formatted text failed: %v\n%s", err, out)
			}
			if out2 != out {
				fail(t, "C09", "not-a-fixed-point", "Format(Format(s)) != Format(s):\n%s\n--- input\n%s", firstDiff(out, out2), src)
			}
		}
		// compiled view: same call graph
		if _, _, c0, err := syntax.ParseSourceBytes([]byte(src), "gen.mro", nil, false); err == nil {
			_, _, c1, err := syntax.ParseSourceBytes([]byte(out), "gen.mro", nil, false)
			if err != nil {
				fail(t, "C09", "formatted-does-not-compile", "the input compiles, the formatted text does not: %v\n--- input\n%s\n--- output\n%s", err, src, out)
			}
			if !c0.EquivalentCall(c1) || !c1.EquivalentCall(c0) {
				fail(t, "C09", "formatted-not-equivalent", "EquivalentCall is false between the input and its formatted text\n--- input\n%s\n--- output\n%s", src, out)
			}
			g0, e0, p0 := safeCallGraph(c0)
			g1, e1, p1 := safeCallGraph(c1)
			if p0 != nil || p1 != nil {
				// call-graph resolution itself crashes on this program
				// (map-call defects recorded under C01): nothing to compare.
				stats.Count("C09", "callgraph_panic_skipped", 1)
			} else if (e0 == nil) != (e1 == nil) {
				fail(t, "C09", "formatted-call-graph-differs", "call graph resolution: %v vs %v\n--- input\n%s\n--- output\n%s", e0, e1, src, out)
			}
			if e0 == nil && p0 == nil && p1 == nil {
				j0, _ := jsonMarshal(g0)
				j1, _ := jsonMarshal(g1)
				// (which node a comment is attached to is not part of the
				// program: the formatter may move one written between a
				// keyword and its operand in front of the statement)
				j0, j1 = graphCommentsRe.ReplaceAllString(j0, ""), graphCommentsRe.ReplaceAllString(j1, "")
				if j0 != j1 {
					fail(t, "C09", "formatted-call-graph-differs", "the resolved call graph differs:\n%s\n--- input\n%s\n--- output\n%s", firstDiff(j0, j1), src, out)
				}
			}
		} else {
			stats.Count("C09", "input_parses_but_does_not_compile", 1)
		}
		classes := []string{"format"}
		if ncomments > 0 {
			classes = append(classes, "comments")
		}
		if ndangling > 0 {
			classes = append(classes, "dangling")
		}
		if lay.OldModifiers {
			classes = append(classes, "old-modifiers")
		}
		stats.Case("C09", ncomments > 0 || strings.ContainsAny(src, "\\") || strings.Contains(src, "e+") || strings.Contains(src, "using"),
			stats.Digest(src), classes, func() any {
				return map[string]any{"kind": "format", "comments": ncomments, "dangling": ndangling, "input": stats.Trunc(src, 1200)}
			})
	})
}

var c09Seq int

// TestC09IncludeExpanded: the include-expanded single-file rendering that
// ParseSourceBytes returns (mrp records it as _mrosource) compiles on its
// own to an equivalent program.
func TestC09IncludeExpanded(t *testing.T) {
	root := filepath.Join(os.TempDir(), fmt.Sprintf("verif-c09-%d", os.Getpid()))
	if w := os.Getenv("VERIF_WORK"); w != "" {
		root = w
	}
	rapid.Check(t, func(t *rapid.T) {
		c09Seq++
		dir := filepath.Join(root, fmt.Sprintf("inc%d", c09Seq))
		defer os.RemoveAll(dir)
		cfg := c09Cfg()
		prog := mrogen.GenProgram(t, cfg)
		lay := &mrogen.Layout{
			Pick:     func(n int) int { return rapid.IntRange(0, n-1).Draw(t, "lay") },
			Comments: rapid.Bool().Draw(t, "comments"),
		}
		files := prog.SourceFiles(lay)
		for name, content := range files {
			p := filepath.Join(dir, name)
			os.MkdirAll(filepath.Dir(p), 0o755)
			if err := os.WriteFile(p, []byte(content), 0o644); err != nil {
				t.Fatalf("INFRA: %v", err)
			}
		}
		mainPath := filepath.Join(dir, "main.mro")
		combined, _, ast0, err := syntax.ParseSourceBytes([]byte(files["main.mro"]), mainPath, []string{dir}, false)
		if err != nil {
			t.Fatalf("GENERATOR: multi-file program does not compile: %v\n%v", err, files)
		}
		_, _, ast1, err := syntax.ParseSourceBytes([]byte(combined), filepath.Join(dir, "_mrosource"), nil, false)
		if err != nil {
			fail(t, "C09", "include-expanded-does-not-compile", "the include-expanded rendering does not compile on its own: %v\n--- rendering\n%s\n--- files\n%v", err, combined, files)
		}
		if !ast0.EquivalentCall(ast1) || !ast1.EquivalentCall(ast0) {
			fail(t, "C09", "include-expanded-not-equivalent", "the include-expanded rendering is not equivalent to the multi-file program\n--- rendering\n%s", combined)
		}
		g0, e0, p0 := safeCallGraph(ast0)
		g1, e1, p1 := safeCallGraph(ast1)
		if p0 != nil || p1 != nil {
			stats.Count("C09", "callgraph_panic_skipped", 1)
			e0, e1 = fmt.Errorf("panic"), fmt.Errorf("panic")
		}
		if (e0 == nil) != (e1 == nil) {
			fail(t, "C09", "include-expanded-call-graph-differs", "call graph errors differ: %v vs %v\n%s", e0, e1, combined)
		}
		if e0 == nil {
			j0, _ := jsonMarshal(g0)
			j1, _ := jsonMarshal(g1)
			if j0 != j1 {
				fail(t, "C09", "include-expanded-call-graph-differs", "call graph JSON differs:\n%s\n--- rendering\n%s", firstDiff(j0, j1), combined)
			}
		}
		stats.Case("C09", true, stats.Digest("inc", combined), []string{"include-expanded"}, func() any {
			return map[string]any{"kind": "include-expanded", "files": []string{"main.mro", "pipes.mro", "sub/types.mro"}, "rendering": stats.Trunc(combined, 800)}
		})
	})
}

// safeCallGraph resolves the call graph, reporting a panic instead of
// propagating it.
func safeCallGraph(ast *syntax.Ast) (g syntax.CallGraphNode, err error, panicked any) {
	defer func() {
		if p := recover(); p != nil {
			panicked = p
		}
	}()
	g, err = ast.MakeCallGraph("", ast.Call)
	return g, err, nil
}
