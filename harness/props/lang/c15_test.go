package lang

import (
	"encoding/json"
	"fmt"
	"os"
	"path/filepath"
	"strings"
	"testing"

	"github.com/martian-lang/martian/martian/syntax"
	"pgregory.net/rapid"

	"verifharness/jsonx"
	"verifharness/mrogen"
	"verifharness/refsem"
	"verifharness/stats"
)

func c15Cfg() *mrogen.ProgCfg {
	return &mrogen.ProgCfg{MaxStages: 4, MaxPipelines: 4, MaxCalls: 4, MapCalls: true, Disabled: true, SplitStage: true,
		Preflight: true, NoFiles: false, Wildcards: true, Assignable: refsem.Assignable,
		Values: mrogen.ValueCfg{NullPct: 5, PlainStrings: true, SafeKeys: true, PlainNumbers: true}}
}

// reachable returns the callables in the transitive closure of the
// top-level call, with their nesting depth.
func reachable(prog *mrogen.Program) map[string]int {
	depth := map[string]int{prog.Top.Callee: 0}
	queue := []string{prog.Top.Callee}
	for len(queue) > 0 {
		n := queue[0]
		queue = queue[1:]
		if pl := prog.Pipeline(n); pl != nil {
			for _, c := range pl.Calls {
				if _, ok := depth[c.Callee]; !ok {
					depth[c.Callee] = depth[n] + 1
					queue = append(queue, c.Callee)
				}
			}
		}
	}
	return depth
}

// exprLits collects pointers to every literal inside an expression.
func exprLits(e *mrogen.Expr, out *[]*mrogen.Expr) {
	switch x := (*e).(type) {
	case mrogen.Lit:
		*out = append(*out, e)
	case mrogen.Split:
		inner := x.E
		var sub []*mrogen.Expr
		exprLits(&inner, &sub)
		_ = sub // literals below a split are edited through a copy below
	case mrogen.ArrayLit:
		for i := range x.Elems {
			exprLits(&x.Elems[i], out)
		}
	case mrogen.MapLit:
		for i := range x.Vals {
			exprLits(&x.Vals[i], out)
		}
	case mrogen.StructLit:
		for i := range x.Vals {
			exprLits(&x.Vals[i], out)
		}
	}
}

// differentValue returns a value of the same type that differs from v.
func differentValue(t *rapid.T, u *mrogen.Universe, ty mrogen.Ty, v any) (any, bool) {
	vc := &mrogen.ValueCfg{PlainStrings: true, SafeKeys: true, PlainNumbers: true}
	for i := 0; i < 8; i++ {
		nv := u.GenValue(t, ty, vc)
		if !jsonx.Equal(v, nv, true) {
			return nv, true
		}
	}
	if v != nil {
		return nil, true
	}
	return nil, false
}

func renameRefs(e mrogen.Expr, from, to string) mrogen.Expr {
	switch x := e.(type) {
	case mrogen.Ref:
		if x.Call == from {
			x.Call = to
		}
		return x
	case mrogen.Split:
		return mrogen.Split{E: renameRefs(x.E, from, to)}
	case mrogen.ArrayLit:
		for i := range x.Elems {
			x.Elems[i] = renameRefs(x.Elems[i], from, to)
		}
		return x
	case mrogen.MapLit:
		for i := range x.Vals {
			x.Vals[i] = renameRefs(x.Vals[i], from, to)
		}
		return x
	case mrogen.StructLit:
		for i := range x.Vals {
			x.Vals[i] = renameRefs(x.Vals[i], from, to)
		}
		return x
	}
	return e
}

// semanticEdit applies one meaning-changing edit inside the closure of the
// top-level call.  Returns the edit kind, its depth, or "" if none applied.
func semanticEdit(t *rapid.T, prog *mrogen.Program) (string, int) {
	reach := reachable(prog)
	type callSite struct {
		pl *mrogen.Pipeline
		c  *mrogen.Call
		d  int
	}
	var sites []callSite
	var pls []*mrogen.Pipeline
	for _, pl := range prog.Pipelines {
		d, ok := reach[pl.Name]
		if !ok {
			continue
		}
		pls = append(pls, pl)
		for _, c := range pl.Calls {
			sites = append(sites, callSite{pl, c, d + 1})
		}
	}
	var stages []*mrogen.Stage
	for _, s := range prog.Stages {
		if _, ok := reach[s.Name]; ok && s.Name != "PF0" {
			stages = append(stages, s)
		}
	}
	kind := rapid.SampledFrom([]string{"literal", "literal", "alias", "rename-stage-input", "retype-stage-input", "add-stage-input",
		"toggle-split", "drop-disabled", "add-disabled", "repoint-disabled", "swap-bindings", "swap-returns", "top-literal", "rename-stage-output-unused", "repoint-wildcard", "repoint-wildcard", "repoint-member", "repoint-member"}).Draw(t, "edit")
	switch kind {
	case "repoint-member":
		// self.cfg.alpha becomes self.cfg.beta (a sibling member of the
		// same type), likewise CALL.out.alpha: the same source, another part
		// of it - in a call binding or in a return binding
		type slot struct {
			e *mrogen.Expr
			d int
			t mrogen.Ty // type of the source the path starts from
		}
		var slots []slot
		srcType := func(pl *mrogen.Pipeline, r mrogen.Ref) (mrogen.Ty, bool) {
			if r.Call == "" {
				if in := mrogen.FindParam(pl.Ins, r.Out); in != nil {
					return in.T, true
				}
				return mrogen.Ty{}, false
			}
			for _, c := range pl.Calls {
				if c.Id == r.Call && !c.Mapped {
					_, outs, _ := prog.Callable(c.Callee)
					if o := mrogen.FindParam(outs, r.Out); o != nil {
						return o.T, true
					}
				}
			}
			return mrogen.Ty{}, false
		}
		for _, pl := range pls {
			add := func(e *mrogen.Expr, d int) {
				if r, ok := (*e).(mrogen.Ref); ok && len(r.Path) > 0 && r.Out != "" {
					if st, ok := srcType(pl, r); ok {
						slots = append(slots, slot{e, d, st})
					}
				}
			}
			for _, c := range pl.Calls {
				if c.WildcardFrom != nil || c.WildcardSelf {
					continue
				}
				for i := range c.Bindings {
					add(&c.Bindings[i].E, reach[pl.Name]+1)
				}
			}
			for i := range pl.Ret {
				add(&pl.Ret[i].E, reach[pl.Name])
			}
		}
		for _, k := range rapid.Permutation(slots).Draw(t, "memberSlots") {
			r := (*k.e).(mrogen.Ref)
			cur := k.t
			ok := true
			var last *mrogen.Struct
			var lastField mrogen.Field
			for _, m := range r.Path {
				st := prog.U.Struct(cur.Base)
				if st == nil {
					ok = false
					break
				}
				found := false
				for _, f := range st.Fields {
					if f.Name == m {
						last, lastField, cur, found = st, f, f.T, true
					}
				}
				if !found {
					ok = false
					break
				}
			}
			if !ok || last == nil {
				continue
			}
			var sib []string
			for _, f := range last.Fields {
				if f.Name != lastField.Name && f.T == lastField.T {
					sib = append(sib, f.Name)
				}
			}
			if len(sib) == 0 {
				continue
			}
			np := append([]string{}, r.Path...)
			np[len(np)-1] = sib[rapid.IntRange(0, len(sib)-1).Draw(t, "sibling")]
			r.Path = np
			*k.e = r
			return kind, k.d
		}
		return "", 0
	case "repoint-wildcard":
		// "* = self.w1" becomes "* = self.w2" (another input of the same
		// struct type): every argument of the call now comes from elsewhere
		var cand []callSite
		for _, s := range sites {
			if s.c.WildcardFrom != nil && s.c.WildcardFrom.Call == "" && len(s.c.WildcardFrom.Path) == 0 {
				cand = append(cand, s)
			}
		}
		if len(cand) == 0 {
			return "", 0
		}
		s := cand[rapid.IntRange(0, len(cand)-1).Draw(t, "site")]
		from := s.c.WildcardFrom.Out
		var fromT mrogen.Ty
		for _, in := range s.pl.Ins {
			if in.Name == from {
				fromT = in.T
			}
		}
		var others []string
		for _, in := range s.pl.Ins {
			if in.Name != from && in.T == fromT {
				others = append(others, in.Name)
			}
		}
		if len(others) == 0 {
			return "", 0
		}
		to := others[rapid.IntRange(0, len(others)-1).Draw(t, "wildcardTo")]
		for i := range s.c.Bindings {
			if r, ok := s.c.Bindings[i].E.(mrogen.Ref); ok && r.Call == "" && r.Out == from {
				r.Out = to
				s.c.Bindings[i].E = r
			}
		}
		w := *s.c.WildcardFrom
		w.Out = to
		s.c.WildcardFrom = &w
		return kind, s.d
	case "top-literal":
		if len(prog.Top.Bindings) == 0 {
			return "", 0
		}
		b := &prog.Top.Bindings[rapid.IntRange(0, len(prog.Top.Bindings)-1).Draw(t, "topBinding")]
		l := b.E.(mrogen.Lit)
		nv, ok := differentValue(t, prog.U, l.T, l.V)
		if !ok {
			return "", 0
		}
		b.E = mrogen.Lit{V: nv, T: l.T}
		return kind, 0
	case "literal":
		var lits []*mrogen.Expr
		var depths []int
		for _, s := range sites {
			for i := range s.c.Bindings {
				n := len(lits)
				exprLits(&s.c.Bindings[i].E, &lits)
				for ; n < len(lits); n++ {
					depths = append(depths, s.d)
				}
			}
		}
		if len(lits) == 0 {
			return "", 0
		}
		i := rapid.IntRange(0, len(lits)-1).Draw(t, "lit")
		l := (*lits[i]).(mrogen.Lit)
		nv, ok := differentValue(t, prog.U, l.T, l.V)
		if !ok {
			return "", 0
		}
		*lits[i] = mrogen.Lit{V: nv, T: l.T}
		return kind, depths[i]
	case "alias":
		if len(sites) == 0 {
			return "", 0
		}
		s := sites[rapid.IntRange(0, len(sites)-1).Draw(t, "site")]
		from, to := s.c.Id, s.c.Id+"_REN"
		s.c.Id = to
		for _, c := range s.pl.Calls {
			for i := range c.Bindings {
				c.Bindings[i].E = renameRefs(c.Bindings[i].E, from, to)
			}
			if c.Disabled != nil && c.Disabled.Call == from {
				r := *c.Disabled
				r.Call = to
				c.Disabled = &r
			}
		}
		for i := range s.pl.Ret {
			s.pl.Ret[i].E = renameRefs(s.pl.Ret[i].E, from, to)
		}
		return kind, s.d
	case "rename-stage-input", "retype-stage-input", "add-stage-input", "toggle-split":
		if len(stages) == 0 {
			return "", 0
		}
		st := stages[rapid.IntRange(0, len(stages)-1).Draw(t, "stage")]
		d := reach[st.Name]
		switch kind {
		case "rename-stage-input":
			if len(st.Ins) == 0 {
				return "", 0
			}
			i := rapid.IntRange(0, len(st.Ins)-1).Draw(t, "in")
			from, to := st.Ins[i].Name, st.Ins[i].Name+"_ren"
			st.Ins[i].Name = to
			for _, pl := range prog.Pipelines {
				for _, c := range pl.Calls {
					if c.Callee == st.Name {
						for j := range c.Bindings {
							if c.Bindings[j].Param == from {
								c.Bindings[j].Param = to
							}
						}
					}
				}
			}
		case "retype-stage-input":
			done := false
			for i := range st.Ins {
				if st.Ins[i].T.Base == "int" {
					st.Ins[i].T.Base = "float" // every int argument is still accepted
					done = true
					break
				}
			}
			if !done {
				return "", 0
			}
		case "add-stage-input":
			st.Ins = append(st.Ins, mrogen.Param{Name: "zz_new", T: mrogen.Ty{Base: "int"}})
			for _, pl := range prog.Pipelines {
				for _, c := range pl.Calls {
					if c.Callee == st.Name {
						c.Bindings = append(c.Bindings, mrogen.Binding{Param: "zz_new", E: mrogen.Lit{V: nil, T: mrogen.Ty{Base: "int"}}})
					}
				}
			}
		case "toggle-split":
			if st.Split {
				st.Split, st.ChunkIns, st.ChunkOuts = false, nil, nil
			} else {
				st.Split = true
				st.ChunkIns = []mrogen.Param{{Name: "chunk_in", T: mrogen.Ty{Base: "int"}}}
			}
		}
		return kind, d
	case "drop-disabled", "add-disabled", "repoint-disabled":
		var cand []callSite
		for _, s := range sites {
			switch kind {
			case "drop-disabled", "repoint-disabled":
				if s.c.Disabled != nil {
					cand = append(cand, s)
				}
			case "add-disabled":
				if s.c.Disabled == nil && !s.c.Preflight {
					cand = append(cand, s)
				}
			}
		}
		if len(cand) == 0 {
			return "", 0
		}
		s := cand[rapid.IntRange(0, len(cand)-1).Draw(t, "site")]
		// bool flags in scope: flag inputs of the pipeline
		var flags []mrogen.Ref
		for _, in := range s.pl.Ins {
			if in.T == (mrogen.Ty{Base: "bool"}) {
				flags = append(flags, mrogen.Ref{Out: in.Name})
			}
		}
		switch kind {
		case "drop-disabled":
			s.c.Disabled = nil
		case "add-disabled":
			if len(flags) == 0 {
				return "", 0
			}
			r := flags[rapid.IntRange(0, len(flags)-1).Draw(t, "flag")]
			s.c.Disabled = &r
		case "repoint-disabled":
			var others []mrogen.Ref
			for _, f := range flags {
				if fmt.Sprint(f) != fmt.Sprint(*s.c.Disabled) {
					others = append(others, f)
				}
			}
			if len(others) == 0 {
				return "", 0
			}
			r := others[rapid.IntRange(0, len(others)-1).Draw(t, "flag")]
			s.c.Disabled = &r
		}
		return kind, s.d
	case "swap-bindings":
		for _, s := range sites {
			ins, _, _ := prog.Callable(s.c.Callee)
			for i := range s.c.Bindings {
				for j := i + 1; j < len(s.c.Bindings); j++ {
					pi, pj := mrogen.FindParam(ins, s.c.Bindings[i].Param), mrogen.FindParam(ins, s.c.Bindings[j].Param)
					_, si := s.c.Bindings[i].E.(mrogen.Split)
					_, sj := s.c.Bindings[j].E.(mrogen.Split)
					if pi != nil && pj != nil && pi.T == pj.T && !pi.Flag && !pj.Flag && si == sj &&
						prog.ExprString(s.c.Bindings[i].E) != prog.ExprString(s.c.Bindings[j].E) {
						s.c.Bindings[i].E, s.c.Bindings[j].E = s.c.Bindings[j].E, s.c.Bindings[i].E
						return kind, s.d
					}
				}
			}
		}
		return "", 0
	case "swap-returns":
		for _, pl := range pls {
			for i := range pl.Ret {
				for j := i + 1; j < len(pl.Ret); j++ {
					oi, oj := mrogen.FindParam(pl.Outs, pl.Ret[i].Param), mrogen.FindParam(pl.Outs, pl.Ret[j].Param)
					if oi != nil && oj != nil && oi.T == oj.T && prog.ExprString(pl.Ret[i].E) != prog.ExprString(pl.Ret[j].E) {
						pl.Ret[i].E, pl.Ret[j].E = pl.Ret[j].E, pl.Ret[i].E
						return kind, reach[pl.Name]
					}
				}
			}
		}
		return "", 0
	case "rename-stage-output-unused":
		// add an output to a reachable stage: the parameter set changes
		if len(stages) == 0 {
			return "", 0
		}
		st := stages[rapid.IntRange(0, len(stages)-1).Draw(t, "stage")]
		st.Outs = append(st.Outs, mrogen.Param{Name: "zz_out", T: mrogen.Ty{Base: "int"}})
		return "add-stage-output", reach[st.Name]
	}
	return "", 0
}

// cosmeticEdit returns the source of the same program written differently.
func cosmeticEdit(t *rapid.T, prog *mrogen.Program, dir string) (string, []string, string) {
	kind := rapid.SampledFrom([]string{"layout", "comments", "includes", "rename-filetype", "old-modifiers"}).Draw(t, "cosmetic")
	lay := &mrogen.Layout{Pick: func(n int) int { return rapid.IntRange(0, n-1).Draw(t, "lay") }}
	switch kind {
	case "comments":
		lay.Comments = true
	case "old-modifiers":
		lay.OldModifiers = true
	case "rename-filetype":
		if len(prog.U.FileTypes) == 0 {
			kind = "layout"
			break
		}
		from := prog.U.FileTypes[rapid.IntRange(0, len(prog.U.FileTypes)-1).Draw(t, "ft")]
		if stats.Known("C15/cosmetic-edit-refused:rename-filetype-in-collection") && fileTypeInCollection(prog, from) {
			// known finding: excluded, keep searching with another edit
			stats.Count("C15", "excluded_known_filetype_in_collection", 1)
			kind = "layout"
			break
		}
		to := from + "_renamed"
		renameTy := func(ty *mrogen.Ty) {
			if ty.Base == from {
				ty.Base = to
			}
		}
		for i := range prog.U.FileTypes {
			if prog.U.FileTypes[i] == from {
				prog.U.FileTypes[i] = to
			}
		}
		for _, s := range prog.U.Structs {
			for i := range s.Fields {
				renameTy(&s.Fields[i].T)
			}
		}
		for _, s := range prog.Stages {
			for i := range s.Ins {
				renameTy(&s.Ins[i].T)
			}
			for i := range s.Outs {
				renameTy(&s.Outs[i].T)
			}
		}
		for _, p := range prog.Pipelines {
			for i := range p.Ins {
				renameTy(&p.Ins[i].T)
			}
			for i := range p.Outs {
				renameTy(&p.Outs[i].T)
			}
		}
	case "includes":
		files := prog.SourceFiles(lay)
		for name, content := range files {
			p := filepath.Join(dir, name)
			os.MkdirAll(filepath.Dir(p), 0o755)
			os.WriteFile(p, []byte(content), 0o644)
		}
		return files["main.mro"], []string{dir}, kind
	}
	return prog.Source(lay), nil, kind
}

// fileTypeInCollection: is the file type used as element of an array or
// typed map anywhere (parameters or struct fields)?
func fileTypeInCollection(prog *mrogen.Program, ft string) bool {
	hit := false
	note := func(ty mrogen.Ty) {
		if ty.Base == ft && (ty.Arr > 0 || ty.Map > 0) {
			hit = true
		}
	}
	for _, s := range prog.U.Structs {
		for _, f := range s.Fields {
			note(f.T)
		}
	}
	for _, s := range prog.Stages {
		for _, p := range append(append([]mrogen.Param{}, s.Ins...), s.Outs...) {
			note(p.T)
		}
	}
	for _, s := range prog.Pipelines {
		for _, p := range append(append([]mrogen.Param{}, s.Ins...), s.Outs...) {
			note(p.T)
		}
	}
	return hit
}

var c15Seq int

func usesFileTypeIn(prog *mrogen.Program) string {
	pos := map[string]bool{}
	note := func(ty mrogen.Ty) {
		if prog.U.IsFileType(ty.Base) {
			switch {
			case ty.Arr > 0 && ty.Map > 0:
				pos["array-of-map"] = true
			case ty.Arr > 0:
				pos["array"] = true
			case ty.Map > 0:
				pos["typed-map"] = true
			default:
				pos["scalar"] = true
			}
		}
	}
	for _, s := range prog.U.Structs {
		for _, f := range s.Fields {
			note(f.T)
		}
	}
	for _, s := range prog.Stages {
		for _, p := range append(append([]mrogen.Param{}, s.Ins...), s.Outs...) {
			note(p.T)
		}
	}
	var r []string
	for k := range pos {
		r = append(r, k)
	}
	return strings.Join(r, "+")
}

// TestC15Equivalence: EquivalentCall is true for cosmetic edits and false
// for semantic ones, in both orientations.
func TestC15Equivalence(t *testing.T) {
	root := os.Getenv("VERIF_WORK")
	if root == "" {
		root = filepath.Join(os.TempDir(), fmt.Sprintf("verif-c15-%d", os.Getpid()))
	}
	rapid.Check(t, func(t *rapid.T) {
		c15Seq++
		dir := filepath.Join(root, fmt.Sprintf("c15-%d", c15Seq))
		defer os.RemoveAll(dir)
		prog := mrogen.GenProgram(t, c15Cfg())
		srcA := prog.Source(nil)
		_, _, astA, err := syntax.ParseSourceBytes([]byte(srcA), filepath.Join(dir, "a.mro"), nil, false)
		if err != nil {
			t.Fatalf("GENERATOR: %v\n%s", err, srcA)
		}
		semantic := rapid.Bool().Draw(t, "semantic")
		var srcB, kind string
		var incB []string
		depth := 0
		if semantic {
			kind, depth = semanticEdit(t, prog)
			if kind == "" {
				stats.Count("C15", "edit_not_applicable", 1)
				return
			}
			srcB = prog.Source(nil)
		} else {
			srcB, incB, kind = cosmeticEdit(t, prog, dir)
		}
		pathB := filepath.Join(dir, "b.mro")
		if incB != nil {
			pathB = filepath.Join(dir, "main.mro")
		}
		_, _, astB, err := syntax.ParseSourceBytes([]byte(srcB), pathB, incB, false)
		if err != nil {
			if semantic {
				stats.Count("C15", "edited_program_does_not_compile:"+kind, 1)
				return
			}
			t.Fatalf("GENERATOR: cosmetic variant (%s) does not compile: %v\n%s", kind, err, srcB)
		}
		ab, ba := astB.EquivalentCall(astA), astA.EquivalentCall(astB)
		classes := []string{"edit:" + kind, fmt.Sprintf("depth:%d", depth)}
		if semantic {
			classes = append(classes, "semantic")
		} else {
			classes = append(classes, "cosmetic")
			if kind == "rename-filetype" {
				classes = append(classes, "filetype-positions:"+usesFileTypeIn(prog))
			}
		}
		stats.Case("C15", true, stats.Digest(srcA, srcB), classes, func() any {
			return map[string]any{"kind": kind, "semantic": semantic, "depth": depth, "original": stats.Trunc(srcA, 500), "edited": stats.Trunc(srcB, 500)}
		})
		if semantic && (ab || ba) {
			fail(t, "C15", "semantic-edit-accepted:"+kind, "edit %q (depth %d) changes what would run, but EquivalentCall(new,old)=%v EquivalentCall(old,new)=%v\n--- original\n%s\n--- edited\n%s", kind, depth, ab, ba, srcA, srcB)
		}
		if !semantic && (!ab || !ba) && kind == "rename-filetype" {
			fail(t, "C15", "cosmetic-edit-refused:rename-filetype-in-collection", "renaming a file type consistently is refused: EquivalentCall(new,old)=%v EquivalentCall(old,new)=%v\n--- original\n%s\n--- edited\n%s", ab, ba, srcA, srcB)
		}
		if !semantic && (!ab || !ba) {
			fail(t, "C15", "cosmetic-edit-refused:"+kind, "edit %q does not change the meaning, but EquivalentCall(new,old)=%v EquivalentCall(old,new)=%v\n--- original\n%s\n--- edited\n%s", kind, ab, ba, srcA, srcB)
		}
		_ = json.Number("")
	})
}

// TestC15KnownFiletypeRename: reproducer of a known finding.
func TestC15KnownFiletypeRename(t *testing.T) {
	mk := func(ft string) *syntax.Ast {
		src := "filetype " + ft + ";\nstage S(\n    in  " + ft + "[] xs,\n    out int o,\n    src comp \"x\",\n)\npipeline P(\n    in  " + ft + "[] xs,\n    out int o,\n)\n{\n    call S(\n        xs = self.xs,\n    )\n    return (\n        o = S.o,\n    )\n}\ncall P(\n    xs = [\"a\"],\n)\n"
		_, _, ast, err := syntax.ParseSourceBytes([]byte(src), "k.mro", nil, false)
		if err != nil {
			t.Fatalf("INFRA: %v", err)
		}
		return ast
	}
	a, b := mk("json"), mk("json2")
	if !a.EquivalentCall(b) || !b.EquivalentCall(a) {
		fmt.Println("KNOWN-PRESENT C15/cosmetic-edit-refused:rename-filetype-in-collection")
	}
}
