package lang

import (
	"encoding/json"
	"fmt"
	"os"
	"path/filepath"
	"runtime/debug"
	"strings"
	"testing"

	"pgregory.net/rapid"

	"verifharness/stats"
)

// TestC08IncludeGraphs: the source handed to the compiler names other files.
// Small sets of files on disk with generated include edges - chains,
// diamonds, repeated includes, self includes, cycles of any length reached
// from one or several places, missing files, files in sub-directories,
// includes after which a declaration follows or not - are compiled from
// every file of the set as the root.  Same oracle as for single texts: the
// entry points return (no panic, no runaway recursion - which would end the
// process: the case in flight is left behind for the driver -, no hang), with
// a tree or an error carrying a position, in time and memory proportional
// to the total size of the files.
func TestC08IncludeGraphs(t *testing.T) {
	root := os.Getenv("VERIF_WORK")
	if root == "" {
		root = os.TempDir()
	}
	root = filepath.Join(root, fmt.Sprintf("c08inc-%d", os.Getpid()))
	os.MkdirAll(root, 0o755)
	defer os.RemoveAll(root)
	// a runaway recursion should end the process after 256 MB of stack, not 1 GB
	defer debug.SetMaxStack(debug.SetMaxStack(256 << 20))
	caseNo := 0
	rapid.Check(t, func(t *rapid.T) {
		caseNo++
		dir := filepath.Join(root, fmt.Sprintf("g%d", caseNo))
		defer os.RemoveAll(dir)
		n := rapid.IntRange(2, 6).Draw(t, "nFiles")
		names := make([]string, n)
		for i := range names {
			names[i] = fmt.Sprintf("f%d.mro", i)
			if rapid.IntRange(0, 4).Draw(t, "inSubdir") == 0 {
				names[i] = fmt.Sprintf("sub%d/f%d.mro", rapid.IntRange(0, 1).Draw(t, "subdir"), i)
			}
		}
		shape := rapid.SampledFrom([]string{"random", "random", "dag", "cycle-plus", "cycle-plus"}).Draw(t, "shape")
		edges := make([][]int, n)
		hasCycleEdge, hasSelf, hasMissing, hasRepeat := false, false, false, false
		addEdge := func(i, j int) {
			for _, e := range edges[i] {
				if e == j {
					hasRepeat = true
				}
			}
			edges[i] = append(edges[i], j)
			if j <= i {
				hasCycleEdge = true
			}
			if j == i {
				hasSelf = true
			}
		}
		switch shape {
		case "dag":
			for i := 0; i < n; i++ {
				for j := i + 1; j < n; j++ {
					if rapid.IntRange(0, 1).Draw(t, "edge") == 0 {
						addEdge(i, j)
					}
				}
			}
		case "cycle-plus":
			// a cycle among the later files, entered from the first files
			// at one or several points, before and after other includes
			k := rapid.IntRange(1, n-1).Draw(t, "cycleStart")
			for i := k; i < n; i++ {
				next := i + 1
				if next == n {
					next = k
				}
				addEdge(i, next)
			}
			for i := 0; i < n; i++ {
				for m := rapid.IntRange(0, 2).Draw(t, "extraEdges"); m > 0; m-- {
					addEdge(i, rapid.IntRange(0, n-1).Draw(t, "to"))
				}
			}
			for i := range edges {
				edges[i] = shuffled(t, edges[i], "edgeOrder")
			}
		default:
			for i := 0; i < n; i++ {
				for m := rapid.IntRange(0, 3).Draw(t, "nEdges"); m > 0; m-- {
					addEdge(i, rapid.IntRange(0, n-1).Draw(t, "to"))
				}
			}
		}
		texts := make([]string, n)
		total := 0
		for i := range names {
			var b strings.Builder
			for _, j := range edges[i] {
				target := names[j]
				if rapid.IntRange(0, 11).Draw(t, "missing") == 0 {
					target = "nowhere/" + target
					hasMissing = true
				}
				fmt.Fprintf(&b, "@include %q\n", target)
			}
			switch rapid.IntRange(0, 4).Draw(t, "decl") {
			case 0:
				// nothing after the includes
			case 1:
				fmt.Fprintf(&b, "\nstruct S%d(\n    int a,\n)\n", i)
			case 2:
				fmt.Fprintf(&b, "\nstage ST%d(\n    in  int p,\n    out int o,\n    src comp \"bin/x\",\n)\n", i)
			default:
				fmt.Fprintf(&b, "\nfiletype ft%d;\n", i)
			}
			texts[i] = b.String()
			total += len(texts[i])
			p := filepath.Join(dir, names[i])
			if err := os.MkdirAll(filepath.Dir(p), 0o755); err != nil {
				t.Fatalf("INFRA: %v", err)
			}
			if err := os.WriteFile(p, []byte(texts[i]), 0o644); err != nil {
				t.Fatalf("INFRA: %v", err)
			}
		}
		describe := func() string {
			var b strings.Builder
			for i := range names {
				fmt.Fprintf(&b, "--- %s\n%s", names[i], texts[i])
			}
			return b.String()
		}
		classes := []string{"include-graph", "shape:" + shape}
		if hasCycleEdge {
			classes = append(classes, "include-cycle")
		}
		if hasSelf {
			classes = append(classes, "self-include")
		}
		if hasMissing {
			classes = append(classes, "missing-include")
		}
		if hasRepeat {
			classes = append(classes, "repeated-include")
		}
		payload, _ := json.Marshal(map[string]any{"files": names, "texts": texts})
		for i := range names {
			stats.Inflight("C08/process-dies-on-include-graph", payload)
			// (limits scale with the size of the whole set of files)
			src := []byte(texts[i])
			cls, v := evalEntries("C08", seedFile{name: names[i], dir: dir}, src, "file "+names[i]+" of an include graph")
			stats.InflightDone()
			if v != nil {
				fail(t, "C08", v.key, "%s\nfiles:\n%s", v.msg, describe())
			}
			if i == 0 {
				classes = append(classes, cls...)
			}
		}
		stats.Case("C08", len(classes) > 3, stats.Digest(describe()), classes, func() any {
			return map[string]any{"kind": "include graph", "files": names, "edges": edges, "classes": classes, "texts": stats.Trunc(describe(), 600)}
		})
	})
}
