package lang

import (
	"testing"

	"github.com/martian-lang/martian/martian/syntax"
	"pgregory.net/rapid"

	"verifharness/mrogen"
	"verifharness/refsem"
	"verifharness/stats"
)

func fullCfg() *mrogen.ProgCfg {
	return &mrogen.ProgCfg{MaxStages: 4, MaxPipelines: 3, MaxCalls: 4, MapCalls: true, Disabled: true, SplitStage: true,
		Preflight: true, NoFiles: true, Assignable: refsem.Assignable,
		Values: mrogen.ValueCfg{NullPct: 5, PlainStrings: true, SafeKeys: true, PlainNumbers: true}}
}

// TestGenSoundness measures how many generated programs the real compiler
// rejects (generator soundness, DESIGN 3.1); not tied to a property.
func TestGenSoundness(t *testing.T) {
	rapid.Check(t, func(t *rapid.T) {
		prog := mrogen.GenProgram(t, fullCfg())
		src := prog.Source(nil)
		_, _, _, err := syntax.ParseSourceBytes([]byte(src), "gen.mro", nil, false)
		stats.Case("GEN", err == nil, stats.Digest(src), nil, nil)
		if err != nil {
			t.Fatalf("GENERATOR: rejected: %v\n%s", err, src)
		}
	})
}

func TestGenShow(t *testing.T) {
	g := rapid.Custom(func(t *rapid.T) string { return mrogen.GenProgram(t, fullCfg()).Source(nil) })
	for i := 0; i < 3; i++ {
		t.Logf("----- example %d\n%s", i, g.Example(i+40))
	}
}
