package lang

import (
	"fmt"
	"os"
	"path/filepath"
	"regexp"
	"runtime"
	"runtime/debug"
	"sort"
	"strings"
	"testing"
	"time"

	"github.com/martian-lang/martian/martian/syntax"
	"pgregory.net/rapid"

	"verifharness/stats"
)

type seedFile struct {
	name string // path relative to its directory
	dir  string
	data []byte
}

var (
	seedFiles []seedFile
	seedOnce  bool
)

func repoDir() string {
	if r := os.Getenv("VERIF_REPO"); r != "" {
		return r
	}
	return "/repo"
}

// loadSeeds: every *.mro below the repository plus harness-owned seeds.
func loadSeeds(t interface{ Fatalf(string, ...any) }) []seedFile {
	if seedOnce {
		return seedFiles
	}
	seedOnce = true
	var paths []string
	for _, root := range []string{filepath.Join(repoDir(), "martian"), filepath.Join(repoDir(), "test")} {
		filepath.Walk(root, func(p string, info os.FileInfo, err error) error {
			if err == nil && !info.IsDir() && strings.HasSuffix(p, ".mro") {
				paths = append(paths, p)
			}
			return nil
		})
	}
	sort.Strings(paths)
	for _, p := range paths {
		b, err := os.ReadFile(p)
		if err != nil || len(b) > 40000 {
			continue
		}
		seedFiles = append(seedFiles, seedFile{name: filepath.Base(p), dir: filepath.Dir(p), data: b})
	}
	for i, s := range ownSeeds {
		seedFiles = append(seedFiles, seedFile{name: fmt.Sprintf("own%d.mro", i), dir: os.TempDir(), data: []byte(s)})
	}
	if len(seedFiles) < 10 {
		t.Fatalf("INFRA: only %d seed programs found", len(seedFiles))
	}
	return seedFiles
}

var ownSeeds = []string{
	`filetype txt;
struct P(int x, float[] y, map<string> m, txt f "help" "out.txt",)
stage S(in int a, in P p, in map<int[]> mm, out txt o "h" "name.txt", out P[] ps, src comp "bin/s arg",) split (in int c, out float d,) using (mem_gb = 2.5, threads = 1.5, vmem_gb = 4, volatile = strict, special = "sp",) retain (o,)
stage T(in string s, out bool b, src py "stages/t",)
pipeline Q(in int a, out txt o, out P[] ps,)
{
    call S(a = self.a, p = {x: 1, y: [1.5, -2e3], m: {"k": "v"}, f: "f.txt"}, mm = {"a": [1, 2], "b": []},)
    call T(s = "x\n\"q\"\\",) using (disabled = false, local = true, volatile = true,)
    return (o = S.o, ps = S.ps,)
    retain (S.o,)
}
map call Q(a = split [1, 2, 3],)
`,
	`stage A(in int x, out int y, src exec "a b c",)
stage B(in int[] xs, in map<int> m, out int z, src py "b",)
pipeline P(in int[] xs, out int[] ys, out map<int> zs,)
{
    map call A(x = split self.xs,)
    map call A as A2(x = split {"k1": 1, "k2": 2},)
    call local preflight B(xs = A.y, m = A2.y,)
    return (ys = A.y, zs = A2.y,)
}
call P(xs = [1, 0777, -9223372036854775808, 9223372036854775807],)
`,
	`filetype tar.gz;
stage D(
    in  int x,
    in  tar.gz f,
    out int,
    out tar.gz g,
    src comp "d",
)
stage E(
    in  int x,
    in  tar.gz f,
    out int "help" "name",
    src comp "e",
)
pipeline W(
    in  int x,
    in  tar.gz f,
    out int y,
    out D d,
)
{
    call D(
        * = self,
    )
    call E(
        x = D,
        * = self,
    )
    call E as E2(
        x = D.default,
        f = D.g,
    ) using (
        disabled = self.x,
    )
    return (
        y = E,
        d = D,
    )
}
call W(
    x = 1,
    f = "a.tar.gz",
)
`,
	`{"a": [1, 2.5, "s", null, true, {x: 1}], "b": {"c": -1e-3}}`,
	`[1, [2, [3, [4, [5]]]], "\x41\101é\U0001F600\a\b\f\n\r\t\v"]`,
	`@include "a.mro"
@include "sub/b.mro"
call FOO(x = null,)
`,
}

var hostileTokens = []string{
	"9223372036854775807", "9223372036854775808", "-9223372036854775808", "-9223372036854775809",
	"9999999999999999999", "99999999999999999999", "00000000000000000000012", "-0", "1e308", "1e309",
	"1e999", "-1e999", "1.5e-400", "1e-999", "1:e5", "1:5", "1:.5e3", "3.4e38", "3.5e38", "1e39", "0.0",
	"1.", ".5", "1e", "1e+", "--1", "1.5.5", "0x10", "1_000",
	`""`, `" "`, `"\777"`, `"\400"`, `"\xZZ"`, `"\x00"`, `"\u0000"`, `"\ud800"`, `"\UFFFFFFFF"`, `"\U00110000"`,
	`"\q"`, `"unterminated`, `"a\"`, `"\\"`, "\"\n\"", `"/"`, `".."`, `"."`, `"a/b"`, `"é"`,
	"in", "out", "src", "stage", "pipeline", "call", "return", "self", "split", "using", "retain", "map", "struct",
	"filetype", "as", "local", "preflight", "volatile", "disabled", "strict", "true", "false", "null", "default",
	"mem_gb", "memgb", "threads", "vmem_gb", "special", "py", "exec", "comp", "int", "float", "string", "bool",
	"path", "file", "@include", "_", "_x", "x_", "é", "\xff", "\xc3", "\x00", "\xef\xbb\xbf", " ", " ",
	"(", ")", "[", "]", "{", "}", "<", ">", ",", ".", ":", ";", "=", "*", "#", "# c\n", "\n", "\r\n", "\t",
	"map<", "map<int", "map<map<int>>", "int[][][][]", "[]", "{}", "[,]", "{,}", "self.", "self", "A.b.c.d", "A.",
}

var tokSplitRe = regexp.MustCompile(`"(?:[^"\\\n]|\\.)*"|#[^\n]*|[A-Za-z_@][A-Za-z_0-9]*|-?[0-9][0-9.eE+:-]*|\s+|.`)

func splitTokens(b []byte) []string {
	return tokSplitRe.FindAllString(string(b), -1)
}

func genNearValid(t *rapid.T, seeds []seedFile) (seedFile, []byte, []string) {
	seed := seeds[rapid.IntRange(0, len(seeds)-1).Draw(t, "seed")]
	toks := splitTokens(seed.data)
	var edits []string
	n := rapid.IntRange(0, 3).Draw(t, "nEdits")
	for i := 0; i < n && len(toks) > 0; i++ {
		pos := rapid.IntRange(0, len(toks)-1).Draw(t, "pos")
		kind := rapid.SampledFrom([]string{"replace", "replace", "replace-same-class", "replace-same-class", "delete", "dup", "insert", "swap", "nest", "typedims", "transplant-line", "transplant-line"}).Draw(t, "edit")
		switch kind {
		case "transplant-line":
			// a whole line of some seed (a binding, a parameter, a modifier,
			// a return, a directive) put in front of a line of this text:
			// legal constructs in contexts that do not expect them
			donor := seeds[rapid.IntRange(0, len(seeds)-1).Draw(t, "donor")]
			dl := strings.Split(string(donor.data), "\n")
			line := dl[rapid.IntRange(0, len(dl)-1).Draw(t, "donorLine")]
			for ; pos > 0 && !strings.Contains(toks[pos-1], "\n"); pos-- {
			}
			toks = append(toks[:pos], append([]string{line + "\n"}, toks[pos:]...)...)
		case "replace":
			toks[pos] = rapid.SampledFrom(hostileTokens).Draw(t, "hostile")
		case "replace-same-class":
			// find the next token of an interesting class and replace it
			// with a hostile token of the same class.
			for j := 0; j < len(toks); j++ {
				k := (pos + j) % len(toks)
				c := toks[k][0]
				if c == '"' {
					toks[k] = rapid.SampledFrom(hostileTokens[29:50]).Draw(t, "hostileStr")
					break
				} else if c >= '0' && c <= '9' || c == '-' {
					toks[k] = rapid.SampledFrom(hostileTokens[:29]).Draw(t, "hostileNum")
					break
				}
			}
		case "delete":
			toks = append(toks[:pos], toks[pos+1:]...)
		case "dup":
			toks = append(toks[:pos+1], toks[pos:]...)
		case "insert":
			h := rapid.SampledFrom(hostileTokens).Draw(t, "hostile")
			toks = append(toks[:pos], append([]string{h}, toks[pos:]...)...)
		case "swap":
			q := rapid.IntRange(0, len(toks)-1).Draw(t, "pos2")
			toks[pos], toks[q] = toks[q], toks[pos]
		case "typedims":
			// find the next type-ish identifier and give it many dimensions
			dims := rapid.SampledFrom([]int{3, 100, 32767, 32768, 40000, 65536, 70000}).Draw(t, "dims")
			for j := 0; j < len(toks); j++ {
				k := (pos + j) % len(toks)
				switch toks[k] {
				case "int", "float", "string", "bool", "file", "path":
					toks[k] += strings.Repeat("[]", dims)
					j = len(toks)
				}
			}
		case "nest":
			depth := rapid.SampledFrom([]int{2, 10, 100, 1000, 10000}).Draw(t, "depth")
			if depth > 1000 && stats.Known("C08/quadratic-memory-in-nesting-depth") {
				// known finding (quadratic memory in literal nesting depth):
				// excluded by construction so the search goes on behind it.
				depth = 1000
				stats.Count("C08", "excluded_known_deep_nesting", 1)
			}
			open, cl := "[", "]"
			if rapid.Bool().Draw(t, "brace") {
				open, cl = `{"k":`, "}"
			}
			toks[pos] = strings.Repeat(open, depth) + "1" + strings.Repeat(cl, depth)
		}
		edits = append(edits, kind)
	}
	src := []byte(strings.Join(toks, ""))
	if rapid.IntRange(0, 7).Draw(t, "truncate") == 0 && len(src) > 0 {
		src = src[:rapid.IntRange(0, len(src)-1).Draw(t, "truncAt")]
		edits = append(edits, "truncate")
	}
	return seed, src, edits
}

var posRe = regexp.MustCompile(`:\d+|line \d+`)

type entryResult struct {
	name     string
	panicked any
	stack    string
	err      error
	ok       bool
	dur      time.Duration
	alloc    uint64
}

// guarded runs f in its own goroutine so that a hang can be told apart from
// slowness: an entry point that has not returned after 30 s + 200 us/byte
// (four orders of magnitude above normal) is reported as a hang.  The
// goroutine cannot be killed, so the process reports and exits at once
// (no shrinking); the input is saved as the replay.
func guarded(name string, src []byte, f func() error) entryResult {
	ch := make(chan entryResult, 1)
	go func() { ch <- guardedInline(name, f) }()
	limit := 30*time.Second + time.Duration(len(src))*200*time.Microsecond
	deadline := time.After(limit)
	// a loop that also allocates must not take the machine down before the
	// time limit is reached: 6 GB of live heap (five orders of magnitude
	// above normal) ends the case as a runaway
	tick := time.NewTicker(250 * time.Millisecond)
	defer tick.Stop()
	var m0 runtime.MemStats
	runtime.ReadMemStats(&m0)
	for {
		key, why := "", ""
		select {
		case r := <-ch:
			return r
		case <-deadline:
			key, why = "hang", fmt.Sprintf("did not return within %v", limit)
		case <-tick.C:
			var m runtime.MemStats
			runtime.ReadMemStats(&m)
			if m.HeapAlloc > m0.HeapAlloc+6<<30 {
				key, why = "runaway-memory", fmt.Sprintf("holds %d MB of heap and has not returned", m.HeapAlloc>>20)
			}
		}
		if key == "" {
			continue
		}
		dir := os.Getenv("VERIF_WORK")
		if dir == "" {
			dir = os.TempDir()
		}
		os.MkdirAll(dir, 0o755)
		p := filepath.Join(dir, "hang.input")
		os.WriteFile(p, src, 0o644)
		fmt.Printf("VKEY=C08/%s %s %s on a %d byte input (saved to %s): %q\n", key, name, why, len(src), p, stats.Trunc(string(src), 2000))
		fmt.Println("[rapid] failed: hang (process exits without shrinking)")
		stats.Flush()
		os.Exit(1)
	}
}

func guardedInline(name string, f func() error) (r entryResult) {
	r.name = name
	var m0, m1 runtime.MemStats
	runtime.ReadMemStats(&m0)
	t0 := time.Now()
	defer func() {
		r.dur = time.Since(t0)
		runtime.ReadMemStats(&m1)
		r.alloc = m1.TotalAlloc - m0.TotalAlloc
		if p := recover(); p != nil {
			r.panicked = p
			r.stack = string(debug.Stack())
		}
	}()
	r.err = f()
	r.ok = r.err == nil
	return r
}

func runEntries(seed seedFile, src []byte) []entryResult {
	srcPath := filepath.Join(seed.dir, seed.name)
	inc := []string{seed.dir}
	var res []entryResult
	res = append(res, guarded("ParseSourceBytes", src, func() error {
		var p syntax.Parser
		_, _, _, err := p.ParseSourceBytes(append([]byte{}, src...), srcPath, inc, false)
		return err
	}))
	res = append(res, guarded("UncheckedParse", src, func() error {
		var p syntax.Parser
		_, err := p.UncheckedParse(append([]byte{}, src...), srcPath)
		return err
	}))
	res = append(res, guarded("ParseValExp", src, func() error {
		var p syntax.Parser
		_, err := p.ParseValExp(append([]byte{}, src...))
		return err
	}))
	res = append(res, guarded("FormatSrcBytes", src, func() error {
		_, err := syntax.FormatSrcBytes(append([]byte{}, src...), srcPath, false, inc)
		return err
	}))
	return res
}

// panicKey derives a root-cause key from a panic value and stack.
func panicKey(p any, stack string) string {
	msg := fmt.Sprint(p)
	for _, fn := range []string{"parseInt", "parseFloat32", "parseFloat", "unquoteBytes", "unquote", "parseHexByte", "unhex"} {
		if strings.Contains(stack, "syntax."+fn+"(") {
			return "panic:" + fn
		}
	}
	if strings.Contains(msg, "index out of range") {
		m := regexp.MustCompile(`syntax\.\(?\*?([A-Za-z0-9_]+)\)?\.?([A-Za-z0-9_]*)\(`).FindStringSubmatch(stack[strings.Index(stack, "panic("):])
		if m != nil {
			return "panic:index:" + m[1] + m[2]
		}
		return "panic:index"
	}
	m := regexp.MustCompile(`martian/syntax\.([A-Za-z0-9_().*]+)\(`).FindStringSubmatch(stack[strings.Index(stack, "panic("):])
	if m != nil {
		return "panic:" + strings.NewReplacer("(", "", ")", "", "*", "").Replace(m[1])
	}
	return "panic:other"
}

type violation struct{ key, msg string }

func checkEntries(t *rapid.T, prop string, seed seedFile, src []byte, what string) []string {
	classes, v := evalEntries(prop, seed, src, what)
	if v != nil {
		if dir := os.Getenv("VERIF_SURVEY"); dir != "" {
			os.WriteFile(filepath.Join(dir, strings.NewReplacer("/", "_", ":", "_").Replace(v.key)+".input"), src, 0o644)
		}
		fail(t, prop, v.key, "%s", v.msg)
	}
	return classes
}

func evalEntries(prop string, seed seedFile, src []byte, what string) (classes []string, v *violation) {
	fail := func(_ any, _ string, key, format string, args ...any) {
		if v == nil {
			v = &violation{key, fmt.Sprintf(format, args...)}
		}
	}
	var t any
	results := runEntries(seed, src)
	for _, r := range results {
		if r.panicked != nil {
			fail(t, prop, panicKey(r.panicked, r.stack), "%s panicked on %s: %v\ninput (%d bytes): %q\n%s", r.name, what, r.panicked, len(src), stats.Trunc(string(src), 3000), stats.Trunc(r.stack, 3000))
		}
		if r.err != nil {
			msg := r.err.Error()
			if !posRe.MatchString(msg) {
				key := "error-without-position"
				short := msg
				if len(short) > 60 {
					short = short[:60]
				}
				short = regexp.MustCompile(`[^A-Za-z]+`).ReplaceAllString(short, "-")
				fail(t, prop, key+":"+short, "%s returned an error without a source position on %s: %q\ninput: %q", r.name, what, msg, stats.Trunc(string(src), 3000))
			}
		}
		limit := 2*time.Second + time.Duration(len(src))*50*time.Microsecond
		if r.dur > limit {
			// confirm alone, three times
			slow := 0
			for i := 0; i < 3; i++ {
				for _, r2 := range runEntries(seed, src) {
					if r2.name == r.name && r2.dur > limit {
						slow++
					}
				}
			}
			if slow == 3 {
				key := "disproportionate-time"
				if maxBracketDepth(src) > 1000 {
					key = "quadratic-memory-in-nesting-depth"
				}
				fail(t, prop, key, "%s took %v on %d bytes (limit %v), confirmed 3 times\ninput: %q", r.name, r.dur, len(src), limit, stats.Trunc(string(src), 2000))
			}
			stats.Count(prop, "slow_unconfirmed", 1)
		}
		if lim := uint64(64<<20) + 4000*uint64(len(src)); r.alloc > lim {
			over := 0
			for i := 0; i < 3; i++ {
				for _, r2 := range runEntries(seed, src) {
					if r2.name == r.name && r2.alloc > lim {
						over++
					}
				}
			}
			if over == 3 {
				key := "disproportionate-memory"
				if maxBracketDepth(src) > 1000 {
					key = "quadratic-memory-in-nesting-depth"
				}
				fail(t, prop, key, "%s allocated %d bytes on %d input bytes (limit %d)\ninput: %q", r.name, r.alloc, len(src), lim, stats.Trunc(string(src), 2000))
			}
			stats.Count(prop, "alloc_unconfirmed", 1)
		}
	}
	switch {
	case results[0].ok:
		classes = append(classes, "compiled")
	case results[1].ok:
		classes = append(classes, "parsed-compile-error")
	case results[2].ok:
		classes = append(classes, "value-expression")
	default:
		classes = append(classes, "syntax-error")
	}
	return classes, v
}

func TestC08NearValid(t *testing.T) {
	seeds := loadSeeds(t)
	rapid.Check(t, func(t *rapid.T) {
		seed, src, edits := genNearValid(t, seeds)
		classes := checkEntries(t, "C08", seed, src, "near-valid program")
		for _, e := range edits {
			classes = append(classes, "edit:"+e)
		}
		ntok := len(splitTokens(src))
		stats.Case("C08", ntok >= 5 && len(edits) > 0, stats.Digest(src), classes, func() any {
			return map[string]any{"seed": seed.name, "edits": edits, "class": classes[0], "input": stats.Trunc(string(src), 400)}
		})
	})
}

// TestC08Bytes: arbitrary byte strings and token soups.
func TestC08Bytes(t *testing.T) {
	seeds := loadSeeds(t)
	rapid.Check(t, func(t *rapid.T) {
		var src []byte
		if rapid.Bool().Draw(t, "soup") {
			n := rapid.IntRange(0, 30).Draw(t, "n")
			var b strings.Builder
			for i := 0; i < n; i++ {
				b.WriteString(rapid.SampledFrom(hostileTokens).Draw(t, "tok"))
				if rapid.Bool().Draw(t, "sp") {
					b.WriteByte(' ')
				}
			}
			src = []byte(b.String())
		} else {
			src = rapid.SliceOfN(rapid.Byte(), 0, 64).Draw(t, "bytes")
		}
		classes := checkEntries(t, "C08", seeds[len(seeds)-1], src, "byte string")
		classes = append(classes, "bytes")
		stats.Case("C08", len(splitTokens(src)) >= 5, stats.Digest(src), classes, func() any {
			return map[string]any{"kind": "bytes", "class": classes[0], "input": fmt.Sprintf("%q", stats.Trunc(string(src), 300))}
		})
	})
}

// maxBracketDepth is a cheap upper bound for literal nesting depth.
func maxBracketDepth(b []byte) int {
	d, m := 0, 0
	for _, c := range b {
		switch c {
		case '[', '{':
			d++
			if d > m {
				m = d
			}
		case ']', '}':
			if d > 0 {
				d--
			}
		}
	}
	return m
}

// TestC08KnownDeepNesting: reproducer for the known finding
// C08/quadratic-memory-in-nesting-depth; prints KNOWN-PRESENT while it reproduces.
func TestC08KnownDeepNesting(t *testing.T) {
	const d = 6000
	src := []byte("call A(\n    x = " + strings.Repeat(`{"k":`, d) + "1" + strings.Repeat("}", d) + ",\n)\n")
	for _, r := range runEntries(seedFile{name: "deep.mro", dir: os.TempDir()}, src) {
		if lim := uint64(64<<20) + 4000*uint64(len(src)); r.alloc > lim {
			fmt.Printf("KNOWN-PRESENT C08/quadratic-memory-in-nesting-depth: %s allocates %d MB for %d input bytes (limit %d MB)\n", r.name, r.alloc>>20, len(src), lim>>20)
			return
		}
	}
}
