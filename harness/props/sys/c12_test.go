package sys

import (
	"fmt"
	"math"
	"os"
	"path/filepath"
	"strconv"
	"strings"
	"testing"
	"time"

	"github.com/martian-lang/martian/martian/core"
	"github.com/martian-lang/martian/martian/util"
	"pgregory.net/rapid"

	"verifharness/stats"
)

func init() {
	// keep martian's logger quiet and cheap
	util.LogTeeWriter(nopWriter{})
}

type nopWriter struct{}

func (nopWriter) Write(b []byte) (int, error)       { return len(b), nil }
func (nopWriter) WriteString(s string) (int, error) { return len(s), nil }

type acq struct {
	id      int
	n       int64
	done    chan error
	granted bool
	failed  bool
}

const settle = 10 * time.Second

// TestC12ResourceSemaphore: model-based stateful test.  Model: FIFO queue of
// waiters, reserved = sum of granted-unreleased amounts.  The current size
// after an availability update is read from the implementation (its
// evolution is not part of the statement); everything else is predicted.
func TestC12ResourceSemaphore(t *testing.T) {
	rapid.Check(t, func(t *rapid.T) {
		max := int64(rapid.SampledFrom([]int{1, 2, 4, 10, 100, 400}).Draw(t, "max"))
		sem := core.NewResourceSemaphore(max, core.DefaultResourceFormatter("u"))
		var (
			queue    []*acq // model FIFO
			held     []*acq
			reserved int64
			nextId   int
			history  []string
			queuedGranted, updatesThatGranted int
		)
		logf := func(f string, a ...any) { history = append(history, fmt.Sprintf(f, a...)) }
		bad := func(key, f string, a ...any) {
			fail(t, "C12", key, "%s\nhistory:\n  %s", fmt.Sprintf(f, a...), strings.Join(history, "\n  "))
		}
		// grants the model expects given the implementation's current size
		predictAndCheck := func(what string) {
			cur := sem.CurrentSize()
			var expect []*acq
			for len(queue) > 0 && cur-reserved >= queue[0].n {
				w := queue[0]
				queue = queue[1:]
				reserved += w.n
				expect = append(expect, w)
			}
			for _, w := range expect {
				select {
				case err := <-w.done:
					if err != nil {
						bad("sem-queued-acquire-error", "queued acquire #%d(%d) returned %v after %s", w.id, w.n, err, what)
					}
					w.granted = true
					held = append(held, w)
					queuedGranted++
					logf("  -> granted #%d(%d)", w.id, w.n)
				case <-time.After(settle):
					bad("sem-lost-wakeup", "after %s the head waiter #%d(%d) fits (current %d - reserved %d) but was not granted within %v", what, w.id, w.n, cur, reserved-w.n, settle)
				}
			}
			// nobody else may have been granted (FIFO, no overtaking)
			for _, w := range queue {
				select {
				case err := <-w.done:
					bad("sem-granted-out-of-order", "waiter #%d(%d) returned (%v) after %s although waiter #%d(%d) ahead of it is still queued", w.id, w.n, err, what, queue[0].id, queue[0].n)
				default:
				}
			}
			if got := sem.Reserved(); got != reserved {
				bad("sem-reserved-mismatch", "after %s: Reserved()=%d, model %d", what, got, reserved)
			}
			if got := sem.QueueLength(); got != len(queue) {
				bad("sem-queue-mismatch", "after %s: QueueLength()=%d, model %d", what, got, len(queue))
			}
			if reserved > max {
				bad("sem-over-limit", "after %s: reserved %d exceeds the maximum %d", what, reserved, max)
			}
			if a := sem.Available(); a != sem.CurrentSize()-reserved {
				bad("sem-available-mismatch", "Available()=%d but CurrentSize()-Reserved()=%d", a, sem.CurrentSize()-reserved)
			}
			if u := sem.InUse(); u != max-sem.CurrentSize()+reserved {
				bad("sem-inuse-mismatch", "InUse()=%d, expected %d", u, max-sem.CurrentSize()+reserved)
			}
			if len(queue) > 0 && sem.CurrentSize()-reserved >= queue[0].n {
				bad("sem-lost-wakeup", "after %s: head waiter #%d(%d) fits the free capacity %d but is still queued", what, queue[0].id, queue[0].n, sem.CurrentSize()-reserved)
			}
		}
		t.Repeat(map[string]func(*rapid.T){
			"acquire": func(t *rapid.T) {
				var n int64
				switch rapid.IntRange(0, 5).Draw(t, "nKind") {
				case 0:
					n = 0
				case 1:
					n = sem.CurrentSize() - reserved // exactly what is free
				case 2:
					n = max
				case 3:
					n = max + int64(rapid.IntRange(1, 3).Draw(t, "over"))
				default:
					n = int64(rapid.IntRange(1, int(max)).Draw(t, "n"))
				}
				if n < 0 {
					n = 0
				}
				a := &acq{id: nextId, n: n, done: make(chan error, 1)}
				nextId++
				cur := sem.CurrentSize()
				logf("acquire #%d(%d) [cur=%d reserved=%d queue=%d]", a.id, n, cur, reserved, len(queue))
				go func() { a.done <- sem.Acquire(n) }()
				fast := cur-reserved >= n && len(queue) == 0
				switch {
				case fast:
					select {
					case err := <-a.done:
						if err != nil {
							bad("sem-fast-acquire-error", "acquire(%d) with %d free and empty queue returned %v", n, cur-reserved, err)
						}
					case <-time.After(settle):
						bad("sem-fast-acquire-blocked", "acquire(%d) with %d free and empty queue blocked", n, cur-reserved)
					}
					reserved += n
					a.granted = true
					held = append(held, a)
				case n > max:
					select {
					case err := <-a.done:
						if err == nil {
							bad("sem-over-max-granted", "acquire(%d) above the maximum %d succeeded", n, max)
						}
						a.failed = true
					case <-time.After(settle):
						bad("sem-over-max-blocked", "acquire(%d) above the maximum %d blocks instead of failing", n, max)
					}
				default:
					// must enqueue: wait until the implementation has done so
					deadline := time.Now().Add(settle)
					for sem.QueueLength() != len(queue)+1 {
						select {
						case err := <-a.done:
							bad("sem-granted-out-of-order", "acquire #%d(%d) returned (%v) although %d waiters are queued ahead / only %d free", a.id, n, err, len(queue), cur-reserved)
						default:
						}
						if time.Now().After(deadline) {
							bad("sem-enqueue-timeout", "acquire #%d(%d) neither returned nor was enqueued", a.id, n)
						}
						time.Sleep(20 * time.Microsecond)
					}
					queue = append(queue, a)
				}
				predictAndCheck("acquire")
			},
			"release": func(t *rapid.T) {
				if len(held) == 0 {
					t.Skip("nothing held")
				}
				i := rapid.IntRange(0, len(held)-1).Draw(t, "which")
				a := held[i]
				held = append(held[:i], held[i+1:]...)
				logf("release #%d(%d)", a.id, a.n)
				before := queuedGranted
				sem.Release(a.n)
				reserved -= a.n
				predictAndCheck("release")
				if queuedGranted > before {
					updatesThatGranted++
				}
			},
			"updateActual": func(t *rapid.T) {
				n := int64(rapid.IntRange(0, int(max)+2).Draw(t, "free"))
				logf("updateActual(%d)", n)
				before := queuedGranted
				sem.UpdateActual(n)
				predictAndCheck("updateActual")
				if queuedGranted > before {
					updatesThatGranted++
				}
			},
			"updateFreeUsed": func(t *rapid.T) {
				free := int64(rapid.IntRange(0, int(max)+2).Draw(t, "free"))
				used := int64(rapid.IntRange(0, int(max)).Draw(t, "used"))
				logf("updateFreeUsed(%d,%d)", free, used)
				before := queuedGranted
				sem.UpdateFreeUsed(free, used)
				predictAndCheck("updateFreeUsed")
				if queuedGranted > before {
					updatesThatGranted++
				}
			},
			"updateSize": func(t *rapid.T) {
				n := int64(rapid.IntRange(0, int(max)).Draw(t, "size"))
				logf("updateSize(%d)", n)
				before := queuedGranted
				sem.UpdateSize(n)
				predictAndCheck("updateSize")
				if queuedGranted > before {
					updatesThatGranted++
				}
			},
		})
		// drain: restore full size and release everything; every waiter that
		// fits the limits must finish ("a pipestance whose jobs each fit the
		// limits always finishes").
		sem.UpdateSize(max)
		predictAndCheck("final updateSize(max)")
		for len(held) > 0 {
			a := held[0]
			held = held[1:]
			sem.Release(a.n)
			reserved -= a.n
			predictAndCheck("final release")
		}
		if len(queue) != 0 {
			bad("sem-stall", "%d waiters never granted although everything was released", len(queue))
		}
		stats.Case("C12", queuedGranted > 0 && updatesThatGranted > 0, stats.Digest(strings.Join(history, "|")),
			[]string{"semaphore"}, func() any {
				return map[string]any{"kind": "ResourceSemaphore", "max": max, "history": history}
			})
	})
}

// TestC12MaxJobs: MaxJobsSemaphore with real Metadata objects.
func TestC12MaxJobs(t *testing.T) {
	root := filepath.Join(workDir(t), "maxjobs")
	n := 0
	rapid.Check(t, func(t *rapid.T) {
		n++
		dir := filepath.Join(root, strconv.Itoa(n))
		defer os.RemoveAll(dir)
		limit := rapid.IntRange(1, 4).Draw(t, "limit")
		sem := core.NewMaxJobsSemaphore(limit)
		type job struct {
			id      int
			md      *core.Metadata
			done    chan bool
			waiting bool
			running bool
			ended   bool // state made Complete/Failed on disk
		}
		var jobs []*job
		var history []string
		logf := func(f string, a ...any) { history = append(history, fmt.Sprintf(f, a...)) }
		bad := func(key, f string, a ...any) {
			fail(t, "C12", key, "%s\nhistory:\n  %s", fmt.Sprintf(f, a...), strings.Join(history, "\n  "))
		}
		blockedThenRan, reattached := 0, 0
		check := func(what string) {
			// collect finished acquires
			deadline := time.Now().Add(settle)
			for {
				nrun, nwait := 0, 0
				for _, j := range jobs {
					if j.waiting {
						select {
						case ok := <-j.done:
							j.waiting = false
							if ok {
								j.running = true
								blockedThenRan++
								logf("  -> #%d acquired", j.id)
							} else {
								logf("  -> #%d refused", j.id)
							}
						default:
						}
					}
					if j.running {
						nrun++
					}
					if j.waiting && !j.ended {
						nwait++
					}
				}
				cur := sem.Current()
				if cur > limit {
					bad("maxjobs-over-limit", "after %s: %d jobs hold the semaphore, limit %d", what, cur, limit)
				}
				want := nrun + nwait
				if want > limit {
					want = limit
				}
				if nrun >= want && cur == nrun {
					return
				}
				if time.Now().After(deadline) {
					bad("maxjobs-stall", "after %s: %d running (Current()=%d), %d waiting, limit %d: a free slot was not handed to a waiter within %v", what, nrun, cur, nwait, limit, settle)
				}
				time.Sleep(50 * time.Microsecond)
			}
		}
		// jobs a previous mrp had submitted, counted again on re-attach
		// (RemoteJobManager.reattach): queued on the cluster or running
		for i, nPrev := 0, rapid.IntRange(0, limit).Draw(t, "reattached"); i < nPrev; i++ {
			id := len(jobs)
			p := filepath.Join(dir, "j"+strconv.Itoa(id))
			if err := os.MkdirAll(p, 0o755); err != nil {
				t.Fatalf("INFRA: %v", err)
			}
			md := core.NewMetadata("ID.P.S"+strconv.Itoa(id), p)
			md.WriteRaw("jobinfo", "{}")
			state := rapid.SampledFrom([]string{"queued", "running"}).Draw(t, "stateAtReattach")
			if state == "running" {
				md.WriteRaw("log", "")
			}
			logf("re-attach #%d (%s)", id, state)
			sem.Reattach(md)
			jobs = append(jobs, &job{id: id, md: md, done: make(chan bool, 1), running: true})
			reattached++
		}
		check("re-attach")
		t.Repeat(map[string]func(*rapid.T){
			"submit": func(t *rapid.T) {
				id := len(jobs)
				p := filepath.Join(dir, "j"+strconv.Itoa(id))
				if err := os.MkdirAll(p, 0o755); err != nil {
					t.Fatalf("INFRA: %v", err)
				}
				md := core.NewMetadata("ID.P.S"+strconv.Itoa(id), p)
				md.WriteRaw("jobinfo", "{}") // Queued
				j := &job{id: id, md: md, done: make(chan bool, 1), waiting: true}
				jobs = append(jobs, j)
				logf("submit #%d", id)
				go func() { j.done <- sem.Acquire(md, false) }()
				check("submit")
			},
			"finish": func(t *rapid.T) {
				var running []*job
				for _, j := range jobs {
					if j.running {
						running = append(running, j)
					}
				}
				if len(running) == 0 {
					t.Skip("none running")
				}
				j := running[rapid.IntRange(0, len(running)-1).Draw(t, "which")]
				how := rapid.SampledFrom([]string{"release", "complete+finddone", "errors+finddone"}).Draw(t, "how")
				logf("finish #%d by %s", j.id, how)
				j.running = false
				j.ended = true
				switch how {
				case "release":
					j.md.WriteRaw("complete", "")
					sem.Release(j.md)
				case "complete+finddone":
					j.md.WriteRaw("log", "")
					j.md.WriteRaw("complete", "")
					sem.FindDone()
				default:
					j.md.WriteRaw("errors", "boom")
					sem.FindDone()
				}
				check("finish")
			},
			"cancel": func(t *rapid.T) {
				// a queued job is killed while it waits for a slot: its
				// metadata leaves the Queued state.
				var waiting []*job
				for _, j := range jobs {
					if j.waiting && !j.ended {
						waiting = append(waiting, j)
					}
				}
				if len(waiting) == 0 {
					t.Skip("none waiting")
				}
				j := waiting[rapid.IntRange(0, len(waiting)-1).Draw(t, "which")]
				logf("cancel waiting #%d", j.id)
				j.ended = true
				j.md.WriteRaw("errors", "killed")
				check("cancel")
			},
			"finddone": func(t *rapid.T) {
				logf("finddone")
				sem.FindDone()
				check("finddone")
			},
		})
		// drain: finish every running job; all waiters must get through.
		for round := 0; round < len(jobs)+1; round++ {
			for _, j := range jobs {
				if j.running {
					j.running, j.ended = false, true
					j.md.WriteRaw("complete", "")
					sem.Release(j.md)
					check("drain")
				}
			}
		}
		for _, j := range jobs {
			if j.waiting && !j.ended {
				bad("maxjobs-stall", "job #%d never acquired a slot although all others finished", j.id)
			}
		}
		mcls := []string{"maxjobs"}
		if reattached > 0 {
			mcls = append(mcls, "maxjobs-reattached")
		}
		stats.Case("C12", blockedThenRan > limit, stats.Digest("maxjobs", limit, strings.Join(history, "|")), mcls, func() any {
			return map[string]any{"kind": "MaxJobsSemaphore", "limit": limit, "history": history}
		})
	})
}

// TestC12SystemReqs: request normalisation and clamping of the local job
// manager; the clamped request can always be acquired.
func TestC12SystemReqs(t *testing.T) {
	rapid.Check(t, func(t *rapid.T) {
		cores := rapid.IntRange(1, 8).Draw(t, "cores")
		mem := rapid.IntRange(1, 16).Draw(t, "memGB")
		cfg := &core.JobManagerJson{JobSettings: &core.JobManagerSettings{
			ThreadsPerJob: rapid.IntRange(1, 2).Draw(t, "threadsPerJob"),
			MemGBPerJob:   rapid.IntRange(1, 4).Draw(t, "memPerJob"),
		}}
		jm, err := core.NewLocalJobManager(cores, mem, 0, false, false, false, cfg)
		if err != nil {
			t.Fatalf("INFRA: %v", err)
		}
		genReq := func(label string, limit int) float64 {
			switch rapid.IntRange(0, 6).Draw(t, label+"Kind") {
			case 0:
				return 0
			case 1:
				return -float64(rapid.IntRange(1, 2*limit).Draw(t, label+"Neg"))
			case 2:
				return float64(limit) + float64(rapid.IntRange(1, 100).Draw(t, label+"Over"))
			case 3:
				return float64(rapid.IntRange(1, 1000).Draw(t, label+"Frac")) / 1000
			case 4:
				return float64(limit)
			case 5:
				return rapid.Float64Range(0.0001, float64(4*limit)).Draw(t, label+"F")
			default:
				return float64(rapid.IntRange(1, limit).Draw(t, label+"I"))
			}
		}
		req := core.JobResources{Threads: genReq("threads", cores), MemGB: genReq("mem", mem), VMemGB: genReq("vmem", mem)}
		got := jm.GetSystemReqs(&req)
		odd := req.Threads <= 0 || req.MemGB <= 0 || req.Threads > float64(cores) || req.MemGB > float64(mem) || req.Threads != math.Trunc(req.Threads)
		stats.Case("C12", odd, stats.Digest("reqs", cores, mem, req), []string{"systemreqs"}, func() any {
			return map[string]any{"kind": "GetSystemReqs", "cores": cores, "memGB": mem, "request": fmt.Sprintf("%+v", req), "result": fmt.Sprintf("%+v", got)}
		})
		if !(got.Threads > 0 && got.Threads <= float64(cores)) {
			fail(t, "C12", "reqs-threads-out-of-range", "request %+v with %d cores -> threads %v", req, cores, got.Threads)
		}
		if !(got.MemGB > 0 && got.MemGB <= float64(mem)) {
			fail(t, "C12", "reqs-mem-out-of-range", "request %+v with %d GB -> mem %v", req, mem, got.MemGB)
		}
		// a positive request within the limit is granted at least what it asked for
		if req.Threads > 0 && req.Threads <= float64(cores) && got.Threads < req.Threads-1e-9 {
			fail(t, "C12", "reqs-threads-reduced", "request %+v within the limit %d was reduced to %v", req, cores, got.Threads)
		}
		if req.MemGB > 0 && req.MemGB <= float64(mem) && got.MemGB < req.MemGB-1e-9 {
			fail(t, "C12", "reqs-mem-reduced", "request %+v within the limit %d was reduced to %v", req, mem, got.MemGB)
		}
		// the amounts the job manager reserves fit the semaphores
		cs := core.NewResourceSemaphore(int64(cores)*100, core.DefaultResourceFormatter("centicores"))
		ms := core.NewResourceSemaphore(int64(mem)*1024, core.DefaultResourceFormatter("MB"))
		if err := cs.Acquire(int64(math.Ceil(got.Threads * 100))); err != nil {
			fail(t, "C12", "reqs-unacquirable", "clamped threads %v cannot be acquired with %d cores: %v", got.Threads, cores, err)
		}
		if err := ms.Acquire(int64(math.Ceil(got.MemGB * 1024))); err != nil {
			fail(t, "C12", "reqs-unacquirable", "clamped memory %v cannot be acquired with %d GB: %v", got.MemGB, mem, err)
		}
	})
}
