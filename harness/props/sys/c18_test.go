package sys

import (
	"bytes"
	"encoding/hex"
	"encoding/json"
	"fmt"
	"os"
	"os/exec"
	"path/filepath"
	"strconv"
	"strings"
	"syscall"
	"testing"
	"time"
	"unicode/utf8"

	"github.com/martian-lang/martian/martian/core"
	"pgregory.net/rapid"

	"verifharness/stats"
)

// Alphabet weighted to shell metacharacters.
var shellRunes = []rune("\"'$`\\!*?[]{}()<>|&;~#=% \n\tabAZ09_-./:,@^+é世\U0001F600 �")

var shellWords = []string{
	"$HOME", "${VERIF_CANARY}", "$(echo INJ)", "`echo INJ`", "$$", "\\n", "\\\\", "\"; echo INJ; \"",
	"' || echo INJ '", "*", "~", "#c", "a b", "$VERIF_CANARY", "\\$VERIF_CANARY", "\\`", "$(", "`", "\\",
	"__MRO_CMD__", "__MRO_STDOUT__", "__MRO_MEM_GB__", "__MRO_ACCOUNT__", "__MRO_RESOURCES__", "__MRO_THREADS__",
	"__MRO_JOB_NAME__", "__MRO_VMEM_GB__", "__MRO_JOB_WORKDIR__", "\n", "-n", "-e", "=", "a=b", ">x", "2>&1", "&", "\\\n",
}

func genShellString(t *rapid.T, label string, pathSafe bool) string {
	var b strings.Builder
	n := rapid.IntRange(0, 6).Draw(t, label+"Parts")
	for i := 0; i < n; i++ {
		switch rapid.IntRange(0, 6).Draw(t, label+"Word") {
		case 0, 1:
			b.WriteString(rapid.SampledFrom(shellWords).Draw(t, label+"W"))
		case 2:
			// a run of one character (blank lines, "   ", "\\\\\\", "$$$"): text
			// processing of the finished script (squeezing, trimming) shows
			// only on repetitions.
			r := rapid.RuneFrom(shellRunes).Draw(t, label+"RunOf")
			b.WriteString(strings.Repeat(string(r), rapid.IntRange(2, 5).Draw(t, label+"RunLen")))
		default:
			b.WriteString(rapid.StringOfN(rapid.RuneFrom(shellRunes), 1, 5, -1).Draw(t, label+"R"))
		}
	}
	s := b.String()
	if pathSafe {
		// one path component: no '/', not empty, not "." or "..", bounded.
		s = strings.ReplaceAll(s, "/", "_")
		if s == "" || s == "." || s == ".." {
			s = "d" + s
		}
		if len(s) > 120 {
			s = s[:120]
			for !utf8.ValidString(s) {
				s = s[:len(s)-1]
			}
		}
	}
	return s
}

func hasMeta(s string) bool {
	return strings.ContainsAny(s, "\"'$`\\!*?[]{}()<>|&;~#=% \n\t")
}

func runSh(t *rapid.T, script string, dir string, env []string) (string, string, error) {
	cmd := exec.Command("/bin/sh")
	cmd.Stdin = strings.NewReader(script)
	cmd.Dir = dir
	cmd.Env = env
	var out, errb bytes.Buffer
	cmd.Stdout, cmd.Stderr = &out, &errb
	err := cmd.Run()
	return out.String(), errb.String(), err
}

var shEnv = []string{"PATH=/usr/bin:/bin", "VERIF_CANARY=EXPANDED", "HOME=/EXPANDEDHOME"}

// TestC18Quote: /bin/sh evaluating the quoted text recovers the bytes.
func TestC18Quote(t *testing.T) {
	dir := workDir(t)
	excludeBacktick := stats.Known("C18/unescaped-backtick")
	rapid.Check(t, func(t *rapid.T) {
		n := rapid.IntRange(1, 40).Draw(t, "n")
		strs := make([]string, n)
		var script strings.Builder
		script.WriteString("printf '%s\\0'")
		for i := range strs {
			s := genShellString(t, "s", false)
			if excludeBacktick && strings.Contains(s, "`") {
				s = strings.ReplaceAll(s, "`", "b")
				stats.Count("C18", "excluded_known", 1)
			}
			strs[i] = s
			script.WriteString(" ")
			script.WriteString(core.VerifShellSafeQuote(s))
		}
		script.WriteString("\n")
		out, errs, err := runSh(t, script.String(), dir, shEnv)
		got := strings.Split(out, "\x00")
		if len(got) > 0 && got[len(got)-1] == "" {
			got = got[:len(got)-1]
		}
		for i, s := range strs {
			meta := hasMeta(s)
			stats.Case("C18", meta, stats.Digest("quote", s), []string{"quote"}, func() any {
				return map[string]any{"kind": "quote", "string": s, "quoted": core.VerifShellSafeQuote(s)}
			})
			if i >= len(got) || got[i] != s {
				g := "<missing>"
				if i < len(got) {
					g = got[i]
				}
				key := "quote-not-recovered"
				if strings.Contains(s, "`") {
					key = "unescaped-backtick"
				}
				fail(t, "C18", key, "string %q quoted as %s evaluates to %q (sh err=%v stderr=%q)", s, core.VerifShellSafeQuote(s), g, err, errs)
			}
		}
		if err != nil || len(got) != len(strs) {
			fail(t, "C18", "quote-not-recovered", "sh failed: %v stderr=%q; %d strings in, %d out", err, errs, len(strs), len(got))
		}
	})
}

// TestC18QuoteBytes: extension class - arbitrary bytes without NUL.
func TestC18QuoteBytes(t *testing.T) {
	dir := workDir(t)
	rapid.Check(t, func(t *rapid.T) {
		n := rapid.IntRange(1, 20).Draw(t, "n")
		strs := make([]string, n)
		var script strings.Builder
		script.WriteString("printf '%s\\0'")
		for i := range strs {
			b := rapid.SliceOfN(rapid.ByteRange(1, 255), 0, 8).Draw(t, "bytes")
			if stats.Known("C18/unescaped-backtick") {
				b = bytes.ReplaceAll(b, []byte("`"), []byte("b"))
			}
			if stats.Known("C18/invalid-utf8-bytes-not-recovered") && !utf8.Valid(b) {
				// known finding: excluded by construction, keep searching
				// behind it with the valid part of the string.
				b = bytes.ToValidUTF8(b, []byte("?"))
				stats.Count("C18", "excluded_known_invalid_utf8", 1)
			}
			strs[i] = string(b)
			script.WriteString(" ")
			script.WriteString(core.VerifShellSafeQuote(strs[i]))
		}
		script.WriteString("\n")
		out, errs, err := runSh(t, script.String(), dir, shEnv)
		got := strings.Split(out, "\x00")
		for i, s := range strs {
			invalid := !utf8.ValidString(s)
			ctl := false
			for _, c := range []byte(s) {
				ctl = ctl || c < 0x20 || c == 0x7f
			}
			stats.Case("C18", invalid || ctl, stats.Digest("bytes", s), []string{"quote-bytes"}, func() any {
				return map[string]any{"kind": "quote-bytes", "hex": hex.EncodeToString([]byte(s)), "quoted": core.VerifShellSafeQuote(s)}
			})
			if i >= len(got) || got[i] != s {
				g := "<missing>"
				if i < len(got) {
					g = got[i]
				}
				key := "quote-not-recovered"
				if invalid {
					key = "invalid-utf8-bytes-not-recovered"
				} else if strings.Contains(s, "`") {
					key = "unescaped-backtick"
				}
				fail(t, "C18", key, "bytes %x quoted as %q evaluate to %x (sh err=%v stderr=%q)", s, core.VerifShellSafeQuote(s), g, err, errs)
			}
		}
	})
}

type dumpReport struct {
	Argv []string          `json:"argv"`
	Env  map[string]string `json:"env"`
	Cwd  string            `json:"cwd"`
}

func unhex(s string) string {
	b, _ := hex.DecodeString(s)
	return string(b)
}

var caseCounter int

// TestC18JobScript: the job script rendered from the shipped templates, run
// by sh, starts the program with exactly the generated argv / environment
// and redirects to exactly the generated paths.
func TestC18JobScript(t *testing.T) {
	root := workDir(t)
	dumpargs := filepath.Join(os.Getenv("VERIF_MROOT"), "bin", "dumpargs")
	if _, err := os.Stat(dumpargs); err != nil {
		t.Fatalf("INFRA: dumpargs binary not built: %v", err)
	}
	repo := os.Getenv("VERIF_REPO")
	if repo == "" {
		repo = "/repo"
	}
	templates := map[string]string{}
	for _, name := range []string{"fake_remote", "sge", "lsf"} {
		b, err := os.ReadFile(filepath.Join(repo, "jobmanagers", name+".template"))
		if err != nil {
			t.Fatalf("INFRA: %v", err)
		}
		templates[name] = string(b)
	}
	excludeBacktick := stats.Known("C18/unescaped-backtick")
	gen := func(t *rapid.T, label string, pathSafe bool) string {
		s := genShellString(t, label, pathSafe)
		if excludeBacktick && strings.Contains(s, "`") {
			s = strings.ReplaceAll(s, "`", "b")
			stats.Count("C18", "excluded_known", 1)
		}
		return s
	}
	rapid.Check(t, func(t *rapid.T) {
		caseCounter++
		caseDir := filepath.Join(root, "js"+strconv.Itoa(caseCounter))
		defer os.RemoveAll(caseDir)
		tname := rapid.SampledFrom([]string{"fake_remote", "fake_remote", "sge", "lsf"}).Draw(t, "template")
		progName := gen(t, "progDir", true)
		if tname == "fake_remote" && strings.Contains(progName, "=") {
			// fake_remote.template starts the command through /usr/bin/env,
			// which (not the shell) reads a leading word containing '=' as
			// an assignment; outside the statement (shell evaluation).
			progName = strings.ReplaceAll(progName, "=", "_")
			stats.Count("C18", "domain_env_equals_in_program_path", 1)
		}
		progDir := filepath.Join(caseDir, progName)
		mdName := gen(t, "mdDir", true)
		if tname != "fake_remote" && strings.Contains(mdName, "\n") && stats.Known("C18/newline-in-directive-path") {
			mdName = strings.ReplaceAll(mdName, "\n", "N")
			stats.Count("C18", "excluded_known_newline_in_directive_path", 1)
		}
		mdPath := filepath.Join(caseDir, mdName)
		if err := os.MkdirAll(progDir, 0o755); err != nil {
			t.Fatalf("INFRA: %v", err)
		}
		if err := os.MkdirAll(filepath.Join(mdPath, "files"), 0o755); err != nil {
			t.Fatalf("INFRA: %v", err)
		}
		prog := filepath.Join(progDir, "dumpargs")
		if err := os.Symlink(dumpargs, prog); err != nil {
			t.Fatalf("INFRA: %v", err)
		}
		nargs := rapid.IntRange(0, 4).Draw(t, "nargs")
		argv := make([]string, nargs)
		for i := range argv {
			argv[i] = gen(t, "arg", false)
		}
		nenv := rapid.IntRange(0, 3).Draw(t, "nenv")
		envs := map[string]string{}
		for i := 0; i < nenv; i++ {
			envs["VERIF_E"+strconv.Itoa(i)] = gen(t, "env", false)
		}
		res := core.JobResources{
			Threads: float64(rapid.IntRange(1, 4).Draw(t, "threads")),
			MemGB:   float64(rapid.IntRange(1, 9).Draw(t, "mem")),
		}
		script := core.VerifJobScript(templates[tname], prog, argv, envs, mdPath, res, "ID.pipe.STAGE.fork0", "main")
		reportPath := filepath.Join(caseDir, "report.json")
		env := append(append([]string{}, shEnv...), "DUMPARGS_OUT="+reportPath)
		out, errs, err := runSh(t, script, filepath.Join(mdPath, "files"), env)
		if tname == "fake_remote" {
			// the template starts the job in the background and prints its pid.
			if pid, perr := strconv.Atoi(strings.TrimSpace(out)); perr == nil && pid > 1 {
				for i := 0; i < 3000 && syscall.Kill(pid, 0) == nil; i++ {
					if _, serr := os.Stat(reportPath); serr == nil {
						break
					}
					time.Sleep(time.Millisecond)
				}
			}
		}
		all := append([]string{prog, mdPath}, argv...)
		for _, v := range envs {
			all = append(all, v)
		}
		meta := false
		for _, s := range all {
			meta = meta || hasMeta(filepath.Base(s))
		}
		stats.Case("C18", meta, stats.Digest("script", script), []string{"script:" + tname}, func() any {
			return map[string]any{"kind": "jobscript", "template": tname, "script": stats.Trunc(script, 1200)}
		})
		describe := func() string {
			return fmt.Sprintf("template=%s prog=%q argv=%q envs=%q mdPath=%q\nscript:\n%s\nsh: err=%v stdout=%q stderr=%q", tname, prog, argv, envs, mdPath, script, err, out, errs)
		}
		keyFor := func(def string) string {
			if tname != "fake_remote" && strings.Contains(mdPath, "\n") {
				// #$ -o / #BSUB -o directive comment lines cannot hold a newline
				return "newline-in-directive-path"
			}
			if strings.Contains(strings.Join(all, ""), "`") {
				return "unescaped-backtick"
			}
			return def
		}
		b, rerr := os.ReadFile(reportPath)
		if rerr != nil {
			fail(t, "C18", keyFor("jobscript-program-not-run"), "the program was not started as intended (no report): %v\n%s", rerr, describe())
		}
		var rep dumpReport
		if jerr := json.Unmarshal(b, &rep); jerr != nil {
			t.Fatalf("INFRA: bad report %q: %v", b, jerr)
		}
		gotArgv := make([]string, len(rep.Argv))
		for i, a := range rep.Argv {
			gotArgv[i] = unhex(a)
		}
		wantArgv := append([]string{prog}, argv...)
		if fmt.Sprintf("%q", gotArgv) != fmt.Sprintf("%q", wantArgv) {
			fail(t, "C18", keyFor("jobscript-argv-differs"), "argv: got %q want %q\n%s", gotArgv, wantArgv, describe())
		}
		for k, v := range envs {
			if g, ok := rep.Env[k]; !ok || unhex(g) != v {
				fail(t, "C18", keyFor("jobscript-env-differs"), "env %s: got %q want %q\n%s", k, unhex(g), v, describe())
			}
		}
		if len(rep.Env) != len(envs) {
			fail(t, "C18", keyFor("jobscript-env-differs"), "env: got %d VERIF_E variables, want %d\n%s", len(rep.Env), len(envs), describe())
		}
		if tname == "fake_remote" {
			so, _ := os.ReadFile(filepath.Join(mdPath, "_stdout"))
			se, _ := os.ReadFile(filepath.Join(mdPath, "_stderr"))
			if string(so) != "DUMPARGS-STDOUT-TOKEN" || string(se) != "DUMPARGS-STDERR-TOKEN" {
				fail(t, "C18", keyFor("jobscript-redirect-differs"), "stdout/stderr files: %q / %q\n%s", so, se, describe())
			}
		}
		// nothing else may have been created next to the case files
		// (an injected command or a mangled redirection leaves debris).
		for _, d := range []string{caseDir, mdPath, filepath.Join(mdPath, "files"), progDir} {
			ents, _ := os.ReadDir(d)
			for _, e := range ents {
				switch filepath.Join(d, e.Name()) {
				case progDir, mdPath, reportPath, prog, filepath.Join(mdPath, "files"),
					filepath.Join(mdPath, "_stdout"), filepath.Join(mdPath, "_stderr"):
				default:
					fail(t, "C18", keyFor("jobscript-stray-file"), "unexpected file %q created\n%s", filepath.Join(d, e.Name()), describe())
				}
			}
		}
	})
}

// Reproducers for the findings listed as known in known_findings.json: they
// print KNOWN-PRESENT while the defect is still there.
func TestC18KnownInvalidUTF8(t *testing.T) {
	s := "a\xbfb"
	cmd := exec.Command("/bin/sh")
	cmd.Stdin = strings.NewReader("printf '%s' " + core.VerifShellSafeQuote(s) + "\n")
	out, _ := cmd.Output()
	if string(out) != s {
		fmt.Printf("KNOWN-PRESENT C18/invalid-utf8-bytes-not-recovered: %q quoted as %s evaluates to %q\n", s, core.VerifShellSafeQuote(s), out)
	}
}

func TestC18KnownNewlineDirective(t *testing.T) {
	repo := os.Getenv("VERIF_REPO")
	if repo == "" {
		repo = "/repo"
	}
	present := false
	for _, name := range []string{"sge", "lsf"} {
		b, err := os.ReadFile(filepath.Join(repo, "jobmanagers", name+".template"))
		if err != nil {
			t.Fatalf("INFRA: %v", err)
		}
		script := core.VerifJobScript(string(b), "/bin/true", nil, nil, "/tmp/verif-nonexistent/a\necho INJECTED-BY-PATH #", core.JobResources{Threads: 1, MemGB: 1}, "ID.P.S.fork0", "main")
		cmd := exec.Command("/bin/sh")
		cmd.Stdin = strings.NewReader(script)
		out, _ := cmd.CombinedOutput()
		if strings.Contains(string(out), "INJECTED-BY-PATH") {
			present = true
		}
	}
	if present {
		fmt.Println("KNOWN-PRESENT C18/newline-in-directive-path")
	}
}
