package sys

import (
	"fmt"
	"os"
	"testing"

	"pgregory.net/rapid"

	"verifharness/stats"
)

func TestMain(m *testing.M) {
	code := m.Run()
	stats.Flush()
	os.Exit(code)
}

func fail(t *rapid.T, prop, key, format string, args ...any) {
	t.Helper()
	t.Fatalf("VKEY=%s/%s %s", prop, key, fmt.Sprintf(format, args...))
}

// workDir returns a scratch directory for this process.
func workDir(t interface{ Fatalf(string, ...any) }) string {
	w := os.Getenv("VERIF_WORK")
	if w == "" {
		w = "/tmp/verif-work-dev"
	}
	if err := os.MkdirAll(w, 0o755); err != nil {
		t.Fatalf("INFRA: %v", err)
	}
	return w
}
