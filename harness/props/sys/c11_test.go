package sys

import (
	"fmt"
	"strconv"
	"strings"
	"testing"

	"github.com/martian-lang/martian/martian/core"
	"pgregory.net/rapid"

	"verifharness/stats"
)

var c11Runes = []rune("abzAZ09 _-.~!&'()*+,;=:@/%#?[]{}<>|\\\"`^$éß世\U0001F600 \t\n\u0001\u007f")
var c11Pool = []string{"", ".", "..", "a.b", "a/b", "/", "50%", "%2E", "%2F", "%252E", "fork0", "fork_0", "_", "0", "1", "10", "01",
	"chnk0", ".chnk1", "x.u0123456789", ".u0123456789", "split", ".split_complete", "complete", ".complete",
	"a.fork1.chnk2.u0123456789.complete", "k.fork_z", "é", "é", "tab\t", "nl\n"}

// TestC11Names: distinct keys give distinct fork directory names and
// distinct journal names, and the journal file name written for
// (node, fork, chunk, attempt, file) parses back to exactly those parts.
func TestC11Names(t *testing.T) {
	rapid.Check(t, func(t *rapid.T) {
		n := rapid.IntRange(2, 8).Draw(t, "nKeys")
		var keys []string
		seen := map[string]bool{}
		for len(keys) < n {
			var k string
			if rapid.Bool().Draw(t, "pool") {
				k = rapid.SampledFrom(c11Pool).Draw(t, "key")
			} else {
				k = rapid.StringOfN(rapid.RuneFrom(c11Runes), 0, 16, 80).Draw(t, "key")
			}
			if !seen[k] {
				seen[k] = true
				keys = append(keys, k)
			}
		}
		node := rapid.SampledFrom([]string{"TOP.ST", "TOP.P1.P2.STAGE_A", "A", "TOP.fork.X", "P.chnk0.S"}).Draw(t, "node")
		dirs := map[string]string{}
		jnames := map[string]string{}
		hostile := false
		for _, k := range keys {
			if strings.ContainsAny(k, "./% ") || k == "" {
				hostile = true
			}
			d := core.VerifMapForkName(k)
			j := core.VerifJournalForkName(d)
			if o, dup := dirs[d]; dup {
				fail(t, "C11", "fork-dir-collision", "keys %q and %q get the same fork directory %q", o, k, d)
			}
			if o, dup := jnames[j]; dup {
				fail(t, "C11", "journal-name-collision", "keys %q and %q get the same journal name %q", o, k, j)
			}
			dirs[d], jnames[j] = k, k
			if strings.ContainsAny(d, "/") || d == "." || d == ".." || len(d) == 0 {
				fail(t, "C11", "fork-dir-not-a-file-name", "key %q gives fork directory name %q", k, d)
			}
			// round trip of every kind of journal file
			chunk := rapid.SampledFrom([]int{-1, 0, 9, 10, 99, 100}).Draw(t, "chunk")
			uniq := rapid.SampledFrom([]string{"", "0123456789", "abcdef0123", "ffffffffff"}).Draw(t, "uniq")
			file := rapid.SampledFrom([]string{"complete", "errors", "log", "progress", "split_complete", "join_complete", "split_errors", "jobinfo", "stdout", "assert", "join_log"}).Draw(t, "file")
			name := node + "." + j
			if chunk >= 0 {
				name += ".chnk" + strconv.Itoa(chunk)
			}
			if uniq != "" {
				name += ".u" + uniq
			}
			name += "." + file
			fq, fork, ci, u, st := core.VerifParseRunFilename(name)
			want := strings.TrimPrefix(j, "fork")
			if fq != node || fork != want || ci != chunk || u != uniq || st != file {
				fail(t, "C11", "journal-name-misparsed", "journal file %q written for node=%q fork=%q (key %q) chunk=%d attempt=%q file=%q parses as node=%q fork=%q chunk=%d attempt=%q file=%q",
					name, node, want, k, chunk, uniq, file, fq, fork, ci, u, st)
			}
			if _, err := strconv.Atoi(fork); err == nil {
				fail(t, "C11", "map-fork-looks-like-array-index", "key %q: journal fork part %q would be taken for an array index", k, fork)
			}
		}
		stats.Case("C11", hostile, stats.Digest("names", node, fmt.Sprint(keys)), []string{"names"}, func() any {
			var ds []string
			for _, k := range keys {
				ds = append(ds, core.VerifMapForkName(k))
			}
			return map[string]any{"kind": "names", "keys": keys, "fork_dirs": ds}
		})
	})
}
