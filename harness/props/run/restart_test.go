//go:build verif

package run

import (
	"fmt"
	"os"
	"os/exec"
	"path/filepath"
	"regexp"
	"sort"
	"strings"
	"testing"

	"github.com/martian-lang/martian/martian/core"
	"pgregory.net/rapid"

	"verifharness/jsonx"
	"verifharness/mrogen"
	"verifharness/refsem"
	"verifharness/simrun"
	"verifharness/stagefn"
	"verifharness/stats"
)

func restartCfg() *mrogen.ProgCfg {
	c := semCfg()
	c.MaxStages, c.MaxCalls = 3, 3
	return c
}

// newCase prepares a runCase for the interruption and fault tests.
func newCase(t *rapid.T, root, tag string, prog *mrogen.Program, prop string) (*runCase, *modelIndex, string, func()) {
	caseSeq++
	dir := filepath.Join(root, fmt.Sprintf("%s%d-%d", tag, os.Getpid(), caseSeq))
	cleanup := func() {
		if os.Getenv("VERIF_KEEP") == "" {
			os.RemoveAll(dir)
		}
	}
	src := prog.Source(nil)
	opts := simrun.Options{StageOpts: stagefn.Opts{NullPct: rapid.SampledFrom([]int{0, 0, 5}).Draw(t, "outNullPct")}}
	model := refsem.Eval(prog, &opts.StageOpts)
	if model.Unsupported != "" || len(model.Jobs) > 60 || len(model.Jobs) < 2 {
		stats.Count(prop, "model_declined_or_size", 1)
		cleanup()
		return nil, nil, "", nil
	}
	sim, err := simrun.New(prog, src, dir, opts)
	if err != nil {
		cleanup()
		t.Fatalf("GENERATOR: the program cannot be invoked: %v\n%s", err, src)
	}
	rc := &runCase{prog: prog, src: src, model: model, sim: sim}
	ix := indexModel(model)
	ix.trueDeps = refsem.TrueDeps(prog, &opts.StageOpts, model)
	return rc, ix, dir, func() {
		rc.sim.Close()
		cleanup()
	}
}

func finalOutsCheck(t *rapid.T, rc *runCase, prop string) {
	outs, err := rc.sim.TopOuts()
	if err != nil {
		fail(t, prop, "top-outs-unreadable", "%v\n%s", err, rc.describe())
	}
	if ok, d := refsem.EqualSoft(rc.model.Outs, outs, "outs"); !ok {
		fail(t, prop, "final-outputs-differ", "after the restart the final outputs are not those of an undisturbed run: %s\n  recorded: %s\n  expected: %s\n%s", d, jsonx.Marshal(outs), jsonx.Marshal(refsem.Concretize(rc.model.Outs)), rc.describe())
	}
}

// reattach replaces rc.sim by a re-attached one that knows the finished and
// the surviving jobs of the old one.
func (rc *runCase) reattach(t *rapid.T, prop string, survivors []*simrun.Job) {
	old := rc.sim
	ns, err := simrun.Reattach(old)
	if err != nil {
		fail(t, prop, "reattach-refused", "restarting on the same directory with the same invocation failed: %v\n%s", err, rc.describe())
	}
	keep := map[*simrun.Job]bool{}
	for _, j := range survivors {
		keep[j] = true
	}
	for _, j := range old.Jobs {
		if j.Done || keep[j] {
			ns.Jobs = append(ns.Jobs, j)
		}
	}
	rc.sim = ns
	rc.seen = len(ns.Jobs)
}

// incompleteForks lists fork directories with neither _complete nor
// _disabled (diagnostics).
func incompleteForks(psDir string) string {
	var r []string
	if keep := os.Getenv("VERIF_KEEP_FAIL"); keep != "" {
		exec.Command("cp", "-r", psDir, fmt.Sprintf("%s/ps-%d-%d", keep, os.Getpid(), caseSeq)).Run()
	}
	filepath.Walk(psDir, func(p string, fi os.FileInfo, err error) error {
		if err == nil && fi.IsDir() && strings.HasPrefix(fi.Name(), "fork") {
			_, e1 := os.Stat(filepath.Join(p, "_complete"))
			_, e2 := os.Stat(filepath.Join(p, "_disabled"))
			if e1 != nil && e2 != nil {
				ents, _ := os.ReadDir(p)
				var names []string
				for _, e := range ents {
					names = append(names, e.Name())
				}
				r = append(r, strings.TrimPrefix(p, psDir)+": "+strings.Join(names, " "))
			}
			return filepath.SkipDir
		}
		return nil
	})
	return strings.Join(r, "\n  ")
}

// referenceRun runs the program undisturbed (every pending job finishes, in
// submission order, between scheduler rounds), performs the final cleanup and
// returns the top-level outputs record.
func referenceRun(prog *mrogen.Program, src, dir string, opts simrun.Options) (*jsonx.Obj, error) {
	defer os.RemoveAll(dir)
	sim, err := simrun.New(prog, src, dir, opts)
	if err != nil {
		return nil, err
	}
	defer sim.Close()
	for i := 0; i < 3000; i++ {
		sim.Refresh()
		st := sim.State()
		if st == core.Complete || st == core.DisabledState {
			sim.Cleanup()
			return sim.TopOuts()
		}
		if st == core.Failed {
			return nil, fmt.Errorf("reference run failed: %s", sim.FatalError())
		}
		sim.Step()
		for _, j := range sim.Pending() {
			if err := sim.Finish(j); err != nil {
				return nil, err
			}
		}
	}
	return nil, fmt.Errorf("reference run did not finish")
}

var uniqSuffixRe = regexp.MustCompile(`-u[0-9a-f]{8,12}`)

// normPaths makes records of two runs comparable: the pipestance directory
// and the per-attempt suffixes of job directories are replaced.
func normPaths(v any, psDir string) any {
	switch x := v.(type) {
	case string:
		if strings.HasPrefix(x, psDir) {
			return "<ps>" + uniqSuffixRe.ReplaceAllString(strings.TrimPrefix(x, psDir), "-u*")
		}
		return x
	case []any:
		r := make([]any, len(x))
		for i, e := range x {
			r[i] = normPaths(e, psDir)
		}
		return r
	case *jsonx.Obj:
		r := jsonx.NewObj()
		for i, k := range x.Keys {
			r.Set(k, normPaths(x.Vals[i], psDir))
		}
		return r
	}
	return v
}

// TestInterrupt: C05 on the in-process engine.  At generated moments the
// Pipestance object is abandoned the way a killed mrp leaves things (jobs
// queued, running with a dead process, dead after writing their outputs,
// finished without mrp having noticed, or still alive), the stale lock is
// removed, and a new Pipestance is attached to the directory.
func TestInterrupt(t *testing.T) {
	root := workRoot(t)
	// whatever goes wrong in a run that was interrupted is a C05 matter
	// (stalls, wrong arguments after the restart, ...)
	propOverride = "C05"
	defer func() { propOverride = "" }()
	rapid.Check(t, func(t *rapid.T) {
		defer func() {
			if p := recover(); p != nil {
				if _, ok := p.(surveySkip); !ok {
					panic(p)
				}
			}
		}()
		prog := mrogen.GenProgram(t, restartCfg())
		for k := range excluded {
			delete(excluded, k)
		}
		rc, ix, _, done := newCase(t, root, "intr", prog, "C05")
		if rc == nil {
			return
		}
		defer done()
		rc.persist = "C05/mrp-aborts-after-restart"
		defer stats.InflightDone()
		maxCrashes := rapid.IntRange(1, 3).Draw(t, "crashes")
		crashes := 0
		completedBefore := map[string]bool{}
		fates := map[string]int{}
		inside := false
		rc.onSubmit = func(j *simrun.Job) {
			if completedBefore[j.Identity()] {
				fail(t, "C05", "completed-job-executed-again", "job %s is executed again although its completion had been recorded before the interruption\n%s", j, rc.describe())
			}
		}
		rc.intervene = func() core.MetadataState {
			if crashes >= maxCrashes || rapid.IntRange(0, 2).Draw(t, "crashNow") != 0 {
				return ""
			}
			sim := rc.sim
			pending := sim.Pending()
			nDone := 0
			for _, j := range sim.Jobs {
				if j.Done {
					nDone++
				}
			}
			if nDone == 0 && len(pending) == 0 {
				return ""
			}
			crashes++
			if nDone > 0 && len(pending) > 0 {
				inside = true
			}
			var survivors []*simrun.Job
			for _, j := range pending {
				fate := rapid.SampledFrom([]string{"queued", "dead-running", "dead-after-outs", "killed-with-error", "finished-unnoticed", "alive"}).Draw(t, "fate")
				if j.Started && fate == "queued" {
					fate = "alive"
				}
				fates[fate]++
				rc.logf("interrupt: %s is %s", j, fate)
				var err error
				switch fate {
				case "dead-running":
					err = sim.StartWithPid(j, simrun.DeadPid())
				case "dead-after-outs":
					if err = sim.StartWithPid(j, simrun.DeadPid()); err == nil {
						var outs *jsonx.Obj
						if outs, err = sim.Compute(j); err == nil {
							err = sim.WriteOuts(j, outs)
						}
					}
				case "killed-with-error":
					// a handled signal: the job monitor was terminated with
					// mrp and recorded that in _errors
					if !j.Started {
						err = sim.StartWithPid(j, simrun.DeadPid())
					}
					if err == nil {
						err = sim.Fail(j, "errors", "signal: terminated")
					}
				case "finished-unnoticed":
					if !j.Started {
						err = sim.StartWithPid(j, simrun.DeadPid())
					}
					if err == nil {
						var outs *jsonx.Obj
						if outs, err = sim.Compute(j); err == nil {
							if err = sim.WriteOuts(j, outs); err == nil {
								err = sim.MarkComplete(j)
							}
						}
					}
				case "alive":
					if !j.Started {
						err = sim.StartWithPid(j, os.Getpid())
					}
					survivors = append(survivors, j)
				}
				if err != nil {
					t.Fatalf("INFRA: %v", err)
				}
			}
			for _, j := range sim.Jobs {
				if j.Done {
					completedBefore[j.Identity()] = true
				}
			}
			rc.logf("interrupt #%d: mrp is gone (%d jobs finished, %d pending); stale lock removed, restarting", crashes, nDone, len(pending))
			if !sim.Locked() {
				fail(t, "C05", "not-locked-while-running", "the pipestance directory holds no _lock while a pipestance object is attached\n%s", rc.describe())
			}
			sim.RemoveLock()
			rc.reattach(t, "C05", survivors)
			return ""
		}
		st := rc.drive(t, ix)
		if st != core.Complete && st != core.DisabledState {
			fail(t, "C05", "restart-does-not-complete", "after %d interruption(s) the pipestance ends %q: %s\n%s", crashes, st, rc.sim.FatalError(), rc.describe())
		}
		finalOutsCheck(t, rc, "C05")
		// interruption between / after the final cleanup passes: the record
		// left behind must be the one an undisturbed run leaves
		switch rapid.SampledFrom([]string{"none", "after-vdr", "after-postprocess"}).Draw(t, "crashDuringCleanup") {
		case "after-vdr":
			rc.sim.FinalVDR()
			rc.logf("interrupt: mrp is gone after the final VDR pass")
			rc.sim.RemoveLock()
			rc.reattach(t, "C05", nil)
			// (forks of disabled map calls may only be expanded now: the
			// scheduler needs a few rounds, but must not run any job)
			crashes = maxCrashes
			if st := rc.drive(t, ix); st != core.Complete && st != core.DisabledState {
				fail(t, "C05", "complete-pipestance-not-complete-after-restart", "state %q; forks without _complete:\n  %s\n%s", st, incompleteForks(rc.sim.Dir), rc.describe())
			}
			fates["during-cleanup"]++
		case "after-postprocess":
			rc.sim.FinalVDR()
			rc.sim.PS.PostProcess()
			rc.logf("interrupt: mrp is gone after post-processing")
			rc.sim.RemoveLock()
			rc.reattach(t, "C05", nil)
			// (forks of disabled map calls may only be expanded now: the
			// scheduler needs a few rounds, but must not run any job)
			crashes = maxCrashes
			if st := rc.drive(t, ix); st != core.Complete && st != core.DisabledState {
				fail(t, "C05", "complete-pipestance-not-complete-after-restart", "state %q; forks without _complete:\n  %s\n%s", st, incompleteForks(rc.sim.Dir), rc.describe())
			}
			fates["after-cleanup"]++
		}
		rc.sim.Cleanup()
		post, err := rc.sim.TopOuts()
		if err != nil {
			fail(t, "C05", "top-outs-unreadable", "after the final cleanup: %v\n%s", err, rc.describe())
		}
		ref, err := referenceRun(prog, rc.src, rc.sim.Dir+"-ref", rc.sim.Opts)
		if err != nil {
			t.Fatalf("INFRA: reference run: %v", err)
		}
		if a, b := normPaths(post, rc.sim.Dir), normPaths(ref, rc.sim.Dir+"-ref/ps"); !jsonx.Equal(a, b, true) {
			fail(t, "C05", "final-record-differs", "the outputs record left after the final cleanup differs from that of an undisturbed run\n  interrupted: %s\n  undisturbed: %s\n%s", jsonx.Marshal(a), jsonx.Marshal(b), rc.describe())
		}
		var cl []string
		for f := range fates {
			cl = append(cl, "fate:"+f)
		}
		sort.Strings(cl)
		cl = append(cl, fmt.Sprintf("interruptions:%d", crashes))
		if inside {
			cl = append(cl, "inside-run")
		}
		stats.Case("C05", inside, stats.Digest(rc.src, strings.Join(rc.history, "|")), cl, func() any {
			return map[string]any{"program": stats.Trunc(rc.src, 1200), "interruptions": crashes, "schedule": stats.Trunc(strings.Join(rc.history, "; "), 800)}
		})
	})
}
