//go:build verif

package run

import (
	"context"
	"encoding/json"
	"fmt"
	"os"
	"os/exec"
	"path/filepath"
	"regexp"
	"runtime"
	"sort"
	"strings"
	"testing"
	"time"

	"github.com/martian-lang/martian/martian/core"
	"pgregory.net/rapid"

	"verifharness/jsonx"
	"verifharness/mrogen"
	"verifharness/refsem"
	"verifharness/simrun"
	"verifharness/stagefn"
	"verifharness/stats"
)

func restartCfg() *mrogen.ProgCfg {
	c := semCfg()
	c.MaxStages, c.MaxCalls = 3, 3
	return c
}

// newCase prepares a runCase for the interruption and fault tests.
func newCase(t *rapid.T, root, tag string, prog *mrogen.Program, prop string) (*runCase, *modelIndex, string, func()) {
	caseSeq++
	dir := filepath.Join(root, fmt.Sprintf("%s%d-%d", tag, os.Getpid(), caseSeq))
	cleanup := func() {
		if os.Getenv("VERIF_KEEP") == "" {
			os.RemoveAll(dir)
		}
	}
	src := prog.Source(runLayout(t))
	opts := simrun.Options{StageOpts: stagefn.Opts{NullPct: rapid.SampledFrom([]int{0, 0, 5}).Draw(t, "outNullPct")}}
	model := refsem.Eval(prog, &opts.StageOpts)
	if model.Unsupported != "" || len(model.Jobs) > 60 || len(model.Jobs) < 2 {
		stats.Count(prop, "model_declined_or_size", 1)
		cleanup()
		return nil, nil, "", nil
	}
	sim, err := simrun.New(prog, src, dir, opts)
	if err != nil {
		cleanup()
		t.Fatalf("GENERATOR: the program cannot be invoked: %v\n%s", err, src)
	}
	rc := &runCase{prog: prog, src: src, model: model, sim: sim, baseG: runtime.NumGoroutine()}
	ix := indexModel(model)
	ix.trueDeps = refsem.TrueDeps(prog, &opts.StageOpts, model)
	return rc, ix, dir, func() {
		rc.sim.Close()
		cleanup()
	}
}

func finalOutsCheck(t *rapid.T, rc *runCase, prop string) {
	outs, err := rc.sim.TopOuts()
	if err != nil {
		fail(t, prop, "top-outs-unreadable", "%v\n%s", err, rc.describe())
	}
	if ok, d := refsem.EqualSoft(rc.model.Outs, outs, "outs"); !ok && !skipTopOuts {
		fail(t, prop, "final-outputs-differ", "after the restart the final outputs are not those of an undisturbed run: %s\n  recorded: %s\n  expected: %s\n%s", d, jsonx.Marshal(outs), jsonx.Marshal(refsem.Concretize(rc.model.Outs)), rc.describe())
	}
}

// minGoroutines: the lowest number of goroutines seen in this process while
// waiting for an abandoned Pipestance to fall silent (the level at which only
// the test and the cached Runtime are alive).
var minGoroutines = 1 << 30

// reattach replaces rc.sim by a re-attached one that knows the finished and
// the surviving jobs of the old one.
func (rc *runCase) reattach(t *rapid.T, prop string, survivors []*simrun.Job) {
	old := rc.sim
	// the abandoned Pipestance object stands for a dead process: let the
	// goroutines it started (asynchronous VDR passes) run out before anything
	// else touches the directory
	waited, stable := 0, 0
	for ; waited < 150 && stable < 3; waited++ {
		runtime.Gosched()
		time.Sleep(time.Millisecond)
		n := runtime.NumGoroutine()
		switch {
		case n < minGoroutines:
			minGoroutines, stable = n, 0
		case n == minGoroutines:
			stable++
		default:
			stable = 0
		}
	}
	stats.Count(prop, "reattach_wait_ms", int64(waited))
	ns, err := simrun.Reattach(old)
	if err != nil {
		fail(t, prop, "reattach-refused", "restarting on the same directory with the same invocation failed: %v\n%s", err, rc.describe())
	}
	keep := map[*simrun.Job]bool{}
	for _, j := range survivors {
		keep[j] = true
	}
	for _, j := range old.Jobs {
		if j.Done || keep[j] {
			ns.Jobs = append(ns.Jobs, j)
		}
	}
	rc.sim = ns
	rc.seen = len(ns.Jobs)
}

// incompleteForks lists fork directories with neither _complete nor
// _disabled (diagnostics).
func incompleteForks(psDir string) string {
	var r []string
	if keep := os.Getenv("VERIF_KEEP_FAIL"); keep != "" {
		exec.Command("cp", "-r", psDir, fmt.Sprintf("%s/ps-%d-%d", keep, os.Getpid(), caseSeq)).Run()
	}
	filepath.Walk(psDir, func(p string, fi os.FileInfo, err error) error {
		if err == nil && fi.IsDir() && strings.HasPrefix(fi.Name(), "fork") {
			_, e1 := os.Stat(filepath.Join(p, "_complete"))
			_, e2 := os.Stat(filepath.Join(p, "_disabled"))
			if e1 != nil && e2 != nil {
				ents, _ := os.ReadDir(p)
				var names []string
				for _, e := range ents {
					names = append(names, e.Name())
				}
				r = append(r, strings.TrimPrefix(p, psDir)+": "+strings.Join(names, " "))
			}
			return filepath.SkipDir
		}
		return nil
	})
	return strings.Join(r, "\n  ")
}

// referenceRun runs the program undisturbed (every pending job finishes, in
// submission order, between scheduler rounds), performs the final cleanup and
// returns the top-level outputs record.
func referenceRun(prog *mrogen.Program, src, dir string, opts simrun.Options) (*jsonx.Obj, error) {
	defer os.RemoveAll(dir)
	sim, err := simrun.New(prog, src, dir, opts)
	if err != nil {
		return nil, err
	}
	defer sim.Close()
	for i := 0; i < 3000; i++ {
		sim.Refresh()
		st := sim.State()
		if st == core.Complete || st == core.DisabledState {
			sim.Cleanup()
			return sim.TopOuts()
		}
		if st == core.Failed {
			return nil, fmt.Errorf("reference run failed: %s", sim.FatalError())
		}
		sim.Step()
		for _, j := range sim.Pending() {
			if err := sim.Finish(j); err != nil {
				return nil, err
			}
		}
	}
	return nil, fmt.Errorf("reference run did not finish")
}

var uniqSuffixRe = regexp.MustCompile(`-u[0-9a-f]{8,12}`)

// normPaths makes records of two runs comparable: the pipestance directory
// and the per-attempt suffixes of job directories are replaced.
func normPaths(v any, psDir string) any {
	switch x := v.(type) {
	case string:
		if strings.HasPrefix(x, psDir) {
			return "<ps>" + uniqSuffixRe.ReplaceAllString(strings.TrimPrefix(x, psDir), "-u*")
		}
		return x
	case []any:
		r := make([]any, len(x))
		for i, e := range x {
			r[i] = normPaths(e, psDir)
		}
		return r
	case *jsonx.Obj:
		r := jsonx.NewObj()
		for i, k := range x.Keys {
			r.Set(k, normPaths(x.Vals[i], psDir))
		}
		return r
	}
	return v
}

// TestInterrupt: C05 on the in-process engine.  At generated moments the
// Pipestance object is abandoned the way a killed mrp leaves things (jobs
// queued, running with a dead process, dead after writing their outputs,
// finished without mrp having noticed, or still alive), the stale lock is
// removed, and a new Pipestance is attached to the directory.
func TestInterrupt(t *testing.T) {
	interruptTest(t, "C05", []string{"queued", "dead-running", "dead-after-outs", "killed-with-error", "finished-unnoticed", "alive", "alive-after-outs"})
}

// TestInterruptOrder: C02 across restarts - the start-order invariants
// (dependencies finished, split < chunks < join, preflights) are checked at
// every job start of runs that are interrupted while jobs are in flight, in
// particular jobs that are still alive and have written their outputs (a
// split job its _stage_defs) but not yet their completion marker, and jobs
// of an attempt that was given up and re-run which report their completion
// after all (it must not count for the attempt that is running now).
func TestInterruptOrder(t *testing.T) {
	interruptTest(t, "C02", []string{"alive-after-outs", "alive-after-outs", "alive", "finished-unnoticed", "dead-after-outs", "queued", "zombie"})
}

// TestStaleAttempt: C11 - a job whose attempt was reset at a restart is still
// alive after all and reports its completion later, under the journal name of
// the old attempt; that notification must not count for the new attempt.
func TestStaleAttempt(t *testing.T) {
	interruptTest(t, "C11", []string{"zombie", "zombie", "dead-running", "finished-unnoticed", "queued"})
}

func interruptTest(t *testing.T, PROP string, fateChoices []string) {
	interruptTestWith(t, PROP, fateChoices, func(t *rapid.T) *mrogen.Program { return mrogen.GenProgram(t, restartCfg()) })
}

func interruptTestWith(t *testing.T, PROP string, fateChoices []string, gen func(t *rapid.T) *mrogen.Program) {
	root := workRoot(t)
	// whatever goes wrong in a run that was interrupted belongs to the
	// property the test is run for (stalls, wrong arguments after the
	// restart, ...)
	propOverride = PROP
	defer func() { propOverride = "" }()
	rapid.Check(t, func(t *rapid.T) {
		defer func() {
			if p := recover(); p != nil {
				if _, ok := p.(surveySkip); !ok {
					panic(p)
				}
			}
		}()
		prog := gen(t)
		for k := range excluded {
			delete(excluded, k)
		}
		rc, ix, _, done := newCase(t, root, "intr", prog, PROP)
		if rc == nil {
			return
		}
		defer done()
		rc.persist = "C05/mrp-aborts-after-restart"
		defer stats.InflightDone()
		var zombies []*simrun.Job
		maxCrashes := rapid.IntRange(1, 3).Draw(t, "crashes")
		crashes := 0
		completedBefore := map[string]bool{}
		fates := map[string]int{}
		inside := false
		rc.onSubmit = func(j *simrun.Job) {
			if completedBefore[j.Identity()] {
				fail(t, PROP, "completed-job-executed-again", "job %s is executed again although its completion had been recorded before the interruption\n%s", j, rc.describe())
			}
		}
		rc.intervene = func() core.MetadataState {
			if len(zombies) > 0 && crashes > 0 && rapid.IntRange(0, 2).Draw(t, "zombieReports") == 0 {
				z := zombies[0]
				zombies = zombies[1:]
				if err := rc.sim.StaleFinish(z); err != nil {
					t.Fatalf("INFRA: %v", err)
				}
				fates["zombie-reported"]++
				rc.logf("stale: the old attempt of %s reports its completion now", z)
			}
			if crashes >= maxCrashes || rapid.IntRange(0, 2).Draw(t, "crashNow") != 0 {
				return ""
			}
			sim := rc.sim
			pending := sim.Pending()
			nDone := 0
			for _, j := range sim.Jobs {
				if j.Done {
					nDone++
				}
			}
			if nDone == 0 && len(pending) == 0 {
				return ""
			}
			crashes++
			if nDone > 0 && len(pending) > 0 {
				inside = true
			}
			var survivors []*simrun.Job
			for _, j := range pending {
				fate := rapid.SampledFrom(fateChoices).Draw(t, "fate")
				if j.Started && fate == "queued" {
					fate = "alive"
				}
				fates[fate]++
				rc.logf("interrupt: %s is %s", j, fate)
				var err error
				switch fate {
				case "dead-running":
					err = sim.StartWithPid(j, simrun.DeadPid())
				case "dead-after-outs":
					if err = sim.StartWithPid(j, simrun.DeadPid()); err == nil {
						var outs *jsonx.Obj
						if outs, err = sim.Compute(j); err == nil {
							err = sim.WriteOuts(j, outs)
						}
					}
				case "killed-with-error":
					// a handled signal: the job monitor was terminated with
					// mrp and recorded that in _errors
					if !j.Started {
						err = sim.StartWithPid(j, simrun.DeadPid())
					}
					if err == nil {
						err = sim.Fail(j, "errors", "signal: terminated")
					}
				case "finished-unnoticed":
					if !j.Started {
						err = sim.StartWithPid(j, simrun.DeadPid())
					}
					if err == nil {
						var outs *jsonx.Obj
						if outs, err = sim.Compute(j); err == nil {
							if err = sim.WriteOuts(j, outs); err == nil {
								err = sim.MarkComplete(j)
							}
						}
					}
				case "alive":
					if !j.Started {
						err = sim.StartWithPid(j, os.Getpid())
					}
					survivors = append(survivors, j)
				case "alive-after-outs":
					// still running (cluster job, or a local job that
					// outlives mrp): outputs / stage defs are on disk, the
					// completion marker is not
					if !j.Started {
						err = sim.StartWithPid(j, os.Getpid())
					}
					if err == nil {
						var outs *jsonx.Obj
						if outs, err = sim.Compute(j); err == nil {
							err = sim.WriteOuts(j, outs)
						}
					}
					survivors = append(survivors, j)
				case "zombie":
					// looks dead to the restarted mrp (the pid it recorded
					// is gone), is reset and re-run, but reports its
					// completion later under the old attempt's name
					err = sim.StartWithPid(j, simrun.DeadPid())
					zombies = append(zombies, j)
				}
				if err != nil {
					t.Fatalf("INFRA: %v", err)
				}
			}
			for _, j := range sim.Jobs {
				if j.Done {
					completedBefore[j.Identity()] = true
				}
			}
			rc.logf("interrupt #%d: mrp is gone (%d jobs finished, %d pending); stale lock removed, restarting", crashes, nDone, len(pending))
			if !sim.Locked() {
				fail(t, PROP, "not-locked-while-running", "the pipestance directory holds no _lock while a pipestance object is attached\n%s", rc.describe())
			}
			sim.RemoveLock()
			if len(zombies) > 0 {
				// the name of an attempt is the low bits of mrp's pid and of
				// the time in seconds: a restarted mrp is another process,
				// which this harness cannot be; it restarts in another second
				for sec := time.Now().Unix(); time.Now().Unix() == sec; {
					time.Sleep(5 * time.Millisecond)
				}
			}
			rc.reattach(t, PROP, survivors)
			return ""
		}
		st := rc.drive(t, ix)
		if st != core.Complete && st != core.DisabledState {
			fail(t, PROP, "restart-does-not-complete", "after %d interruption(s) the pipestance ends %q: %s\n%s", crashes, st, rc.sim.FatalError(), rc.describe())
		}
		finalOutsCheck(t, rc, PROP)
		// interruption between / after the final cleanup passes: the record
		// left behind must be the one an undisturbed run leaves
		switch rapid.SampledFrom([]string{"none", "after-vdr", "after-postprocess"}).Draw(t, "crashDuringCleanup") {
		case "after-vdr":
			rc.sim.FinalVDR()
			rc.logf("interrupt: mrp is gone after the final VDR pass")
			rc.sim.RemoveLock()
			rc.reattach(t, PROP, nil)
			// (forks of disabled map calls may only be expanded now: the
			// scheduler needs a few rounds, but must not run any job)
			crashes = maxCrashes
			if st := rc.drive(t, ix); st != core.Complete && st != core.DisabledState {
				fail(t, PROP, "complete-pipestance-not-complete-after-restart", "state %q; forks without _complete:\n  %s\n%s", st, incompleteForks(rc.sim.Dir), rc.describe())
			}
			fates["during-cleanup"]++
		case "after-postprocess":
			rc.sim.FinalVDR()
			rc.sim.PS.PostProcess()
			rc.logf("interrupt: mrp is gone after post-processing")
			rc.sim.RemoveLock()
			rc.reattach(t, PROP, nil)
			// (forks of disabled map calls may only be expanded now: the
			// scheduler needs a few rounds, but must not run any job)
			crashes = maxCrashes
			if st := rc.drive(t, ix); st != core.Complete && st != core.DisabledState {
				fail(t, PROP, "complete-pipestance-not-complete-after-restart", "state %q; forks without _complete:\n  %s\n%s", st, incompleteForks(rc.sim.Dir), rc.describe())
			}
			fates["after-cleanup"]++
		}
		rc.sim.Cleanup()
		post, err := rc.sim.TopOuts()
		if err != nil {
			fail(t, PROP, "top-outs-unreadable", "after the final cleanup: %v\n%s", err, rc.describe())
		}
		ref, err := referenceRun(prog, rc.src, rc.sim.Dir+"-ref", rc.sim.Opts)
		if err != nil {
			t.Fatalf("INFRA: reference run: %v", err)
		}
		if a, b := normPaths(post, rc.sim.Dir), normPaths(ref, rc.sim.Dir+"-ref/ps"); !jsonx.Equal(a, b, true) && !skipTopOuts {
			fail(t, PROP, "final-record-differs", "the outputs record left after the final cleanup differs from that of an undisturbed run\n  interrupted: %s\n  undisturbed: %s\n%s", jsonx.Marshal(a), jsonx.Marshal(b), rc.describe())
		}
		var cl []string
		for f := range fates {
			cl = append(cl, "fate:"+f)
		}
		sort.Strings(cl)
		cl = append(cl, fmt.Sprintf("interruptions:%d", crashes))
		if inside {
			cl = append(cl, "inside-run")
		}
		stats.Case(PROP, inside, stats.Digest(rc.src, strings.Join(rc.history, "|")), cl, func() any {
			return map[string]any{"program": stats.Trunc(rc.src, 1200), "interruptions": crashes, "schedule": stats.Trunc(strings.Join(rc.history, "; "), 800)}
		})
	})
}

// ---- C06 ----------------------------------------------------------------------

// feedsRunTimeMap: does a map call split over an output of the call at
// callPath (the call's forks get created from what this call returns)?
func feedsRunTimeMap(prog *mrogen.Program, callPath string) bool {
	parts := strings.Split(callPath, ".")
	if len(parts) < 2 {
		return false
	}
	pcall, _ := resolveCall(prog, strings.Join(parts[:len(parts)-1], "."))
	if pcall == nil {
		return false
	}
	pl := prog.Pipeline(pcall.Callee)
	if pl == nil {
		return false
	}
	id := parts[len(parts)-1]
	for _, c := range pl.Calls {
		for _, b := range c.Bindings {
			if sp, ok := b.E.(mrogen.Split); ok {
				if r, ok := sp.E.(mrogen.Ref); ok && r.Call == id {
					return true
				}
			}
		}
	}
	return false
}

// badOuts returns the outputs of the job with one value replaced by one that
// is definitely not of the declared type ("" if no such replacement exists).
func badOuts(prog *mrogen.Program, j *simrun.Job, outs *jsonx.Obj, pick int) (string, string) {
	u := refsem.ExtUniverse(prog)
	n := len(j.Stage.Outs)
	for k := 0; k < n; k++ {
		p := j.Stage.Outs[(pick+k)%n]
		var bad any
		switch {
		case p.T.Arr > 0 || p.T.Map > 0:
			bad = "not a collection"
		case p.T.Base == "int" || p.T.Base == "float":
			bad = "not a number"
		case p.T.Base == "bool":
			bad = jsonNumber("3")
		case p.T.Base == "string" || p.T.Base == "file" || p.T.Base == "path" || u.IsFileType(p.T.Base):
			bad = []any{jsonNumber("7")}
		case p.T.Base == "map":
			bad = jsonNumber("5")
		default:
			bad = "not a struct"
		}
		if v := refsem.Valid(u, p.T, bad); v.OK || v.Ambiguous {
			continue
		}
		r := jsonx.NewObj()
		for i, key := range outs.Keys {
			if key == p.Name {
				r.Set(key, bad)
			} else {
				r.Set(key, outs.Vals[i])
			}
		}
		return string(jsonx.Marshal(r)), p.Name
	}
	return "", ""
}

// TestFaults: C06 on the in-process engine.  One generated job ends in a
// generated failure; the pipestance must end failed and name the stage, no
// dependent may start, and after a restart without the fault only work that
// had not completed is executed and the result is that of a fault-free run.
func TestFaults(t *testing.T) {
	root := workRoot(t)
	propOverride = "C06"
	defer func() { propOverride = "" }()
	rapid.Check(t, func(t *rapid.T) {
		defer func() {
			if p := recover(); p != nil {
				if _, ok := p.(surveySkip); !ok {
					panic(p)
				}
			}
		}()
		prog := mrogen.GenProgram(t, restartCfg())
		for k := range excluded {
			delete(excluded, k)
		}
		faultsCase(t, root, prog)
	})
}

// faultsCase: one program, one or two faults at generated jobs, restarts.
func faultsCase(t *rapid.T, root string, prog *mrogen.Program) {
	{
		rc, ix, _, done := newCase(t, root, "fault", prog, "C06")
		if rc == nil {
			return
		}
		defer done()
		rc.persist = "C06/mrp-aborts"
		defer stats.InflightDone()
		nFaults := rapid.IntRange(1, 2).Draw(t, "faults")
		var classes []string
		completedBefore := map[string]bool{}
		superseded := map[*simrun.Job]bool{}
		rc.onSubmit = func(j *simrun.Job) {
			if completedBefore[j.Identity()] {
				fail(t, "C06", "completed-job-executed-again", "after the restart job %s is executed again although it had completed before the failure\n%s", j, rc.describe())
			}
			// an earlier attempt of the same job no longer counts
			for _, o := range rc.sim.Jobs {
				if o != j && o.Identity() == j.Identity() {
					superseded[o] = true
				}
			}
		}
		nontrivial := false
		producers := map[string]bool{}
		for _, m := range rc.model.Jobs {
			for _, d := range ix.trueDeps[m.Key()] {
				if p := refsem.DepCallPath(d); p != m.CallPath {
					producers[p] = true
				}
			}
		}
		for f := 0; f < nFaults; f++ {
			site := rapid.IntRange(0, max(0, len(rc.model.Jobs)-1-len(completedBefore))).Draw(t, "site")
			if len(completedBefore) >= len(rc.model.Jobs) {
				break
			}
			var failed *simrun.Job
			kind, detail := "", ""
			finishes := 0
			rc.finish = func(j *simrun.Job) bool {
				if failed != nil {
					return false
				}
				finishes++
				if finishes <= site {
					return false
				}
				// prefer a call something depends on (up to three more
				// finishes are let through while looking for one)
				if !producers[j.CallPath] && finishes <= site+3 && len(rc.sim.Pending()) > 1 {
					return false
				}
				kinds := []string{"errors", "errors", "assert"}
				rejectable := true
				if stats.Known("C06/dependent-map-call-disabled-after-restart") && feedsRunTimeMap(prog, j.CallPath) {
					// known finding: outputs rejected by mrp + restart, when
					// a map call splits over this call's output
					rejectable = false
					stats.Count("C06", "excluded_known:rejected-outputs-of-map-source", 1)
				}
				switch {
				case !rejectable:
				case j.Phase == "main" || j.Phase == "join":
					if len(j.Stage.Outs) > 0 {
						// (a stage without outputs is not asked for any)
						kinds = append(kinds, "invalid-outs", "missing-key", "wrong-type")
					}
				case j.Phase == "chunk":
					if len(j.Stage.Outs) > 0 || len(j.Stage.ChunkOuts) > 0 {
						// a chunk (first, middle or last of its fork) that
						// exits cleanly but leaves unreadable outputs: found
						// when the join is prepared
						kinds = append(kinds, "invalid-outs", "invalid-outs")
					}
				case j.Phase == "split":
					kinds = append(kinds, "bad-stage-defs")
				}
				kind = rapid.SampledFrom(kinds).Draw(t, "kind")
				var err error
				switch kind {
				case "errors":
					detail = rapid.SampledFrom([]string{"signal: killed", "exit status 1", "Traceback (most recent call last):\n  File \"x.py\", line 1\nValueError: boom", "out of memory"}).Draw(t, "errText")
					err = rc.sim.Fail(j, "errors", detail)
				case "assert":
					detail = "ASSERT:the input is not what this stage accepts"
					err = rc.sim.Fail(j, "assert", detail)
				case "invalid-outs":
					err = rc.sim.Fail(j, "invalid-outs", "")
				case "missing-key", "wrong-type":
					outs, cerr := rc.sim.Compute(j)
					if cerr != nil {
						t.Fatalf("INFRA: %v", cerr)
					}
					raw := ""
					if kind == "wrong-type" {
						raw, detail = badOuts(prog, j, outs, rapid.IntRange(0, 5).Draw(t, "badOut"))
					}
					if raw == "" {
						kind = "missing-key"
						r := jsonx.NewObj()
						drop := rapid.IntRange(0, len(outs.Keys)-1).Draw(t, "dropKey")
						for i, key := range outs.Keys {
							if i != drop {
								r.Set(key, outs.Vals[i])
							} else {
								detail = key
							}
						}
						raw = string(jsonx.Marshal(r))
					}
					err = rc.sim.Fail(j, "raw:"+raw, "")
				case "bad-stage-defs":
					detail = rapid.SampledFrom([]string{`[1,2]`, `{"chunks": 5, "join": {}}`, `{"chunks": [{"__mem_gb": "a lot"}]`, `"x"`}).Draw(t, "defs")
					err = rc.sim.Fail(j, "raw:"+detail, "")
				}
				if err != nil {
					t.Fatalf("INFRA: %v", err)
				}
				failed = j
				rc.logf("FAULT %s in %s (%s)", kind, j, detail)
				return true
			}
			st := rc.drive(t, ix)
			if failed == nil {
				// the run ended before the chosen site was reached
				if st != core.Complete && st != core.DisabledState {
					fail(t, "C06", "run-failed-without-fault", "state %q: %s\n%s", st, rc.sim.FatalError(), rc.describe())
				}
				break
			}
			if st != core.Failed {
				fail(t, "C06", "success-despite-failure", "job %s ended with %s (%s) but the pipestance ends %q\n%s", failed, kind, detail, st, rc.describe())
			}
			fq, _, _, log, _, paths := rc.sim.PS.GetFatalError()
			if !strings.HasPrefix(fq, "ID.sim."+failed.CallPath) {
				var states []string
				for _, n := range rc.sim.PS.SerializeState(context.Background()) {
					if n.State == core.Failed || n.Error != nil {
						states = append(states, fmt.Sprintf("%s state=%s error=%v", n.Fqname, n.State, n.Error != nil))
					}
				}
				fail(t, "C06", "error-names-wrong-stage", "job %s failed (%s) but the reported error names %q (log %q, paths %v); failed nodes: %v\n%s", failed, kind, fq, stats.Trunc(log, 200), paths, states, rc.describe())
			}
			if (kind == "errors" || kind == "assert") && !strings.Contains(log, strings.SplitN(detail, "\n", 2)[0]) {
				fail(t, "C06", "error-text-lost", "job %s failed with %q but the reported log is %q\n%s", failed, detail, stats.Trunc(log, 300), rc.describe())
			}
			classes = append(classes, "kind:"+kind, "phase:"+failed.Phase)
			// dependents / independents of the failed call (for the classes)
			dep, indep := false, false
			for _, m := range rc.model.Jobs {
				if m.CallPath == failed.CallPath {
					continue
				}
				isDep := false
				for _, d := range ix.trueDeps[m.Key()] {
					if refsem.DepCallPath(d) == failed.CallPath {
						isDep = true
					}
				}
				if isDep {
					dep = true
				} else {
					indep = true
				}
			}
			if dep {
				classes = append(classes, "has-dependents")
			}
			if indep {
				classes = append(classes, "has-independents")
			}
			if dep && indep {
				nontrivial = true
			}
			// mrp gives up: local jobs die with it, the lock is released
			for _, j := range rc.sim.Pending() {
				if j == failed {
					continue
				}
				if rapid.Bool().Draw(t, "inFlightStarted") && !j.Started {
					if err := rc.sim.StartWithPid(j, simrun.DeadPid()); err != nil {
						t.Fatalf("INFRA: %v", err)
					}
				}
			}
			rc.sim.PS.Unlock()
			if rc.sim.Locked() {
				fail(t, "C06", "lock-left-behind", "after the failure was handled the pipestance is still locked\n%s", rc.describe())
			}
			for _, j := range rc.sim.Jobs {
				// (when the stage's outputs were rejected, the fork that
				// produced them starts over: its jobs are the failed work)
				redo := kind != "errors" && kind != "assert" && j.CallPath == failed.CallPath && j.ForkName == failed.ForkName
				if redo {
					superseded[j] = true
					delete(completedBefore, j.Identity())
				}
				if j.Done && !superseded[j] {
					completedBefore[j.Identity()] = true
				}
			}
			rc.logf("mrp exits; restart without the fault")
			rc.finish = nil
			rc.reattach(t, "C06", nil)
		}
		rc.finish = nil
		st := rc.drive(t, ix)
		if st != core.Complete && st != core.DisabledState {
			fail(t, "C06", "restart-does-not-complete", "with the fault removed the pipestance ends %q: %s\n%s", st, rc.sim.FatalError(), rc.describe())
		}
		finalOutsCheck(t, rc, "C06")
		rc.sim.Cleanup()
		sort.Strings(classes)
		stats.Case("C06", nontrivial, stats.Digest(rc.src, strings.Join(rc.history, "|")), classes, func() any {
			return map[string]any{"program": stats.Trunc(rc.src, 1200), "faults": classes, "schedule": stats.Trunc(strings.Join(rc.history, "; "), 800)}
		})
	}
}

func jsonNumber(s string) any { return json.Number(s) }
