//go:build verif

package run

import (
	"fmt"
	"os"
	"path/filepath"
	"regexp"
	"sort"
	"strings"
	"testing"

	"github.com/martian-lang/martian/martian/core"
	"github.com/martian-lang/martian/martian/syntax"
	"pgregory.net/rapid"

	"verifharness/jsonx"
	"verifharness/mrogen"
	"verifharness/refsem"
	"verifharness/stats"
)

var c16Seq int

func sortedCopy(s []string) []string {
	r := append([]string{}, s...)
	sort.Strings(r)
	return r
}

// TestC16RoundTrip: invocation data -> MRO call text -> invocation data,
// and the produced text compiles against the definitions.
func TestC16RoundTrip(t *testing.T) {
	root := workRoot(t)
	rapid.Check(t, func(t *rapid.T) {
		c16Seq++
		dir := filepath.Join(root, fmt.Sprintf("c16-%d-%d", os.Getpid(), c16Seq))
		if err := os.MkdirAll(dir, 0o755); err != nil {
			t.Fatalf("INFRA: %v", err)
		}
		defer os.RemoveAll(dir)
		u := mrogen.GenUniverse(t, mrogen.UniverseCfg{MaxStructs: 4, MaxWider: 2, MaxFields: 4, NoFiles: rapid.Bool().Draw(t, "noFiles")})
		// a callable with generated inputs
		nin := rapid.IntRange(1, 5).Draw(t, "nIns")
		isStage := rapid.Bool().Draw(t, "stage")
		var ins []mrogen.Param
		for i := 0; i < nin; i++ {
			ins = append(ins, mrogen.Param{Name: fmt.Sprintf("p%d", i), T: u.GenType(t, false)})
		}
		prog := &mrogen.Program{U: u}
		if isStage {
			prog.Stages = []*mrogen.Stage{{Name: "TARGET", Ins: ins, Outs: []mrogen.Param{{Name: "o", T: mrogen.Ty{Base: "int"}}}, SrcLang: "comp", SrcPath: "stagebin TARGET"}}
		} else {
			pl := &mrogen.Pipeline{Name: "TARGET", Ins: ins}
			for _, p := range ins {
				pl.Outs = append(pl.Outs, mrogen.Param{Name: "o_" + p.Name, T: p.T})
				pl.Ret = append(pl.Ret, mrogen.Binding{Param: "o_" + p.Name, E: mrogen.Ref{Out: p.Name}})
			}
			prog.Pipelines = []*mrogen.Pipeline{pl}
		}
		defs := prog.Source(nil)
		if err := os.WriteFile(filepath.Join(dir, "defs.mro"), []byte(defs), 0o644); err != nil {
			t.Fatalf("INFRA: %v", err)
		}
		mroPaths := []string{dir}
		// argument values; a consistent subset of parameters is split
		vc := &mrogen.ValueCfg{NullPct: rapid.SampledFrom([]int{0, 5, 20}).Draw(t, "nullPct"), SafeKeys: false,
			NoLongDigitFloats: stats.Known("C16/float-written-as-20-plus-digits")}
		splitKind := rapid.SampledFrom([]string{"", "", "array", "map"}).Draw(t, "splitKind")
		var keys []string
		n := rapid.IntRange(1, 3).Draw(t, "splitLen")
		if splitKind == "map" {
			keys = []string{"k a", "b.c", "é"}[:n]
		}
		args := core.LazyArgumentMap{}
		want := map[string]any{}
		// invocation JSON comes from any JSON writer (Go: raw UTF-8; Python:
		// \uXXXX incl. surrogate pairs and ", " separators; PHP: "\/")
		style := rapid.SampledFrom([]*jsonx.Style{nil, nil, jsonx.PythonStyle, {ASCII: true, EscapeSlash: true}}).Draw(t, "jsonStyle")
		var splitArgs []string
		classes := []string{"roundtrip"}
		rich := false
		for _, p := range ins {
			split := splitKind != "" && rapid.Bool().Draw(t, "split:"+p.Name)
			if split && splitKind == "map" && (p.T.Map > 0 || p.T.Base == "map") {
				split = false
			}
			var v any
			if split {
				if splitKind == "array" {
					a := make([]any, n)
					for i := range a {
						a[i] = u.GenValue(t, p.T, vc)
					}
					v = a
				} else {
					o := jsonx.NewObj()
					for _, k := range keys {
						o.Set(k, u.GenValue(t, p.T, vc))
					}
					v = o
				}
				splitArgs = append(splitArgs, p.Name)
				wrapped := jsonx.NewObj()
				wrapped.Set("split", v)
				args[p.Name] = jsonx.MarshalStyle(wrapped, style)
				want[p.Name] = wrapped
				classes = append(classes, "split-arg")
				rich = true
			} else {
				v = u.GenValue(t, p.T, vc)
				args[p.Name] = jsonx.MarshalStyle(v, style)
				want[p.Name] = v
			}
			if u.Struct(p.T.Base) != nil || p.T.Map > 0 || p.T.Arr > 1 {
				rich = true
			}
		}
		if len(splitArgs) > 1 {
			// the order of "splitargs" is not tied to the declaration order
			splitArgs = rapid.Permutation(splitArgs).Draw(t, "splitOrder")
			classes = append(classes, "multi-split")
		}
		inv := core.InvocationData{Call: "TARGET", Args: args, Include: "defs.mro", SplitArgs: splitArgs}
		describe := func() string {
			var b strings.Builder
			b.WriteString(defs + "\nargs:\n")
			for _, p := range ins {
				fmt.Fprintf(&b, "  %s (%s) = %s\n", p.Name, p.T, args[p.Name])
			}
			fmt.Fprintf(&b, "splitargs: %v\n", splitArgs)
			return b.String()
		}
		src, err := inv.BuildCallSource(mroPaths)
		if err != nil {
			key := "build-call-source-error"
			for _, a := range args {
				if m := regexp.MustCompile(`-?[0-9]{20,}`).Find(a); m != nil {
					key = "float-written-as-20-plus-digits"
				}
			}
			fail(t, "C16", key, "BuildCallSource failed: %v\n%s", err, describe())
		}
		inv2, err := core.InvocationDataFromSource([]byte(src), mroPaths)
		if err != nil {
			fail(t, "C16", "call-text-not-readable-back", "InvocationDataFromSource failed on the produced text: %v\ntext:\n%s\n%s", err, src, describe())
		}
		if inv2.Call != inv.Call || inv2.Include != inv.Include {
			fail(t, "C16", "call-or-include-changed", "call %q include %q became call %q include %q\ntext:\n%s", inv.Call, inv.Include, inv2.Call, inv2.Include, src)
		}
		if strings.Join(sortedCopy(inv2.SplitArgs), ",") != strings.Join(sortedCopy(splitArgs), ",") {
			fail(t, "C16", "split-status-changed", "split args %v became %v\ntext:\n%s\n%s", splitArgs, inv2.SplitArgs, src, describe())
		}
		for _, p := range ins {
			got, perr := jsonx.Parse(inv2.Args[p.Name])
			if perr != nil {
				fail(t, "C16", "arg-not-json", "argument %s came back as %q: %v", p.Name, inv2.Args[p.Name], perr)
			}
			if !jsonx.Equal(want[p.Name], got, true) {
				fail(t, "C16", "arg-value-changed", "argument %s (%s): %s came back as %s\ntext:\n%s\n%s", p.Name, p.T, jsonx.Marshal(want[p.Name]), jsonx.Marshal(got), src, describe())
			}
		}
		// (b) the text compiles against the definitions and converting it
		// once more gives an equivalent call
		_, _, ast1, err := syntax.ParseSourceBytes([]byte(src), filepath.Join(dir, "call.mro"), mroPaths, false)
		if err != nil {
			fail(t, "C16", "call-text-does-not-compile", "the produced call does not compile: %v\ntext:\n%s\n%s", err, src, describe())
		}
		src2, err := inv2.BuildCallSource(mroPaths)
		if err != nil {
			fail(t, "C16", "build-call-source-error", "second BuildCallSource failed: %v", err)
		}
		_, _, ast2, err := syntax.ParseSourceBytes([]byte(src2), filepath.Join(dir, "call2.mro"), mroPaths, false)
		if err != nil {
			fail(t, "C16", "call-text-does-not-compile", "the call produced from the read-back data does not compile: %v\ntext:\n%s", err, src2)
		}
		if !ast1.EquivalentCall(ast2) || !ast2.EquivalentCall(ast1) {
			fail(t, "C16", "round-trip-not-equivalent", "text -> data -> text is not an equivalent call:\n%s\n---\n%s", src, src2)
		}
		// (c) text written by hand with several @include lines: the callable
		// may be declared in any of them, or be reached through an include
		// of an include; text -> data -> text must again be a compiling,
		// equivalent call with the same arguments.
		incKind := rapid.SampledFrom([]string{"aux-first", "aux-last", "transitive", "aux-then-transitive", "two-aux-first"}).Draw(t, "includeShape")
		for name, body := range map[string]string{"aux1.mro": "filetype zzaux1;\n", "aux2.mro": "filetype zzaux2;\n", "wrap.mro": "@include \"defs.mro\"\n\nfiletype zzwrap;\n"} {
			if err := os.WriteFile(filepath.Join(dir, name), []byte(body), 0o644); err != nil {
				t.Fatalf("INFRA: %v", err)
			}
		}
		var incs []string
		switch incKind {
		case "aux-first":
			incs = []string{"aux1.mro", "defs.mro"}
		case "aux-last":
			incs = []string{"defs.mro", "aux1.mro"}
		case "transitive":
			incs = []string{"wrap.mro"}
		case "aux-then-transitive":
			incs = []string{"aux1.mro", "wrap.mro"}
		default:
			incs = []string{"aux2.mro", "aux1.mro", "defs.mro"}
		}
		callAt := strings.Index(src, "call TARGET")
		if mc := strings.Index(src, "map call TARGET"); mc >= 0 {
			callAt = mc
		}
		if callAt < 0 {
			t.Fatalf("HARNESS: no call statement in produced text:\n%s", src)
		}
		var hb strings.Builder
		for _, inc := range incs {
			fmt.Fprintf(&hb, "@include %q\n", inc)
		}
		hb.WriteString("\n" + src[callAt:])
		hand := hb.String()
		_, _, astH, err := syntax.ParseSourceBytes([]byte(hand), filepath.Join(dir, "hand.mro"), mroPaths, false)
		if err != nil {
			t.Fatalf("HARNESS: hand-written call text does not compile: %v\n%s", err, hand)
		}
		inv3, err := core.InvocationDataFromSource([]byte(hand), mroPaths)
		if err != nil {
			fail(t, "C16", "call-text-not-readable-back", "InvocationDataFromSource failed on a call with includes %v: %v\ntext:\n%s", incs, err, hand)
		}
		if inv3.Call != "TARGET" || strings.Join(sortedCopy(inv3.SplitArgs), ",") != strings.Join(sortedCopy(splitArgs), ",") {
			fail(t, "C16", "split-status-changed", "includes %v: call %q split args %v (want TARGET, %v)\ntext:\n%s", incs, inv3.Call, inv3.SplitArgs, splitArgs, hand)
		}
		for _, p := range ins {
			got, perr := jsonx.Parse(inv3.Args[p.Name])
			if perr != nil || !jsonx.Equal(want[p.Name], got, true) {
				fail(t, "C16", "arg-value-changed", "includes %v: argument %s (%s): %s came back as %s\ntext:\n%s", incs, p.Name, p.T, jsonx.Marshal(want[p.Name]), inv3.Args[p.Name], hand)
			}
		}
		src3, err := inv3.BuildCallSource(mroPaths)
		if err != nil {
			fail(t, "C16", "data-from-text-not-convertible-back", "call text with includes %v gave invocation data (include %q) that cannot be turned into call text again: %v\ntext:\n%s", incs, inv3.Include, err, hand)
		}
		_, _, ast3, err := syntax.ParseSourceBytes([]byte(src3), filepath.Join(dir, "call3.mro"), mroPaths, false)
		if err != nil {
			fail(t, "C16", "call-text-does-not-compile", "includes %v: the call produced from the read-back data (include %q) does not compile: %v\ntext:\n%s", incs, inv3.Include, err, src3)
		}
		if !astH.EquivalentCall(ast3) || !ast3.EquivalentCall(astH) {
			fail(t, "C16", "round-trip-not-equivalent", "includes %v: text -> data -> text is not an equivalent call:\n%s\n---\n%s", incs, hand, src3)
		}
		classes = append(classes, "includes:"+incKind)
		stats.Case("C16", rich, stats.Digest("rt", defs, src, incKind), classes, func() any {
			return map[string]any{"kind": "roundtrip", "call_text": stats.Trunc(src, 900), "splitargs": splitArgs, "hand_written_includes": incs}
		})
	})
}

// TestC16ForkInvocations: every stage fork's _invocation compiles against
// _mrosource as a call of that stage carrying that fork's resolved _args.
func TestC16ForkInvocations(t *testing.T) {
	root := workRoot(t)
	installInvocationCheck()
	defer func() { invocationCheck = nil }()
	rapid.Check(t, func(t *rapid.T) {
		defer func() {
			if p := recover(); p != nil {
				if _, ok := p.(surveySkip); !ok {
					panic(p)
				}
			}
		}()
		prog := mrogen.GenProgram(t, semCfg())
		for k := range excluded {
			delete(excluded, k)
		}
		semCase(t, root, prog)
	})
	_ = refsem.Eval
}

func installInvocationCheck() {
	invocationCheck = func(t *rapid.T, rc *runCase) {
		mrosrc := filepath.Join(rc.sim.Dir, "_mrosource")
		src, err := os.ReadFile(mrosrc)
		if err != nil {
			fail(t, "C16", "mrosource-missing", "%v", err)
		}
		seen := map[string]bool{}
		nchecked := 0
		for _, j := range rc.sim.Jobs {
			if j.Phase != "main" && j.Phase != "split" {
				continue
			}
			forkDir := filepath.Dir(j.MdPath)
			if seen[forkDir] {
				continue
			}
			seen[forkDir] = true
			invText, err := os.ReadFile(filepath.Join(forkDir, "_invocation"))
			if err != nil {
				fail(t, "C16", "fork-invocation-missing", "fork %s has no _invocation: %v\n%s", forkDir, err, rc.describe())
			}
			// the invocation includes the program by name: compile it
			// against the single-file rendering mrp recorded.
			body := string(invText)
			if i := strings.Index(body, "call "); i >= 0 {
				body = body[i:]
			} else if i := strings.Index(body, "map call "); i >= 0 {
				body = body[i:]
			}
			full := stripTopCall(string(src)) + "\n" + body
			_, _, ast, err := syntax.ParseSourceBytes([]byte(full), filepath.Join(forkDir, "inv.mro"), nil, false)
			if err != nil && strings.Contains(err.Error(), "cannot assign struct literal to map") {
				fail(t, "C16", "struct-in-typed-map-position-in-fork-invocation", "the _invocation of %s renders a struct value bound to a typed-map position as a struct literal: %v\n_invocation:\n%s\n%s", j, err, invText, rc.describe())
			}
			if err != nil && illegalKeyRe.MatchString(err.Error()) {
				// known finding: a map key that is no file name reaches a
				// parameter whose map values hold files through a conversion
				const k = "C16/fork-invocation-illegal-filename-key"
				if stats.Known(k) {
					stats.Count("C16", "excluded:fork-invocation-illegal-filename-key", 1)
					continue
				}
				fail(t, "C16", "fork-invocation-illegal-filename-key", "the _invocation of %s does not compile against _mrosource: %v\n_invocation:\n%s\n%s", j, err, invText, rc.describe())
			}
			if err != nil {
				fail(t, "C16", "fork-invocation-does-not-compile", "the _invocation of %s does not compile against _mrosource: %v\n_invocation:\n%s\n%s", j, err, invText, rc.describe())
			}
			if ast.Call == nil || ast.Call.DecId != j.Stage.Name {
				fail(t, "C16", "fork-invocation-wrong-callable", "the _invocation of %s calls %v, not stage %s\n%s", j, ast.Call, j.Stage.Name, invText)
			}
			data, err := core.BuildDataForAst(ast)
			if err != nil {
				fail(t, "C16", "fork-invocation-not-convertible", "%v\n%s", err, invText)
			}
			for _, p := range j.Stage.Ins {
				want, _ := j.Args.Get(p.Name)
				got, perr := jsonx.Parse(data.Args[p.Name])
				if perr != nil || !jsonx.Equal(want, got, true) {
					fail(t, "C16", "fork-invocation-args-differ", "fork %s: _invocation carries %s = %s but the fork's _args has %s\n_invocation:\n%s\n%s", j, p.Name, data.Args[p.Name], jsonx.Marshal(want), invText, rc.describe())
				}
			}
			nchecked++
		}
		c16Checked = nchecked
	}
}

var c16Checked int

// stripTopCall removes the top-level call statement from a single-file
// program rendering.
func stripTopCall(src string) string {
	lines := strings.Split(src, "\n")
	for i, l := range lines {
		if strings.HasPrefix(l, "call ") || strings.HasPrefix(l, "map call ") {
			return strings.Join(lines[:i], "\n")
		}
	}
	return src
}

// TestC16KnownLongDigitFloat: reproducer of a known finding.
func TestC16KnownLongDigitFloat(t *testing.T) {
	dir := filepath.Join(workRoot(t), "c16known")
	os.MkdirAll(dir, 0o755)
	defer os.RemoveAll(dir)
	os.WriteFile(filepath.Join(dir, "defs.mro"), []byte("stage TARGET(\n    in  float p0,\n    out int o,\n    src comp \"x\",\n)\n"), 0o644)
	inv := core.InvocationData{Call: "TARGET", Include: "defs.mro", Args: core.LazyArgumentMap{"p0": []byte("123456789012345680000")}}
	if _, err := inv.BuildCallSource([]string{dir}); err != nil {
		fmt.Printf("KNOWN-PRESENT C16/float-written-as-20-plus-digits: %v\n", err)
	}
}

var illegalKeyRe = regexp.MustCompile(`key [^\n]*: (empty string|reserved name|'/' is not allowed in filenames|null characters are not allowed)`)

// TestC16KnownIllegalFilenameKey: reproducer of a known finding.  The key ""
// is legal for map<S> (no files in S); bound to a stage parameter of type
// map<W> whose struct holds a path (string -> path coercion), the fork's
// _invocation writes the value as a literal of type map<W>, which the
// compiler refuses because "" cannot be a directory name.
func TestC16KnownIllegalFilenameKey(t *testing.T) {
	invocationCheck = nil
	defer func() { invocationCheck = nil }()
	saved := os.Getenv("VERIF_KNOWN")
	os.Setenv("VERIF_KNOWN", "")
	defer os.Setenv("VERIF_KNOWN", saved)
	knownPresentWith(t, "C16/fork-invocation-illegal-filename-key", func(a int) *mrogen.Program {
		u := &mrogen.Universe{Structs: []*mrogen.Struct{
			{Name: "S", Fields: []mrogen.Field{{Name: "c", T: ty{Base: "string"}}}},
			{Name: "W", Fields: []mrogen.Field{{Name: "c", T: ty{Base: "path"}}}},
		}}
		p := &mrogen.Program{U: u}
		p.Stages = []*mrogen.Stage{st("C", []mrogen.Param{pm("p", ty{Base: "W", Map: 1})}, []mrogen.Param{pm("o", tInt)})}
		top := &mrogen.Pipeline{Name: "TOP", Ins: []mrogen.Param{pm("m", ty{Base: "S", Map: 1})}, Outs: []mrogen.Param{pm("r", tInt)},
			Calls: []*mrogen.Call{{Id: "C", Callee: "C", Bindings: []mrogen.Binding{{Param: "p", E: self("m")}}}},
			Ret:   []mrogen.Binding{{Param: "r", E: out("C", "o")}}}
		p.Pipelines = []*mrogen.Pipeline{top}
		inner := jsonx.NewObj()
		inner.Set("c", fmt.Sprintf("x%d", a))
		o := jsonx.NewObj()
		o.Set("", inner)
		p.Top = &mrogen.Call{Id: "TOP", Callee: "TOP", Bindings: []mrogen.Binding{{Param: "m", E: lit(o, ty{Base: "S", Map: 1})}}}
		return p
	}, true)
}

// TestC16KnownStructAsTypedMap: reproducer of a known finding.
func TestC16KnownStructAsTypedMap(t *testing.T) {
	var hit bool
	invocationCheck = nil
	defer func() { invocationCheck = nil }()
	knownPresentWith(t, "C16/struct-in-typed-map-position-in-fork-invocation", func(a int) *mrogen.Program {
		u := &mrogen.Universe{Structs: []*mrogen.Struct{
			{Name: "S1", Fields: []mrogen.Field{{Name: "y", T: ty{Base: "float"}}}},
			{Name: "S0", Fields: []mrogen.Field{{Name: "b", T: ty{Base: "float", Arr: 1, Map: 1}}}},
		}}
		p := &mrogen.Program{U: u}
		p.Stages = []*mrogen.Stage{st("C", []mrogen.Param{pm("p", ty{Base: "S0"})}, []mrogen.Param{pm("o", tInt)})}
		top := &mrogen.Pipeline{Name: "TOP", Ins: []mrogen.Param{pm("c", ty{Base: "S1", Arr: 1})}, Outs: []mrogen.Param{pm("r", tInt)},
			Calls: []*mrogen.Call{{Id: "C", Callee: "C", Bindings: []mrogen.Binding{{Param: "p", E: mrogen.StructLit{Fields: []string{"b"}, Vals: []mrogen.Expr{self("c")}}}}}},
			Ret:   []mrogen.Binding{{Param: "r", E: out("C", "o")}}}
		p.Pipelines = []*mrogen.Pipeline{top}
		o := jsonx.NewObj()
		o.Set("y", num(a))
		p.Top = &mrogen.Call{Id: "TOP", Callee: "TOP", Bindings: []mrogen.Binding{{Param: "c", E: lit([]any{o}, ty{Base: "S1", Arr: 1})}}}
		return p
	}, true)
	_ = hit
}
