//go:build verif

package run

import (
	"encoding/json"
	"fmt"
	"testing"

	"pgregory.net/rapid"

	"verifharness/jsonx"
	"verifharness/mrogen"
)

// Reproducers for the findings listed as "known" in known_findings.json:
// each runs a small hand-written program through the same checks and
// prints KNOWN-PRESENT while the program still fails.

type ty = mrogen.Ty

func pm(name string, t ty) mrogen.Param { return mrogen.Param{Name: name, T: t} }
func st(name string, ins, outs []mrogen.Param) *mrogen.Stage {
	return &mrogen.Stage{Name: name, Ins: ins, Outs: outs, SrcLang: "comp", SrcPath: "stagebin " + name}
}
func self(p string, path ...string) mrogen.Ref { return mrogen.Ref{Out: p, Path: path} }
func out(call, o string, path ...string) mrogen.Ref {
	return mrogen.Ref{Call: call, Out: o, Path: path}
}
func lit(v any, t ty) mrogen.Lit { return mrogen.Lit{V: v, T: t} }
func num(n int) json.Number      { return json.Number(fmt.Sprint(n)) }

var (
	tInt    = ty{Base: "int"}
	tStr    = ty{Base: "string"}
	tBool   = ty{Base: "bool"}
	tIntArr = ty{Base: "int", Arr: 1}
)

func knownPresent(t *testing.T, key string, build func(a int) *mrogen.Program) {
	knownPresentWith(t, key, build, false)
}

// knownPresentWith optionally also runs the C16 fork-invocation check.
func knownPresentWith(t *testing.T, key string, build func(a int) *mrogen.Program, withInvocations bool) {
	if withInvocations {
		installInvocationCheck()
		defer func() { invocationCheck = nil }()
	}
	root := workRoot(t)
	collectMode = true
	defer func() { collectMode = false }()
	var hit *violationErr
	for a := 1; a <= 12 && hit == nil; a++ {
		prog := build(a)
		rapid.Check(t, func(rt *rapid.T) {
			if hit != nil {
				return
			}
			defer func() {
				if p := recover(); p != nil {
					if v, ok := p.(violationErr); ok {
						hit = &v
						return
					}
					panic(p)
				}
			}()
			semCase(rt, root, prog)
		})
	}
	if hit != nil {
		fmt.Printf("KNOWN-PRESENT %s (observed as %s/%s)\n", key, hit.prop, hit.key)
	}
}

func TestKnownStructLiteralIntoMap(t *testing.T) {
	knownPresent(t, "C07/invoke-error:struct-literal-refs-into-untyped-map", func(a int) *mrogen.Program {
		u := &mrogen.Universe{Structs: []*mrogen.Struct{{Name: "S0", Fields: []mrogen.Field{{Name: "f", T: tInt}}}}}
		p := &mrogen.Program{U: u}
		p.Stages = []*mrogen.Stage{
			st("SRC", []mrogen.Param{pm("p", tInt)}, []mrogen.Param{pm("o", tInt)}),
			st("SINK", []mrogen.Param{pm("m", ty{Base: "map"})}, []mrogen.Param{pm("o", tInt)}),
		}
		inner := &mrogen.Pipeline{Name: "INNER", Ins: []mrogen.Param{pm("x", ty{Base: "S0"})}, Outs: []mrogen.Param{pm("r", tInt)},
			Calls: []*mrogen.Call{{Id: "SINK", Callee: "SINK", Bindings: []mrogen.Binding{{Param: "m", E: self("x")}}}},
			Ret:   []mrogen.Binding{{Param: "r", E: out("SINK", "o")}}}
		top := &mrogen.Pipeline{Name: "TOP", Ins: []mrogen.Param{pm("a", tInt)}, Outs: []mrogen.Param{pm("r", tInt)},
			Calls: []*mrogen.Call{
				{Id: "SRC", Callee: "SRC", Bindings: []mrogen.Binding{{Param: "p", E: self("a")}}},
				{Id: "INNER", Callee: "INNER", Bindings: []mrogen.Binding{{Param: "x", E: mrogen.StructLit{Fields: []string{"f"}, Vals: []mrogen.Expr{out("SRC", "o")}}}}},
			},
			Ret: []mrogen.Binding{{Param: "r", E: out("INNER", "r")}}}
		p.Pipelines = []*mrogen.Pipeline{inner, top}
		p.Top = &mrogen.Call{Id: "TOP", Callee: "TOP", Bindings: []mrogen.Binding{{Param: "a", E: lit(num(a), tInt)}}}
		return p
	})
}

func TestKnownSplitOverProjection(t *testing.T) {
	knownPresent(t, "C03/split-over-projected-output-not-forked", func(a int) *mrogen.Program {
		u := &mrogen.Universe{Structs: []*mrogen.Struct{{Name: "S0", Fields: []mrogen.Field{{Name: "f", T: ty{Base: "float"}}}}}}
		p := &mrogen.Program{U: u}
		p.Stages = []*mrogen.Stage{
			st("A", []mrogen.Param{pm("p", tInt)}, []mrogen.Param{pm("res", ty{Base: "S0", Arr: 1, Map: 1})}),
			st("B", []mrogen.Param{pm("p", ty{Base: "map"})}, []mrogen.Param{pm("o", tInt)}),
		}
		top := &mrogen.Pipeline{Name: "TOP", Ins: []mrogen.Param{pm("a", tInt)}, Outs: []mrogen.Param{pm("r", tIntArr)},
			Calls: []*mrogen.Call{
				{Id: "A", Callee: "A", Bindings: []mrogen.Binding{{Param: "p", E: self("a")}}},
				{Id: "B", Callee: "B", Mapped: true, Bindings: []mrogen.Binding{{Param: "p", E: mrogen.Split{E: out("A", "res", "f")}}}},
			},
			Ret: []mrogen.Binding{{Param: "r", E: out("B", "o")}}}
		p.Pipelines = []*mrogen.Pipeline{top}
		p.Top = &mrogen.Call{Id: "TOP", Callee: "TOP", Bindings: []mrogen.Binding{{Param: "a", E: lit(num(a), tInt)}}}
		return p
	})
}

func TestKnownSplitOverDisabledCall(t *testing.T) {
	knownPresent(t, "C01/runtime-panic:split-over-disabled-call-output", func(a int) *mrogen.Program {
		p := &mrogen.Program{U: &mrogen.Universe{Structs: []*mrogen.Struct{{Name: "S0", Fields: []mrogen.Field{{Name: "f", T: tInt}}}}}}
		p.Stages = []*mrogen.Stage{
			st("F", []mrogen.Param{pm("p", tInt)}, []mrogen.Param{pm("o", tBool)}),
			st("A", []mrogen.Param{pm("p", tInt)}, []mrogen.Param{pm("o", tIntArr)}),
			st("B", []mrogen.Param{pm("p", tInt)}, []mrogen.Param{pm("o", tInt)}),
		}
		flag := out("F", "o")
		top := &mrogen.Pipeline{Name: "TOP", Ins: []mrogen.Param{pm("a", tInt)}, Outs: []mrogen.Param{pm("r", tIntArr)},
			Calls: []*mrogen.Call{
				{Id: "F", Callee: "F", Bindings: []mrogen.Binding{{Param: "p", E: self("a")}}},
				{Id: "A", Callee: "A", Disabled: &flag, Bindings: []mrogen.Binding{{Param: "p", E: self("a")}}},
				{Id: "B", Callee: "B", Mapped: true, Bindings: []mrogen.Binding{{Param: "p", E: mrogen.Split{E: out("A", "o")}}}},
			},
			Ret: []mrogen.Binding{{Param: "r", E: out("B", "o")}}}
		p.Pipelines = []*mrogen.Pipeline{top}
		p.Top = &mrogen.Call{Id: "TOP", Callee: "TOP", Bindings: []mrogen.Binding{{Param: "a", E: lit(num(a), tInt)}}}
		return p
	})
}

func TestKnownTypedMapToMapProjection(t *testing.T) {
	knownPresent(t, "C01/typed-map-to-untyped-map-projection-null", func(a int) *mrogen.Program {
		u := &mrogen.Universe{Structs: []*mrogen.Struct{
			{Name: "S0", Fields: []mrogen.Field{{Name: "v", T: tStr}}},
			{Name: "S1", Fields: []mrogen.Field{{Name: "items", T: ty{Base: "S0", Arr: 1, Map: 1}}}},
			{Name: "S2", Fields: []mrogen.Field{{Name: "items", T: ty{Base: "map", Arr: 1}}}},
		}}
		p := &mrogen.Program{U: u}
		p.Stages = []*mrogen.Stage{
			st("A", []mrogen.Param{pm("p", tInt)}, []mrogen.Param{pm("o", ty{Base: "S1"})}),
			st("C", []mrogen.Param{pm("p", ty{Base: "S2"})}, []mrogen.Param{pm("o", tInt)}),
		}
		top := &mrogen.Pipeline{Name: "TOP", Ins: []mrogen.Param{pm("a", tInt)}, Outs: []mrogen.Param{pm("r", tInt)},
			Calls: []*mrogen.Call{
				{Id: "A", Callee: "A", Bindings: []mrogen.Binding{{Param: "p", E: self("a")}}},
				{Id: "C", Callee: "C", Bindings: []mrogen.Binding{{Param: "p", E: mrogen.StructLit{Fields: []string{"items"}, Vals: []mrogen.Expr{out("A", "o", "items", "v")}}}}},
			},
			Ret: []mrogen.Binding{{Param: "r", E: out("C", "o")}}}
		p.Pipelines = []*mrogen.Pipeline{top}
		p.Top = &mrogen.Call{Id: "TOP", Callee: "TOP", Bindings: []mrogen.Binding{{Param: "a", E: lit(num(a), tInt)}}}
		return p
	})
}

func TestKnownMappedPipelinePassThrough(t *testing.T) {
	knownPresent(t, "C01/map-calls-beyond-simple-envelope", func(a int) *mrogen.Program {
		p := &mrogen.Program{U: &mrogen.Universe{Structs: []*mrogen.Struct{{Name: "S0", Fields: []mrogen.Field{{Name: "f", T: tInt}}}}}}
		p.Stages = []*mrogen.Stage{st("A", []mrogen.Param{pm("p", tInt)}, []mrogen.Param{pm("o", tInt)}),
			st("G", []mrogen.Param{pm("p", tIntArr)}, []mrogen.Param{pm("o", tIntArr)})}
		inner := &mrogen.Pipeline{Name: "INNER", Ins: []mrogen.Param{pm("x", tInt), pm("s", tStr)}, Outs: []mrogen.Param{pm("r", tInt), pm("pass", tStr)},
			Calls: []*mrogen.Call{{Id: "A", Callee: "A", Bindings: []mrogen.Binding{{Param: "p", E: self("x")}}}},
			Ret:   []mrogen.Binding{{Param: "r", E: out("A", "o")}, {Param: "pass", E: self("s")}}}
		top := &mrogen.Pipeline{Name: "TOP", Ins: []mrogen.Param{pm("xs", tIntArr)},
			Outs: []mrogen.Param{pm("r", tIntArr), pm("pass", ty{Base: "string", Arr: 1})},
			Calls: []*mrogen.Call{
				{Id: "G", Callee: "G", Bindings: []mrogen.Binding{{Param: "p", E: self("xs")}}},
				{Id: "INNER", Callee: "INNER", Mapped: true, Bindings: []mrogen.Binding{
					{Param: "x", E: mrogen.Split{E: out("G", "o")}}, {Param: "s", E: lit("n", tStr)}}}},
			Ret: []mrogen.Binding{{Param: "r", E: out("INNER", "r")}, {Param: "pass", E: out("INNER", "pass")}}}
		p.Pipelines = []*mrogen.Pipeline{inner, top}
		p.Top = &mrogen.Call{Id: "TOP", Callee: "TOP", Bindings: []mrogen.Binding{
			{Param: "xs", E: lit([]any{num(a), num(a + 1)}, tIntArr)}}}
		return p
	})
}

func TestKnownTwinMapCall(t *testing.T) {
	knownPresent(t, "C01/fork-of-twin-map-call-not-matched", func(a int) *mrogen.Program {
		p := &mrogen.Program{U: &mrogen.Universe{Structs: []*mrogen.Struct{{Name: "S0", Fields: []mrogen.Field{{Name: "f", T: tInt}}}}}}
		tIntArr2 := ty{Base: "int", Arr: 2}
		p.Stages = []*mrogen.Stage{st("ST2", []mrogen.Param{pm("p", tIntArr)}, []mrogen.Param{pm("val", tInt)})}
		inner := &mrogen.Pipeline{Name: "PL0", Ins: []mrogen.Param{{Name: "f", T: tIntArr2, SplitSrc: true}}, Outs: []mrogen.Param{pm("out1", ty{Base: "ST2", Arr: 1})},
			Calls: []*mrogen.Call{{Id: "ST2", Callee: "ST2", Mapped: true, Bindings: []mrogen.Binding{{Param: "p", E: mrogen.Split{E: self("f")}}}}},
			Ret:   []mrogen.Binding{{Param: "out1", E: mrogen.Ref{Call: "ST2"}}}}
		top := &mrogen.Pipeline{Name: "TOP", Ins: []mrogen.Param{{Name: "f", T: tIntArr2, SplitSrc: true}}, Outs: []mrogen.Param{pm("o", ty{Base: "ST2", Arr: 1})},
			Calls: []*mrogen.Call{
				{Id: "PL0_D", Callee: "PL0", Bindings: []mrogen.Binding{{Param: "f", E: self("f")}}},
				{Id: "PL0_F", Callee: "PL0", Bindings: []mrogen.Binding{{Param: "f", E: mrogen.ArrayLit{Elems: []mrogen.Expr{
					lit([]any{num(a), num(a + 1)}, tIntArr), out("PL0_D", "out1", "val")}}}}},
			},
			Ret: []mrogen.Binding{{Param: "o", E: out("PL0_F", "out1")}}}
		p.Pipelines = []*mrogen.Pipeline{inner, top}
		p.Top = &mrogen.Call{Id: "TOP", Callee: "TOP", Bindings: []mrogen.Binding{{Param: "f", E: lit([]any{[]any{num(5)}}, tIntArr2)}}}
		return p
	})
}

// A pipeline mapped over a collection that is empty at run time: the stage
// inside that does not use the element runs all the same.
func TestKnownMappedPipelineOverEmpty(t *testing.T) {
	knownPresent(t, "C03/stage-of-mapped-pipeline-runs-for-empty-collection", func(a int) *mrogen.Program {
		p := &mrogen.Program{U: &mrogen.Universe{Structs: []*mrogen.Struct{{Name: "S0", Fields: []mrogen.Field{{Name: "f", T: tInt}}}}}}
		p.Stages = []*mrogen.Stage{
			st("GEN", []mrogen.Param{pm("p", tInt)}, []mrogen.Param{pm("xs", tIntArr)}),
			st("INDEP", []mrogen.Param{pm("y", tInt)}, []mrogen.Param{pm("o", tInt)}),
			st("DEP", []mrogen.Param{pm("x", tInt)}, []mrogen.Param{pm("o", tInt)}),
		}
		inner := &mrogen.Pipeline{Name: "INNER", Ins: []mrogen.Param{pm("x", tInt), pm("y", tInt)}, Outs: []mrogen.Param{pm("a", tInt), pm("b", tInt)},
			Calls: []*mrogen.Call{
				{Id: "INDEP", Callee: "INDEP", Bindings: []mrogen.Binding{{Param: "y", E: self("y")}}},
				{Id: "DEP", Callee: "DEP", Bindings: []mrogen.Binding{{Param: "x", E: self("x")}}}},
			Ret: []mrogen.Binding{{Param: "a", E: out("INDEP", "o")}, {Param: "b", E: out("DEP", "o")}}}
		top := &mrogen.Pipeline{Name: "TOP", Ins: []mrogen.Param{pm("n", tInt)}, Outs: []mrogen.Param{pm("a", tIntArr), pm("b", tIntArr)},
			Calls: []*mrogen.Call{
				{Id: "GEN", Callee: "GEN", Bindings: []mrogen.Binding{{Param: "p", E: self("n")}}},
				{Id: "INNER", Callee: "INNER", Mapped: true, Bindings: []mrogen.Binding{
					{Param: "x", E: mrogen.Split{E: out("GEN", "xs")}}, {Param: "y", E: lit(num(5), tInt)}}}},
			Ret: []mrogen.Binding{{Param: "a", E: out("INNER", "a")}, {Param: "b", E: out("INNER", "b")}}}
		p.Pipelines = []*mrogen.Pipeline{inner, top}
		// (GEN returns arrays of length 0..5 depending on its argument: some
		// of the twelve tries hit the empty one)
		p.Top = &mrogen.Call{Id: "TOP", Callee: "TOP", Bindings: []mrogen.Binding{{Param: "n", E: lit(num(a), tInt)}}}
		return p
	})
}

// A pipeline mapped over a typed map that contains a call with a typed-map
// output: mrp panics ("map<map> is not allowed!") when it records the final
// state.
func TestKnownMappedPipelineOverMapWithMapMember(t *testing.T) {
	knownPresent(t, "C01/runtime-panic:TypeLookup.GetMap", func(a int) *mrogen.Program {
		tMapStr := ty{Base: "string", Map: 1}
		p := &mrogen.Program{U: &mrogen.Universe{Structs: []*mrogen.Struct{{Name: "S0", Fields: []mrogen.Field{{Name: "f", T: tInt}}}}}}
		p.Stages = []*mrogen.Stage{st("M", []mrogen.Param{pm("p", tInt)}, []mrogen.Param{pm("o", tInt), pm("res", tMapStr)})}
		mid := &mrogen.Pipeline{Name: "MID", Ins: []mrogen.Param{pm("x", tInt)}, Outs: []mrogen.Param{pm("o", tInt), pm("m", tMapStr)},
			Calls: []*mrogen.Call{{Id: "M", Callee: "M", Bindings: []mrogen.Binding{{Param: "p", E: self("x")}}}},
			Ret:   []mrogen.Binding{{Param: "o", E: out("M", "o")}, {Param: "m", E: out("M", "res")}}}
		inner := &mrogen.Pipeline{Name: "INNER", Ins: []mrogen.Param{pm("x", tInt)}, Outs: []mrogen.Param{pm("r", tInt)},
			Calls: []*mrogen.Call{{Id: "MID", Callee: "MID", Bindings: []mrogen.Binding{{Param: "x", E: self("x")}}}},
			Ret:   []mrogen.Binding{{Param: "r", E: out("MID", "o")}}}
		top := &mrogen.Pipeline{Name: "TOP", Ins: []mrogen.Param{{Name: "xs", T: ty{Base: "int", Map: 1}, SplitSrc: true}}, Outs: []mrogen.Param{pm("r", ty{Base: "int", Map: 1})},
			Calls: []*mrogen.Call{{Id: "INNER", Callee: "INNER", Mapped: true, Bindings: []mrogen.Binding{{Param: "x", E: mrogen.Split{E: self("xs")}}}}},
			Ret:   []mrogen.Binding{{Param: "r", E: out("INNER", "r")}}}
		p.Pipelines = []*mrogen.Pipeline{mid, inner, top}
		m := jsonxObj("ka", num(a), "kb", num(a+1))
		p.Top = &mrogen.Call{Id: "TOP", Callee: "TOP", Bindings: []mrogen.Binding{{Param: "xs", E: lit(m, ty{Base: "int", Map: 1})}}}
		return p
	})
}

// An output of a mapped pipeline that is a constant (here: of a call
// disabled by a constant flag) is left as an unresolved merge expression.
func TestKnownMappedPipelineConstantOutput(t *testing.T) {
	knownPresent(t, "C01/unresolved-merge-expression", func(a int) *mrogen.Program {
		p := &mrogen.Program{U: &mrogen.Universe{Structs: []*mrogen.Struct{{Name: "S0", Fields: []mrogen.Field{{Name: "f", T: tInt}}}}}}
		p.Stages = []*mrogen.Stage{st("A", []mrogen.Param{pm("p", tInt)}, []mrogen.Param{pm("o", tInt)}),
			st("G", []mrogen.Param{pm("p", tInt)}, []mrogen.Param{{Name: "o", T: tIntArr, NonEmpty: true}})}
		flag := self("off")
		inner := &mrogen.Pipeline{Name: "INNER", Ins: []mrogen.Param{pm("x", tInt), {Name: "off", T: tBool, Flag: true}}, Outs: []mrogen.Param{pm("r", tInt), pm("d", tInt)},
			Calls: []*mrogen.Call{
				{Id: "A", Callee: "A", Bindings: []mrogen.Binding{{Param: "p", E: self("x")}}},
				{Id: "A_D", Callee: "A", Disabled: &flag, Bindings: []mrogen.Binding{{Param: "p", E: self("x")}}}},
			Ret: []mrogen.Binding{{Param: "r", E: out("A", "o")}, {Param: "d", E: out("A_D", "o")}}}
		top := &mrogen.Pipeline{Name: "TOP", Ins: []mrogen.Param{pm("n", tInt)}, Outs: []mrogen.Param{pm("r", tIntArr), pm("d", tIntArr)},
			Calls: []*mrogen.Call{
				{Id: "G", Callee: "G", Bindings: []mrogen.Binding{{Param: "p", E: self("n")}}},
				{Id: "INNER", Callee: "INNER", Mapped: true, Bindings: []mrogen.Binding{
					{Param: "x", E: mrogen.Split{E: out("G", "o")}}, {Param: "off", E: lit(true, tBool)}}}},
			Ret: []mrogen.Binding{{Param: "r", E: out("INNER", "r")}, {Param: "d", E: out("INNER", "d")}}}
		p.Pipelines = []*mrogen.Pipeline{inner, top}
		p.Top = &mrogen.Call{Id: "TOP", Callee: "TOP", Bindings: []mrogen.Binding{{Param: "n", E: lit(num(a), tInt)}}}
		return p
	})
}

// A pipeline that is called once plainly and once as a map call over a
// collection produced at run time.
func TestKnownPipelineMappedAndCalledAgain(t *testing.T) {
	knownPresent(t, "C01/pipeline-mapped-and-called-again", func(a int) *mrogen.Program {
		tFlt := ty{Base: "float"}
		tFltArr := ty{Base: "float", Arr: 1}
		p := &mrogen.Program{U: &mrogen.Universe{Structs: []*mrogen.Struct{{Name: "S0", Fields: []mrogen.Field{{Name: "f", T: tInt}}}}}}
		p.Stages = []*mrogen.Stage{
			st("G", []mrogen.Param{pm("p", tInt)}, []mrogen.Param{pm("o", tFlt), {Name: "val", T: tFltArr, NonEmpty: true}}),
			st("W", []mrogen.Param{pm("a", tFlt), pm("b", tFlt)}, []mrogen.Param{pm("o", tFlt)})}
		half := lit(json.Number("0.5"), tFlt)
		inner := &mrogen.Pipeline{Name: "PL0", Ins: []mrogen.Param{pm("a", tFlt), pm("b", tFlt)}, Outs: []mrogen.Param{pm("out0", tFlt), pm("out1", tFlt)},
			Calls: []*mrogen.Call{
				{Id: "W_I", Callee: "W", Bindings: []mrogen.Binding{{Param: "a", E: half}, {Param: "b", E: half}}},
				{Id: "W", Callee: "W", Bindings: []mrogen.Binding{{Param: "a", E: self("a")}, {Param: "b", E: self("b")}}}},
			Ret: []mrogen.Binding{{Param: "out0", E: out("W_I", "o")}, {Param: "out1", E: out("W", "o")}}}
		top := &mrogen.Pipeline{Name: "TOP", Ins: []mrogen.Param{pm("n", tInt)}, Outs: []mrogen.Param{pm("r", tFltArr), pm("s", tFlt)},
			Calls: []*mrogen.Call{
				{Id: "G", Callee: "G", Bindings: []mrogen.Binding{{Param: "p", E: self("n")}}},
				{Id: "PL0", Callee: "PL0", Bindings: []mrogen.Binding{{Param: "a", E: lit(json.Number("0.625"), tFlt)}, {Param: "b", E: out("G", "o")}}},
				{Id: "PL0_D", Callee: "PL0", Mapped: true, Bindings: []mrogen.Binding{
					{Param: "a", E: mrogen.Split{E: out("G", "val")}}, {Param: "b", E: mrogen.Split{E: out("G", "val")}}}}},
			Ret: []mrogen.Binding{{Param: "r", E: out("PL0_D", "out0")}, {Param: "s", E: out("PL0", "out0")}}}
		p.Pipelines = []*mrogen.Pipeline{inner, top}
		p.Top = &mrogen.Call{Id: "TOP", Callee: "TOP", Bindings: []mrogen.Binding{{Param: "n", E: lit(num(a), tInt)}}}
		return p
	})
}

func jsonxObj(kv ...any) *jsonx.Obj {
	o := jsonx.NewObj()
	for i := 0; i+1 < len(kv); i += 2 {
		o.Set(kv[i].(string), kv[i+1])
	}
	return o
}
