//go:build verif

package run

import (
	"fmt"
	"testing"

	"pgregory.net/rapid"

	"verifharness/jsonx"
	"verifharness/mrogen"
	"verifharness/stats"
)

var c11Runes = []rune("abzAZ09 _-.~!&'()*+,;=:@/%#?[]{}<>|\\\"`^éß世\U0001F600 \t\n\u0001\u007f")

var c11Pool = []string{"", ".", "..", "a.b", "a/b", "/", "50%", "%2E", "%2F", "%252E", "fork0", "fork_0", "_", "0", "1", "10", "01",
	"chnk0", ".chnk1", "x.u0123456789", "u0123456789", "split", "join", "complete", ".complete", "a.fork1.chnk2.u0123456789.complete",
	"sp ace", " lead", "trail ", "é", "é", "É", "ñ", "tab\t", "nl\n", "q\"t", "b\\s", "*", "?", "~", "key", "KEY", "Key"}

func genC11Key(t *rapid.T) string {
	if rapid.Bool().Draw(t, "poolKey") {
		return rapid.SampledFrom(c11Pool).Draw(t, "key")
	}
	return rapid.StringOfN(rapid.RuneFrom(c11Runes), 0, 12, 60).Draw(t, "key")
}

// TestC11Forks: mapped calls over adversarial key sets / lengths (static and
// produced at run time), with splitting stages whose chunk counts cross
// decimal widths; the run must complete and every fork must receive and
// return exactly its own element (checked by the C01/C03 machinery).
func TestC11Forks(t *testing.T) {
	root := workRoot(t)
	chunkChoices = []int{1, 2, 9, 10, 11}
	arrayLens = []int{0, 1, 2, 3, 9, 10, 11}
	propOverride = "C11"
	defer func() { chunkChoices, arrayLens, propOverride = nil, nil, "" }()
	rapid.Check(t, func(t *rapid.T) {
		defer func() {
			if p := recover(); p != nil {
				if _, ok := p.(surveySkip); !ok {
					panic(p)
				}
			}
		}()
		p := &mrogen.Program{U: &mrogen.Universe{Structs: []*mrogen.Struct{{Name: "S0", Fields: []mrogen.Field{{Name: "f", T: tInt}}}}}}
		split := rapid.Bool().Draw(t, "splitStage")
		w := st("W", []mrogen.Param{pm("x", tInt), pm("tag", tStr)}, []mrogen.Param{pm("o", tInt)})
		if split {
			w.Split = true
			w.ChunkIns = []mrogen.Param{pm("chunk_in", tInt)}
			w.ChunkOuts = []mrogen.Param{pm("chunk_out", tInt)}
		}
		p.Stages = []*mrogen.Stage{
			st("G", []mrogen.Param{pm("p", tInt)}, []mrogen.Param{pm("m", ty{Base: "int", Map: 1}), pm("arr", tIntArr)}),
			w,
		}
		top := &mrogen.Pipeline{Name: "TOP", Ins: []mrogen.Param{pm("a", tInt)}}
		top.Calls = append(top.Calls, &mrogen.Call{Id: "G", Callee: "G", Bindings: []mrogen.Binding{{Param: "p", E: self("a")}}})
		kind := rapid.SampledFrom([]string{"static-map", "static-map", "static-array", "dynamic-map", "dynamic-array"}).Draw(t, "source")
		var src mrogen.Expr
		classes := []string{"c11", "source:" + kind}
		hostile := false
		switch kind {
		case "static-map":
			n := rapid.IntRange(1, 6).Draw(t, "nKeys")
			m := mrogen.MapLit{}
			seen := map[string]bool{}
			for len(m.Keys) < n {
				k := genC11Key(t)
				if len(m.Keys) > 0 {
					// keys related to an earlier key: one a suffix / prefix of
					// the other, differing only in case or in an encoded form
					base := m.Keys[rapid.IntRange(0, len(m.Keys)-1).Draw(t, "baseKey")]
					switch rapid.IntRange(0, 9).Draw(t, "related") {
					case 0:
						k = rapid.SampledFrom([]string{"x", "patient", "a.b", "0", "fork"}).Draw(t, "prefix") + "_" + base
					case 1:
						k = base + rapid.SampledFrom([]string{"_x", ".x", "0", "/", "_"}).Draw(t, "suffix")
					case 2:
						k = "_" + base
					case 3:
						if rs := []rune(base); len(rs) > 1 {
							k = string(rs[1:])
						}
					}
				}
				if seen[k] {
					continue
				}
				seen[k] = true
				m.Keys = append(m.Keys, k)
				m.Vals = append(m.Vals, lit(num(len(m.Keys)), tInt))
				for _, r := range k {
					if !(r >= 'a' && r <= 'z' || r >= '0' && r <= '9') {
						hostile = true
					}
				}
				if k == "" {
					hostile = true
				}
			}
			src = m
		case "static-array":
			n := rapid.SampledFrom([]int{1, 2, 9, 10, 11, 100, 101}).Draw(t, "len")
			a := mrogen.ArrayLit{}
			for i := 0; i < n; i++ {
				a.Elems = append(a.Elems, lit(num(i+1), tInt))
			}
			src = a
			classes = append(classes, fmt.Sprintf("len:%d", n))
			hostile = n >= 10
		case "dynamic-map":
			src = out("G", "m")
			hostile = true
		default:
			src = out("G", "arr")
			hostile = true
		}
		top.Calls = append(top.Calls, &mrogen.Call{Id: "W", Callee: "W", Mapped: true, Bindings: []mrogen.Binding{
			{Param: "x", E: mrogen.Split{E: src}}, {Param: "tag", E: lit("t", tStr)}}})
		outT := tIntArr
		if kind == "static-map" || kind == "dynamic-map" {
			outT = ty{Base: "int", Map: 1}
		}
		top.Outs = []mrogen.Param{pm("r", outT)}
		top.Ret = []mrogen.Binding{{Param: "r", E: out("W", "o")}}
		p.Pipelines = []*mrogen.Pipeline{top}
		p.Top = &mrogen.Call{Id: "TOP", Callee: "TOP", Bindings: []mrogen.Binding{{Param: "a", E: lit(num(rapid.IntRange(0, 500).Draw(t, "a")), tInt)}}}
		if split {
			classes = append(classes, "split-stage")
		}
		c11Extra = classes
		c11Nontrivial = hostile
		semCase(t, root, p)
		_ = jsonx.NewObj
		_ = stats.Tier
	})
}
