//go:build verif

package run

import (
	"fmt"
	"os"
	"strings"
	"testing"

	"pgregory.net/rapid"

	"verifharness/stats"
)

func TestMain(m *testing.M) {
	code := m.Run()
	stats.Flush()
	os.Exit(code)
}

// violationErr is what fail panics with in collect mode (reproducers of
// known findings ask "does this program still fail?").
type violationErr struct{ prop, key, msg string }

var collectMode bool

// propOverride attributes every violation found by a test to one property
// (the fork-identity test reuses the C01/C03 machinery).
var propOverride string

func fail(t *rapid.T, prop, key, format string, args ...any) {
	t.Helper()
	if propOverride != "" && prop != propOverride {
		key = prop + "-" + key
		prop = propOverride
	}
	if collectMode {
		panic(violationErr{prop, key, fmt.Sprintf(format, args...)})
	}
	if dir := os.Getenv("VERIF_SURVEY"); dir != "" {
		stats.Count(prop, "survey:"+key, 1)
		name := dir + "/" + strings.NewReplacer("/", "_", ":", "_", " ", "_").Replace(prop+"_"+key) + ".txt"
		if _, err := os.Stat(name); err != nil {
			os.WriteFile(name, []byte(fmt.Sprintf(format, args...)), 0o644)
		}
		surveyLog(dir, prop+"/"+key)
		panic(surveySkip{})
	}
	t.Fatalf("VKEY=%s/%s %s", prop, key, fmt.Sprintf(format, args...))
}

type surveySkip struct{}

// survey mode (VERIF_SURVEY=<dir>, exploration only): every case of a test
// that sets surveyTagFn leaves a line "<tag>\t<outcome>" in outcomes.tsv.
var (
	surveyTag   string
	surveyTagFn func(model any) string
)

func surveyLog(dir, outcome string) {
	if surveyTag == "" {
		return
	}
	f, err := os.OpenFile(dir+"/outcomes.tsv", os.O_APPEND|os.O_CREATE|os.O_WRONLY, 0o644)
	if err == nil {
		fmt.Fprintf(f, "%s\t%s\n", surveyTag, outcome)
		f.Close()
	}
	surveyTag = ""
}

func workRoot(t interface{ Fatalf(string, ...any) }) string {
	w := os.Getenv("VERIF_WORK")
	if w == "" {
		w = "/tmp/verif-work-dev"
	}
	if err := os.MkdirAll(w, 0o755); err != nil {
		t.Fatalf("INFRA: %v", err)
	}
	return w
}
