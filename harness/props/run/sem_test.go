//go:build verif

package run

import (
	"fmt"
	"os"
	"path/filepath"
	"regexp"
	"runtime/debug"
	"sort"
	"strings"
	"testing"

	"github.com/martian-lang/martian/martian/core"
	"github.com/martian-lang/martian/martian/syntax"
	"pgregory.net/rapid"

	"verifharness/jsonx"
	"verifharness/mrogen"
	"verifharness/refsem"
	"verifharness/simrun"
	"verifharness/stagefn"
	"verifharness/stats"
)

// knownExclusions maps known-finding keys to the generator shape that is
// excluded by construction while the finding is listed.
var knownExclusions = map[string]string{
	"C03/split-over-projected-output-not-forked":             "split-over-projected-output",
	"C01/runtime-panic:split-over-disabled-call-output":      "split-over-disabled-call-output",
	"C01/typed-map-to-untyped-map-projection-null":           "typed-map-to-untyped-map",
	"C16/struct-in-typed-map-position-in-fork-invocation":    "struct-to-typed-map",
	"C01/fork-of-twin-map-call-not-matched":                  "twin-instance-feeds-split",
	"C03/stage-of-mapped-pipeline-runs-for-empty-collection": "mapped-pipeline-over-empty",
	"C01/runtime-panic:TypeLookup.GetMap":                    "mapped-pipeline-over-map-with-map-member",
	"C01/unresolved-merge-expression":                        "mapped-pipeline-constant-output",
	"C01/pipeline-mapped-and-called-again":                   "mapped-pipeline-called-again",
}

func semCfg() *mrogen.ProgCfg {
	c := semCfgFull()
	c.Excluded = excluded
	c.Exclude = map[string]bool{}
	for k, shape := range knownExclusions {
		if stats.Known(k) {
			c.Exclude[shape] = true
		}
	}
	for _, x := range strings.Split(os.Getenv("VERIF_EXCLUDE"), ",") {
		c.Exclude[x] = true
	}
	if stats.Known("C07/invoke-error:struct-literal-refs-into-untyped-map") {
		c.NoStructToMap = true
	}
	if stats.Known("C01/map-calls-beyond-simple-envelope") {
		// map calls of pipelines, chained map calls and map calls inside
		// called pipelines hit several distinct defects (see
		// known_findings.json); the generator stays inside the envelope
		// "stages mapped in the top pipeline over inputs, literals or
		// direct stage outputs".
		// (VERIF_LEVEL=5t / 6t explore mapped pipelines: the defects met
		// there first are listed one by one and excluded above, but the
		// ground behind them is not firm enough for a registered check.)
		c.MapLevel = 1
		c.MapOnlyInTop = true
	}
	switch os.Getenv("VERIF_LEVEL") {
	case "0":
		c.MapCalls, c.Disabled, c.SplitStage, c.Preflight = false, false, false, false
	case "1":
		c.MapCalls, c.Disabled, c.Preflight = false, false, false
	case "2":
		c.MapCalls = false
	case "3t":
		c.MapLevel = 1
		c.MapOnlyInTop = true
	case "4t":
		c.MapLevel = 2
		c.MapOnlyInTop = true
	case "5t":
		c.MapLevel = 2
		c.MapOnlyInTop = true
		c.NoChainedMaps = true
	case "6t":
		c.MapLevel = 2
		c.MapOnlyInTop = true
		c.NoChainedMaps = true
		c.StaticPipelineMaps = true
		c.SplitFlags = true
	case "3":
		c.MapLevel = 1
	case "4":
		c.MapLevel = 2
	}
	return c
}

func semCfgFull() *mrogen.ProgCfg {
	return &mrogen.ProgCfg{MaxStages: 4, MaxPipelines: 3, MaxCalls: 4, MapCalls: true, Disabled: true, SplitStage: true,
		Preflight: true, NoFiles: true, Views: true, Assignable: refsem.Assignable,
		Values: mrogen.ValueCfg{NullPct: 5, PlainStrings: true, SafeKeys: false, PlainNumbers: true}}
}

var caseSeq int

// C11 mode: semCase records its case under C11 with these classes.
var (
	c11Extra      []string
	c11Nontrivial bool
	chunkChoices  []int
	arrayLens     []int
)

// invocationCheck (C16 c) runs after a completed pipestance.
var invocationCheck func(t *rapid.T, rc *runCase)

// strictMode: C07 part A - run with the strictest enforcement level and
// validate every delivered argument against its parameter type.
var strictMode bool

// excluded counts constructs the generator avoided because of known findings.
var excluded = map[string]int{}

// runCase is the outcome of driving one pipestance to the end.
type runCase struct {
	prog     *mrogen.Program
	src      string
	model    *refsem.Result
	sim      *simrun.Sim
	history  []string
	reorders int
	maxPend  int
	// hooks of the file runs
	onSubmit func(j *simrun.Job)
	onFinish func(j *simrun.Job)
	yield    func()
	// hooks of the interruption / fault runs
	persist   string // violation key to report if the process dies
	baseG     int    // goroutines when the case started
	seen      int
	intervene func() core.MetadataState
	finish    func(j *simrun.Job) bool
}

func (rc *runCase) logf(f string, a ...any) {
	rc.history = append(rc.history, fmt.Sprintf(f, a...))
	if rc.persist != "" {
		// martian may end the process (util.Suicide): keep the history of
		// the case in flight where the driver finds it
		stats.Inflight(rc.persist, []byte(rc.describe()))
	}
}

func (rc *runCase) describe() string {
	var b strings.Builder
	b.WriteString("program:\n" + rc.src + "\nschedule:\n  " + strings.Join(rc.history, "\n  ") + "\n")
	return b.String()
}

func stripReserved(v any) any {
	if o, ok := v.(*jsonx.Obj); ok {
		r := jsonx.NewObj()
		for i, k := range o.Keys {
			if !strings.HasPrefix(k, "__") {
				r.Set(k, o.Vals[i])
			}
		}
		return r
	}
	return v
}

func stripAll(vs []any) []any {
	r := make([]any, len(vs))
	for i, v := range vs {
		r[i] = stripReserved(v)
	}
	return r
}

// modelIndex groups the model's jobs.
type modelIndex struct {
	trueDeps map[string][]string      // job key -> producer instances it really depends on
	byKey    map[string][]*refsem.Job // CallPath|phase -> jobs
	final    map[string]*refsem.Job   // instance id -> final job (main or join)
	byInst   map[string][]*refsem.Job
	callCnt  map[string]int
}

func indexModel(m *refsem.Result) *modelIndex {
	ix := &modelIndex{byKey: map[string][]*refsem.Job{}, final: map[string]*refsem.Job{}, byInst: map[string][]*refsem.Job{}, callCnt: map[string]int{}}
	for _, j := range m.Jobs {
		k := j.CallPath + "|" + j.Phase
		ix.byKey[k] = append(ix.byKey[k], j)
		ix.byInst[j.Inst()] = append(ix.byInst[j.Inst()], j)
		if j.Phase == "main" || j.Phase == "join" {
			ix.final[j.Inst()] = j
		}
	}
	return ix
}

func canonArgs(o *jsonx.Obj) string { return stagefn.Canon(refsem.Concretize(o)) }

// checkJobStart performs the C01 (arguments) and C02 (ordering) checks for
// a job at the moment it was handed to the job manager.
func (rc *runCase) checkJobStart(t *rapid.T, ix *modelIndex, j *simrun.Job) {
	if j.ReadErr != nil {
		fail(t, "C01", "job-args-unreadable", "job %s: %v\n%s", j, j.ReadErr, rc.describe())
	}
	// --- C01: the job received what the model says
	cands := ix.byKey[j.CallPath+"|"+j.Phase]
	want := canonArgs(j.Args)
	var matches []*refsem.Job
	for _, m := range cands {
		if canonArgs(m.Args) == want {
			matches = append(matches, m)
		}
	}
	if len(matches) == 0 {
		var exp []string
		for _, m := range cands {
			exp = append(exp, string(jsonx.Marshal(refsem.Concretize(m.Args))))
		}
		key := "args-differ"
		if len(cands) == 0 {
			key = "unexpected-job"
			fail(t, "C03", key, "job %s was started with args %s but the model has no %s job for call %s (disabled call, or fork that should not exist)\n%s",
				j, jsonx.Marshal(j.Args), j.Phase, j.CallPath, rc.describe())
		}
		fail(t, "C01", key, "job %s received args\n  %s\nthe model expects one of\n  %s\n%s", j, jsonx.Marshal(j.Args), strings.Join(exp, "\n  "), rc.describe())
	}
	var precise []*refsem.Job
	var firstDiff string
	for _, m := range matches {
		ok, d := refsem.EqualSoft(stripReserved(m.Args), stripReserved(j.Args), "args")
		if ok && j.Phase == "join" {
			if ok2, d2 := refsem.EqualSoft(stripAll(m.ChunkDefs), stripAll(j.ChunkDefs), "chunk_defs"); !ok2 {
				ok, d = false, d2
			} else if ok3, d3 := refsem.EqualSoft(m.ChunkOuts, j.ChunkOuts, "chunk_outs"); !ok3 {
				ok, d = false, d3
			}
		}
		if ok {
			precise = append(precise, m)
		} else if firstDiff == "" {
			firstDiff = d
		}
	}
	if len(precise) == 0 {
		key := "args-differ"
		if strings.HasPrefix(firstDiff, "chunk_") {
			key = "join-chunk-data-differs"
		}
		fail(t, "C01", key, "job %s: %s\n  received args %s\n  chunk_defs %s\n  chunk_outs %s\n%s", j, firstDiff, jsonx.Marshal(j.Args), jsonx.Marshal(j.ChunkDefs), jsonx.Marshal(j.ChunkOuts), rc.describe())
	}
	if strictMode && j.Stage != nil {
		u := refsem.ExtUniverse(rc.prog)
		ins := j.Stage.Ins
		if j.Phase == "chunk" {
			ins = append(append([]mrogen.Param{}, ins...), j.Stage.ChunkIns...)
		}
		for _, p := range ins {
			v, _ := j.Args.Get(p.Name)
			if val := refsem.Valid(u, p.T, v); !val.OK && !val.Ambiguous {
				fail(t, "C07", "delivered-arg-not-of-declared-type", "job %s: argument %s = %s does not conform to %s\n%s", j, p.Name, jsonx.Marshal(v), p.T, rc.describe())
			}
		}
	}
	// --- C02: everything it depends on has finished (weakest reading:
	// for at least one model instance compatible with this job).
	doneFinal := func(inst string) bool {
		fj := ix.final[inst]
		if fj == nil {
			return true // the producer instance ran no job (disabled)
		}
		w := canonArgs(fj.Args)
		for _, a := range rc.sim.Jobs {
			if a.Done && a.CallPath == fj.CallPath && (a.Phase == "main" || a.Phase == "join") && canonArgs(a.Args) == w {
				return true
			}
		}
		return false
	}
	okSome := false
	var missing string
	for _, m := range precise {
		all := true
		for _, d := range ix.trueDeps[m.Key()] {
			if !doneFinal(d) {
				all = false
				missing = d
				break
			}
		}
		if all {
			okSome = true
			break
		}
	}
	if !okSome {
		fail(t, "C02", "started-before-dependency-finished", "job %s was started although the call instance %s whose output it consumes has not finished\n%s", j, missing, rc.describe())
	}
	// phase order within the fork
	for _, a := range rc.sim.Jobs {
		if a == j || a.CallPath != j.CallPath || a.ForkName != j.ForkName {
			continue
		}
		switch {
		case j.Phase == "chunk" && a.Phase == "split" && !a.Done:
			fail(t, "C02", "chunk-before-split-finished", "chunk job %s started before the split job finished\n%s", j, rc.describe())
		case j.Phase == "join" && (a.Phase == "chunk" || a.Phase == "split") && !a.Done:
			fail(t, "C02", "join-before-chunks-finished", "join job %s started before %s finished\n%s", j, a, rc.describe())
		}
	}
	// preflights of enclosing pipelines
	parts := strings.Split(j.CallPath, ".")
	for n := 1; n < len(parts); n++ {
		plPath := strings.Join(parts[:n], ".")
		for _, pf := range rc.model.Preflight[plPath] {
			if pf == j.CallPath {
				continue
			}
			if rc.model.StageCalls[pf] == 0 {
				continue
			}
			done := 0
			for _, a := range rc.sim.Jobs {
				if a.CallPath == pf && a.Done {
					done++
				} else if a.CallPath == pf && !a.Done {
					done = -1000
				}
			}
			if done < 1 {
				fail(t, "C02", "started-before-preflight-finished", "job %s was started before preflight call %s of an enclosing pipeline finished\n%s", j, pf, rc.describe())
			}
		}
	}
}

// drive runs the pipestance to completion under a generated schedule.
func (rc *runCase) drive(t *rapid.T, ix *modelIndex) core.MetadataState {
	checkNew := func() {
		for rc.seen < len(rc.sim.Jobs) {
			j := rc.sim.Jobs[rc.seen]
			rc.seen++
			rc.logf("submit %s", j)
			rc.checkJobStart(t, ix, j)
			if rc.onSubmit != nil {
				rc.onSubmit(j)
			}
		}
	}
	stall := 0
	for iter := 0; iter < 5000; iter++ {
		if rc.intervene != nil {
			// (may replace rc.sim: interruption and re-attach)
			if st := rc.intervene(); st != "" {
				return st
			}
		}
		sim := rc.sim
		pat := rapid.SampledFrom([]string{"rs", "rs", "rs", "s", "r", "rss", "rrs", "srs"}).Draw(t, "sched")
		progress := false
		for _, c := range pat {
			if c == 'r' {
				sim.Refresh()
			} else {
				st := sim.State()
				if st == core.Complete || st == core.DisabledState || st == core.Failed {
					break
				}
				if sim.Step() {
					progress = true
				}
				checkNew()
			}
		}
		rc.logf("sched %s", pat)
		if rc.yield != nil {
			rc.yield()
		}
		st := sim.State()
		if st == core.Complete || st == core.DisabledState || st == core.Failed {
			// make sure the final state is not stale
			sim.Refresh()
			if st2 := sim.State(); st2 == st {
				return st
			}
			continue
		}
		pending := sim.Pending()
		if len(pending) > rc.maxPend {
			rc.maxPend = len(pending)
		}
		if len(pending) == 0 {
			if progress {
				stall = 0
			} else if strings.Contains(pat, "rs") {
				// only a refresh followed by a step can be expected to
				// make progress on its own
				stall++
				if stall >= 4 {
					fail(t, "C03", "stalled", "no job is pending and the scheduler makes no progress, pipestance state %q\n%s", st, rc.describe())
				}
			}
			continue
		}
		stall = 0
		k := rapid.IntRange(1, min(3, len(pending))).Draw(t, "nFinish")
		for i := 0; i < k; i++ {
			pending = sim.Pending()
			if len(pending) == 0 {
				break
			}
			idx := rapid.IntRange(0, len(pending)-1).Draw(t, "which")
			if idx != 0 {
				rc.reorders++
			}
			j := pending[idx]
			if rc.onFinish != nil {
				rc.onFinish(j)
			}
			if rc.finish != nil {
				// (fault injection: the job may end in a failure instead)
				if rc.finish(j) {
					continue
				}
			}
			if err := sim.Finish(j); err != nil {
				t.Fatalf("INFRA: finishing %s: %v", j, err)
			}
			rc.logf("finish %s -> %s", j, jsonx.Marshal(j.Outs))
		}
	}
	fail(t, "C03", "stalled", "pipestance did not finish within the step budget\n%s", rc.describe())
	return ""
}

// TestRunSemantics decides C01, C02 and C03 on the same generated runs.
func TestRunSemantics(t *testing.T) {
	root := workRoot(t)
	rapid.Check(t, func(t *rapid.T) {
		defer func() {
			if p := recover(); p != nil {
				if _, ok := p.(surveySkip); !ok {
					panic(p)
				}
			}
		}()
		prog := mrogen.GenProgram(t, semCfg())
		for k, v := range excluded {
			for _, prop := range []string{"C01", "C02", "C03"} {
				stats.Count(prop, "excluded_known:"+k, int64(v))
			}
			delete(excluded, k)
		}
		semCase(t, root, prog)
	})
}

// skipTopOuts: the recorded top-level outputs are not compared (set by a test
// while a known finding about exactly them is listed).
var skipTopOuts bool

// semCase runs one program under a generated schedule and performs the
// C01 / C02 / C03 checks.
func semCase(t *rapid.T, root string, prog *mrogen.Program) {
	{
		caseSeq++
		dir := filepath.Join(root, fmt.Sprintf("sem%d-%d", os.Getpid(), caseSeq))
		defer os.RemoveAll(dir)
		src := prog.Source(runLayout(t))
		nullChoices := []int{0, 0, 5}
		if strictMode {
			nullChoices = []int{0, 5, 20}
		}
		opts := simrun.Options{StageOpts: stagefn.Opts{NullPct: rapid.SampledFrom(nullChoices).Draw(t, "outNullPct"), ChunkChoices: chunkChoices, ArrayLens: arrayLens}}
		model := refsem.Eval(prog, &opts.StageOpts)
		if model.Unsupported != "" {
			stats.Count("C01", "model_declined:"+model.Unsupported, 1)
			return
		}
		if len(model.Jobs) > 150 {
			stats.Count("C01", "too_many_jobs_skipped", 1)
			return
		}
		if surveyTagFn != nil {
			surveyTag = surveyTagFn(model)
		}
		// a panic inside martian while invoking or running a well-typed
		// program is a violation, not an infrastructure problem.
		defer func() {
			if p := recover(); p != nil {
				if _, ok := p.(surveySkip); ok {
					panic(p)
				}
				stack := string(debug.Stack())
				if !strings.Contains(stack, "martian/martian/") {
					panic(p)
				}
				fn := "unknown"
				if m := regexp.MustCompile(`martian/martian/(?:core|syntax)\.([A-Za-z0-9_().*]+)\(`).FindStringSubmatch(stack[strings.Index(stack, "panic("):]); m != nil {
					fn = strings.NewReplacer("(", "", ")", "", "*", "").Replace(m[1])
				}
				fail(t, "C01", "runtime-panic:"+fn, "martian panicked: %v\nprogram:\n%s\n%s", p, src, stats.Trunc(stack, 3000))
			}
		}()
		sim, err := simrun.New(prog, src, dir, opts)
		if err != nil {
			// the program compiles (checked by the generator soundness
			// test) but its call graph cannot be resolved.
			msg := err.Error()
			key := regexp.MustCompile(`[A-Za-z]+Error|unexpected [a-z ]+|cannot [a-z ]+`).FindString(msg)
			if strings.Contains(msg, "cannot be bound inside an untyped map") {
				key = "struct-literal-refs-into-untyped-map"
			}
			fail(t, "C07", "invoke-error:"+strings.ReplaceAll(key, " ", "-"), "the compiler accepts the program but its bindings cannot be resolved when it is invoked: %v\n%s", err, src)
		}
		defer sim.Close()
		rc := &runCase{prog: prog, src: src, model: model, sim: sim}
		ix := indexModel(model)
		ix.trueDeps = refsem.TrueDeps(prog, &opts.StageOpts, model)
		st := rc.drive(t, ix)
		if st == core.Failed && strictMode {
			fail(t, "C07", "run-failed-under-strict-enforcement", "the pipestance failed at the strictest enforcement level although every stage produced conforming outputs: %s\n%s", sim.FatalError(), rc.describe())
		}
		if st == core.Failed {
			fail(t, "C01", "run-failed-without-fault", "the pipestance failed although no job failed: %s\n%s", sim.FatalError(), rc.describe())
		}
		// --- C03: exactly the model's jobs ran
		actual := map[string][]string{}
		for _, j := range sim.Jobs {
			k := j.CallPath + "|" + j.Phase
			actual[k] = append(actual[k], canonArgs(j.Args))
		}
		keys := map[string]bool{}
		for k := range ix.byKey {
			keys[k] = true
		}
		for k := range actual {
			keys[k] = true
		}
		var ks []string
		for k := range keys {
			ks = append(ks, k)
		}
		sort.Strings(ks)
		for _, k := range ks {
			var want []string
			for _, m := range ix.byKey[k] {
				want = append(want, canonArgs(m.Args))
			}
			got := append([]string{}, actual[k]...)
			sort.Strings(want)
			sort.Strings(got)
			if strings.Join(want, "\n") != strings.Join(got, "\n") {
				key := "job-multiset-differs"
				if len(got) > len(want) {
					key = "job-executed-more-than-expected"
				} else if len(got) < len(want) {
					key = "job-skipped"
				}
				fail(t, "C03", key, "%s: the model expects %d jobs, %d ran\n expected args: %s\n actual args:   %s\n%s", k, len(want), len(got), strings.Join(want, " ; "), strings.Join(got, " ; "), rc.describe())
			}
		}
		// --- C01: top-level outputs
		outs, err := sim.TopOuts()
		if err != nil {
			fail(t, "C01", "top-outs-unreadable", "%v\n%s", err, rc.describe())
		}
		if ok, d := refsem.EqualSoft(model.Outs, outs, "outs"); !ok && !skipTopOuts {
			fail(t, "C01", "top-outs-differ", "%s\n  recorded: %s\n  model:    %s\n%s", d, jsonx.Marshal(outs), jsonx.Marshal(refsem.Concretize(model.Outs)), rc.describe())
		}
		if invocationCheck != nil {
			invocationCheck(t, rc)
		}
		sim.Cleanup()

		// --- classification
		f := model.Features
		var classes []string
		for k := range f {
			classes = append(classes, k)
		}
		sort.Strings(classes)
		njobs := len(model.Jobs)
		interesting := f["map-call:array"]+f["map-call:map"]+f["disabled-modifier"]+f["projection"]+f["sub-pipeline"] > 0
		digest := stats.Digest(src, strings.Join(rc.history, "|"))
		sample := func() any {
			return map[string]any{"program": stats.Trunc(src, 1500), "jobs": njobs, "features": classes, "schedule": stats.Trunc(strings.Join(rc.history, "; "), 600)}
		}
		if invocationCheck != nil {
			stats.Case("C16", c16Checked >= 2, digest, []string{"fork-invocations"}, sample)
			return
		}
		if c11Extra != nil {
			stats.Case("C11", c11Nontrivial, digest, c11Extra, sample)
			c11Extra = nil
			return
		}
		if strictMode {
			conv := f["projection"] + f["sub-pipeline"] + f["map-call:array"] + f["map-call:map"]
			stats.Case("C07", njobs >= 1 && conv > 0, digest, append([]string{"accept-run"}, classes...), sample)
			return
		}
		stats.Case("C01", njobs >= 2 && interesting, digest, classes, sample)
		crossing := false
		for _, j := range model.Jobs {
			for _, d := range ix.trueDeps[j.Key()] {
				dp := refsem.DepCallPath(d)
				if filepath.Dir(strings.ReplaceAll(dp, ".", "/")) != filepath.Dir(strings.ReplaceAll(j.CallPath, ".", "/")) {
					crossing = true
				}
			}
		}
		c2 := []string{fmt.Sprintf("maxpending:%d", min(rc.maxPend, 5))}
		if crossing {
			c2 = append(c2, "dep-crosses-pipeline")
		}
		if f["map-source:dynamic"] > 0 {
			c2 = append(c2, "dynamic-forks")
		}
		if len(model.Preflight) > 0 {
			c2 = append(c2, "preflight")
		}
		stats.Case("C02", (rc.maxPend >= 2 && rc.reorders > 0) || crossing || f["map-source:dynamic"] > 0, digest, c2, sample)
		c3 := []string{}
		nt3 := false
		for k := range f {
			if strings.HasPrefix(k, "map-size:") || strings.HasPrefix(k, "chunks:") || k == "disabled-true" || k == "map-over-empty" {
				c3 = append(c3, k)
				if k != "map-size:1" && k != "chunks:1" {
					nt3 = true
				}
			}
		}
		sort.Strings(c3)
		stats.Case("C03", nt3, digest, c3, sample)
	}
}

// TestC07Accept: accepted programs run at the strictest enforcement level
// without any binding-resolution or type error, and every delivered
// argument conforms to its parameter type.
func TestC07Accept(t *testing.T) {
	root := workRoot(t)
	syntax.SetEnforcementLevel(syntax.EnforceError)
	strictMode = true
	defer func() {
		strictMode = false
		syntax.SetEnforcementLevel(syntax.EnforceDisable)
	}()
	rapid.Check(t, func(t *rapid.T) {
		defer func() {
			if p := recover(); p != nil {
				if _, ok := p.(surveySkip); !ok {
					panic(p)
				}
			}
		}()
		prog := mrogen.GenProgram(t, semCfg())
		for k, v := range excluded {
			stats.Count("C07", "excluded_known:"+k, int64(v))
			delete(excluded, k)
		}
		semCase(t, root, prog)
	})
}

// runLayout: the order in which the calls of a pipeline are written has no
// meaning; one program in three is written in a drawn order (one in nine
// back to front), so that nothing mrp does can lean on "as generated".
func runLayout(t *rapid.T) *mrogen.Layout {
	if rapid.IntRange(0, 2).Draw(t, "shuffleCalls") != 0 {
		return nil
	}
	return &mrogen.Layout{ShuffleCalls: true, CallOrder: func(n int) int { return rapid.IntRange(0, n-1).Draw(t, "callOrder") }}
}
