//go:build verif

package run

import (
	"crypto/sha256"
	"encoding/json"
	"fmt"
	"os"
	"path/filepath"
	"regexp"
	"runtime"
	"sort"
	"strings"
	"testing"
	"time"

	"github.com/martian-lang/martian/martian/core"
	"pgregory.net/rapid"

	"verifharness/filesim"
	"verifharness/jsonx"
	"verifharness/mrogen"
	"verifharness/refsem"
	"verifharness/simrun"
	"verifharness/stagefn"
	"verifharness/stats"
)

// TestRunFiles decides C04, C13 and C14 on generated runs in which stages
// write real files.  VERIF_ONLY=C04|C13|C14 restricts a run to the oracles of
// one property.
func filesCfg() *mrogen.ProgCfg {
	c := semCfg()
	c.NoFiles = false
	c.VDR = true
	return c
}

func only(prop string) bool {
	o := os.Getenv("VERIF_ONLY")
	return o == "" || o == prop
}

func TestRunFiles(t *testing.T) {
	root := workRoot(t)
	rapid.Check(t, func(t *rapid.T) {
		defer func() {
			if p := recover(); p != nil {
				if _, ok := p.(surveySkip); !ok {
					panic(p)
				}
			}
		}()
		prog := mrogen.GenProgram(t, filesCfg())
		for k := range excluded {
			delete(excluded, k)
		}
		filesCase(t, root, prog)
	})
}

// resolveCall follows a call path ("PL2.PL0_A.ST1_B") through the IR.
func resolveCall(prog *mrogen.Program, callPath string) (*mrogen.Call, *mrogen.Stage) {
	parts := strings.Split(callPath, ".")
	if len(parts) == 0 || parts[0] != prog.Top.Id {
		return nil, nil
	}
	call := prog.Top
	for _, id := range parts[1:] {
		pl := prog.Pipeline(call.Callee)
		if pl == nil {
			return nil, nil
		}
		call = nil
		for _, c := range pl.Calls {
			if c.Id == id {
				call = c
			}
		}
		if call == nil {
			return nil, nil
		}
	}
	return call, prog.Stage(call.Callee)
}

var jobDirRe = regexp.MustCompile(`^(split|join|chnk\d+)(-u[0-9a-f]+)?$`)

type killReport struct {
	Paths []string `json:"paths"`
	Count uint     `json:"count"`
	Size  uint64   `json:"size"`
}

func hashTree(dir string) string {
	h := sha256.New()
	filepath.Walk(dir, func(p string, fi os.FileInfo, err error) error {
		if err != nil {
			fmt.Fprintf(h, "ERR %s %v\n", p, err)
			return nil
		}
		fmt.Fprintf(h, "%s %v %d\n", strings.TrimPrefix(p, dir), fi.Mode(), fi.Size())
		if fi.Mode().IsRegular() {
			b, _ := os.ReadFile(p)
			h.Write(b)
		}
		return nil
	})
	return fmt.Sprintf("%x", h.Sum(nil))
}

func filesCase(t *rapid.T, root string, prog *mrogen.Program) {
	caseSeq++
	dir := filepath.Join(root, fmt.Sprintf("files%d-%d", os.Getpid(), caseSeq))
	if os.Getenv("VERIF_KEEP") == "" {
		defer os.RemoveAll(dir)
	}
	src := prog.Source(runLayout(t))
	mode := rapid.SampledFrom([]core.VdrMode{core.VdrRolling, core.VdrRolling, core.VdrPost, core.VdrStrict, core.VdrStrict, core.VdrDisable}).Draw(t, "vdrMode")
	psDir := filepath.Join(dir, "ps")
	led := filesim.New(psDir)
	var matErr error
	opts := simrun.Options{VdrMode: mode, StageOpts: stagefn.Opts{NullPct: rapid.SampledFrom([]int{0, 0, 5, 25}).Draw(t, "outNullPct"), Files: true}}
	opts.Norm = led.Norm
	opts.OnOuts = func(j *simrun.Job, outs *jsonx.Obj) *jsonx.Obj {
		r, err := led.Materialise(j, prog, outs)
		if err != nil {
			matErr = err
			return outs
		}
		return r
	}
	model := refsem.Eval(prog, &opts.StageOpts)
	if model.Unsupported != "" || len(model.Jobs) > 120 {
		stats.Count("C04", "model_declined_or_too_big", 1)
		return
	}
	// a sentinel directory next to the pipestance: nothing may touch it
	sentinel := filepath.Join(dir, "sentinel")
	os.MkdirAll(filepath.Join(sentinel, "sub"), 0o755)
	os.WriteFile(filepath.Join(sentinel, "a.txt"), []byte("sentinel a"), 0o644)
	os.WriteFile(filepath.Join(sentinel, "sub", "b.txt"), []byte("sentinel b"), 0o644)
	sentinelHash := hashTree(sentinel)

	sim, err := simrun.New(prog, src, dir, opts)
	if err != nil {
		msg := err.Error()
		if len(msg) > 90 {
			msg = msg[:90]
		}
		t.Fatalf("GENERATOR: the program cannot be invoked: %s\n%s", msg, src)
		return
	}
	defer sim.Close()
	rc := &runCase{prog: prog, src: src, model: model, sim: sim, baseG: runtime.NumGoroutine()}
	ix := indexModel(model)
	ix.trueDeps = refsem.TrueDeps(prog, &opts.StageOpts, model)

	// --- C04: every file named in a job's arguments is there, with the
	// producer's content, when the job starts and when it finishes.
	lateConsumer := 0
	filesInArgs := 0
	checkArgs := func(j *simrun.Job, when string) {
		if !only("C04") || j.RawArgs == nil {
			return
		}
		named := map[string]*filesim.Entry{}
		led.Paths(j.RawArgs, named)
		if j.Phase == "join" {
			led.Paths(j.RawChunkOuts, named)
		}
		for _, p := range filesim.SortedPaths(named) {
			e := named[p]
			filesInArgs++
			if e.Job != nil && e.Job.FinishT > 0 && j.SubmitT-e.Job.FinishT > 6 {
				lateConsumer++
			}
			if msg := e.Check(); msg != "" {
				fail(t, "C04", "file-missing-at-"+when, "vdr mode %s: job %s is bound to %s (written by %s as output %q), at its %s the %s\n%s", mode, j, p, e.Job, e.Param, when, msg, rc.describe())
			}
		}
	}
	rc.onSubmit = func(j *simrun.Job) { checkArgs(j, "start") }
	rc.onFinish = func(j *simrun.Job) { checkArgs(j, "finish") }
	rc.yield = func() {
		runtime.Gosched()
		if n := rapid.IntRange(0, 3).Draw(t, "yield"); n > 0 {
			time.Sleep(time.Duration(n) * 150 * time.Microsecond)
		}
	}
	// optionally one job fails after it wrote its files, mrp gives up and is
	// restarted: the attempt's directory (files, tmp) has to go with the reset
	var failedJob *simrun.Job
	if faultAt := rapid.IntRange(-4, 12).Draw(t, "faultAt"); faultAt >= 0 && only("C14") {
		n := 0
		rc.finish = func(j *simrun.Job) bool {
			n++
			if failedJob != nil || n <= faultAt {
				return false
			}
			outs, err := sim.Compute(j)
			if err == nil {
				_, err = led.Materialise(j, prog, outs)
			}
			if err == nil {
				err = rc.sim.Fail(j, "errors", "exit status 1")
			}
			if err != nil {
				t.Fatalf("INFRA: %v", err)
			}
			failedJob = j
			rc.logf("FAULT: %s wrote its files, then failed", j)
			return true
		}
	}
	st := rc.drive(t, ix)
	if failedJob != nil {
		// whatever goes wrong after the reset of the failed attempt is part
		// of the C14 scenario (restart between partial and final cleanup)
		propOverride = "C14"
		defer func() { propOverride = "" }()
		if st != core.Failed {
			fail(t, "C06", "success-despite-failure", "state %q\n%s", st, rc.describe())
		}
		rc.sim.PS.Unlock()
		rc.logf("mrp exits; restart")
		rc.finish = nil
		rc.reattach(t, "C14", nil)
		sim = rc.sim
		st = rc.drive(t, ix)
	}
	if matErr != nil {
		t.Fatalf("INFRA: writing stage files: %v", matErr)
	}
	if st == core.Failed {
		fail(t, "C01", "run-failed-without-fault", "the pipestance failed although no job failed: %s\n%s", sim.FatalError(), rc.describe())
	}
	rawTop, err := sim.TopOuts()
	if err != nil {
		fail(t, "C01", "top-outs-unreadable", "%v\n%s", err, rc.describe())
	}
	if ok, d := refsem.EqualSoft(model.Outs, led.Norm(rawTop), "outs"); !ok {
		fail(t, "C01", "top-outs-differ", "%s\n  recorded: %s\n  model:    %s\n%s", d, jsonx.Marshal(rawTop), jsonx.Marshal(refsem.Concretize(model.Outs)), rc.describe())
	}

	// --- what has to be kept: files named by the top-level outputs and by
	// retains (of stages, and of pipelines on direct stage calls)
	kept := map[string]*filesim.Entry{}
	led.Paths(rawTop, kept)
	topNamed := len(kept)
	possiblyKept := []string{} // call path prefixes under a pipeline retain of a sub-pipeline
	for _, j := range sim.Jobs {
		if j.Phase != "main" && j.Phase != "join" || j.Outs == nil || j.Stage == nil {
			continue
		}
		for _, name := range j.Stage.Retain {
			if v, ok := j.Outs.Get(name); ok {
				led.Paths(v, kept)
			}
		}
		// pipeline retains naming this call
		parts := strings.Split(j.CallPath, ".")
		if len(parts) >= 2 {
			if pcall, _ := resolveCall(prog, strings.Join(parts[:len(parts)-1], ".")); pcall != nil {
				if pl := prog.Pipeline(pcall.Callee); pl != nil {
					for _, r := range pl.Retain {
						if r.Call == parts[len(parts)-1] {
							if r.Out == "" {
								// the whole call is retained
								led.Paths(j.Outs, kept)
							} else if v, ok := j.Outs.Get(r.Out); ok {
								led.Paths(v, kept)
							}
						}
					}
				}
			}
		}
	}
	for _, pl := range prog.Pipelines {
		for _, r := range pl.Retain {
			if prog.Stage(calleeOf(pl, r.Call)) == nil {
				possiblyKept = append(possiblyKept, "."+r.Call+".")
			}
		}
	}
	retainedNamed := len(kept) - topNamed
	// survivors are judged at the granularity the runtime tracks: a stage
	// output parameter that a top-level output or a retain is bound to keeps
	// all the files it names (also those a type conversion on the way drops)
	bound := boundOutputs(prog)
	exempt := func(e *filesim.Entry) bool {
		if e.Param == "" {
			return false
		}
		if bound[e.Job.CallPath+"|"+e.Param] || bound[e.Job.CallPath+"|*"] {
			return true
		}
		for _, p := range e.AlsoIn {
			if bound[e.Job.CallPath+"|"+p] {
				return true
			}
		}
		return false
	}
	_ = possiblyKept

	sim.FinalVDR()

	if only("C04") {
		for _, p := range filesim.SortedPaths(kept) {
			if msg := kept[p].Check(); msg != "" {
				fail(t, "C04", "kept-file-removed", "vdr mode %s: %s is named by a top-level output or a retain (written by %s as output %q), after the final cleanup the %s\n%s", mode, p, kept[p].Job, kept[p].Param, msg, rc.describe())
			}
		}
	}

	// --- C14
	removed, survivors, mustGo := 0, 0, 0
	if only("C14") && mode != core.VdrDisable {
		filepath.Walk(psDir, func(p string, fi os.FileInfo, err error) error {
			if err != nil || !fi.IsDir() || fi.Name() != "tmp" || !jobDirRe.MatchString(filepath.Base(filepath.Dir(p))) {
				return nil
			}
			if ents, _ := os.ReadDir(p); len(ents) > 0 {
				fail(t, "C14", "tmp-dir-survives", "vdr mode %s: the temporary directory %s of a job still holds %d entries at completion\n%s", mode, p, len(ents), rc.describe())
			}
			return filepath.SkipDir
		})
		for _, e := range led.Order {
			if e.Written && e.Job == failedJob && e.Exists() {
				fail(t, "C14", "file-of-reset-attempt-survives", "vdr mode %s: %s was written by the attempt of %s that failed and was reset on restart, and is still there at completion\n%s", mode, e.Path, e.Job, rc.describe())
			}
		}
		for _, e := range led.Order {
			if !e.Written {
				continue
			}
			gone := !e.Exists()
			if gone {
				removed++
			} else {
				survivors++
			}
			if e.Kind == "tmp" {
				continue
			}
			if e.Job.Phase == "chunk" && e.Job.Stage != nil && e.Job.Stage.Split {
				mustGo++
				if !gone {
					fail(t, "C14", "chunk-file-survives", "vdr mode %s: %s, written by chunk job %s of a splitting stage, is still there at completion\n%s", mode, e.Path, e.Job, rc.describe())
				}
				continue
			}
			if e.Job.Phase != "main" && e.Job.Phase != "join" {
				continue
			}
			call, stage := resolveCall(prog, e.Job.CallPath)
			if call == nil || stage == nil {
				t.Fatalf("INFRA: cannot resolve call path %q", e.Job.CallPath)
			}
			sv := ""
			if stage.Res != nil {
				sv = stage.Res.Volatile
			}
			strict := sv == "strict" || (mode == core.VdrStrict && sv == "")
			volatile := strict || call.Volatile
			if volatile && !exempt(e) {
				mustGo++
				if !gone {
					fail(t, "C14", "volatile-file-survives", "vdr mode %s: %s (%s of job %s, output %q; call volatile=%v, stage volatile=%q) is named by no top-level output and no retain but is still there at completion\n%s", mode, e.Path, e.Kind, e.Job, e.Param, call.Volatile, sv, rc.describe())
				}
			}
		}
		// kill reports
		type rep struct {
			file string
			r    killReport
		}
		var reps []rep
		filepath.Walk(psDir, func(p string, fi os.FileInfo, err error) error {
			if err == nil && fi.Name() == "_vdrkill" {
				var r killReport
				b, _ := os.ReadFile(p)
				if json.Unmarshal(b, &r) == nil {
					reps = append(reps, rep{p, r})
				}
			}
			return nil
		})
		covered := map[string]bool{}
		for _, r := range reps {
			for _, p := range r.r.Paths {
				if _, err := os.Lstat(p); err == nil {
					fail(t, "C14", "reported-path-exists", "vdr mode %s: %s lists %s as removed but it exists\n%s", mode, r.file, p, rc.describe())
				}
				if !strings.HasPrefix(p, psDir+"/") {
					fail(t, "C14", "reported-path-outside", "vdr mode %s: %s lists %s, which is outside the pipestance\n%s", mode, r.file, p, rc.describe())
				}
				for _, e := range led.Inside(p) {
					covered[e.Path] = true
				}
			}
		}
		for _, e := range led.Order {
			if e.Written && !e.Exists() && !covered[e.Path] && e.Job != failedJob {
				// diagnostics: the reports of the fork the file belonged to
				diag := ""
				for d := filepath.Dir(e.Path); strings.HasPrefix(d, psDir); d = filepath.Dir(d) {
					if strings.HasPrefix(filepath.Base(d), "fork") {
						for _, n := range []string{"_vdrkill", "_vdrkill.partial"} {
							b, err := os.ReadFile(filepath.Join(d, n))
							diag += fmt.Sprintf("%s/%s: %v %s\n", d, n, err, stats.Trunc(string(b), 1500))
						}
						ents, _ := os.ReadDir(d)
						for _, en := range ents {
							diag += " " + en.Name()
						}
						break
					}
				}
				fail(t, "C14", "removed-but-not-reported", "vdr mode %s: %s (written by %s) is gone but no _vdrkill report lists it or a directory above it\n%s\n%s", mode, e.Path, e.Job, diag, rc.describe())
			}
		}
		// accounting, per fork
		for _, r := range reps {
			forkDir := filepath.Dir(r.file)
			if forkDir == psDir || !strings.HasPrefix(filepath.Base(forkDir), "fork") {
				continue
			}
			var n uint
			var size uint64
			for _, e := range led.Inside(forkDir) {
				if e.Written && !e.Exists() && e.Job != failedJob {
					n++
					size += uint64(e.Size)
				}
			}
			if n != r.r.Count || size != r.r.Size {
				fail(t, "C14", "report-totals-differ", "vdr mode %s: %s reports count=%d size=%d; %d entries written under %s (%d bytes) are gone\n%s", mode, r.file, r.r.Count, r.r.Size, n, forkDir, size, rc.describe())
			}
		}
		if h := hashTree(sentinel); h != sentinelHash {
			fail(t, "C14", "outside-touched", "vdr mode %s: the directory next to the pipestance changed\n%s", mode, rc.describe())
		}
	}

	sim.PostProcess()

	if only("C04") {
		for _, p := range filesim.SortedPaths(kept) {
			if msg := kept[p].Check(); msg != "" {
				fail(t, "C04", "kept-file-removed-by-postprocess", "%s is named by a top-level output or a retain, after post-processing the %s\n%s", p, msg, rc.describe())
			}
		}
	}
	nested := 0
	if only("C13") {
		nested = checkOuts(t, rc, led, prog, psDir, rawTop)
	}

	digest := stats.Digest(src, string(mode), strings.Join(rc.history, "|"))
	sample := func() any {
		return map[string]any{"program": stats.Trunc(src, 1200), "vdr_mode": string(mode), "jobs": len(sim.Jobs), "files_written": len(led.Order), "files_removed": removed, "schedule": stats.Trunc(strings.Join(rc.history, "; "), 400)}
	}
	cl := []string{"mode:" + string(mode)}
	// forks of one call of which some wrote a file for an output parameter
	// and others hold none there (null, a plain string, nothing written):
	// the bookkeeping of who keeps which argument alive is per fork.
	{
		type key struct{ call, param string }
		with := map[key]map[string]bool{}
		forks := map[string]map[string]bool{}
		for _, j := range sim.Jobs {
			if (j.Phase == "main" || j.Phase == "join") && j.Done {
				if forks[j.CallPath] == nil {
					forks[j.CallPath] = map[string]bool{}
				}
				forks[j.CallPath][j.ForkName] = true
			}
		}
		for _, e := range led.Order {
			if e.Job == nil || e.Param == "" || !e.Written || e.Kind != "out" {
				continue
			}
			for _, pn := range append([]string{e.Param}, e.AlsoIn...) {
				k := key{e.Job.CallPath, pn}
				if with[k] == nil {
					with[k] = map[string]bool{}
				}
				with[k][e.Job.ForkName] = true
			}
		}
		mixed, mixedDyn := false, false
		for k, w := range with {
			if n := len(forks[k.call]); n >= 2 && len(w) < n {
				mixed = true
				if c, _ := resolveCall(prog, k.call); c != nil {
					for _, b := range c.Bindings {
						if sp, ok := b.E.(mrogen.Split); ok {
							if r, ok := sp.E.(mrogen.Ref); ok && r.Call != "" {
								mixedDyn = true
							}
						}
					}
				}
			}
		}
		if mixed {
			cl = append(cl, "forks-mixed-file-presence")
		}
		if mixedDyn {
			cl = append(cl, "dynamic-forks-mixed-file-presence")
		}
	}
	if only("C04") {
		c := append([]string{}, cl...)
		if filesInArgs > 0 {
			c = append(c, "consumer-of-file")
		}
		if lateConsumer > 0 {
			c = append(c, "late-consumer")
		}
		if topNamed > 0 {
			c = append(c, "top-output-names-file")
		}
		if retainedNamed > 0 {
			c = append(c, "retained-file")
		}
		anyGone := false
		for _, e := range led.Order {
			if e.Written && e.Kind != "tmp" && !e.Exists() {
				anyGone = true
			}
		}
		if anyGone {
			c = append(c, "files-deleted")
		}
		stats.Case("C04", mode != core.VdrDisable && anyGone && filesInArgs > 0, digest, c, sample)
	}
	if only("C14") {
		c := append([]string{}, cl...)
		if mustGo > 0 {
			c = append(c, "must-go-files")
		}
		if len(kept) > 0 && removed > 0 {
			c = append(c, "kept-and-removed")
		}
		if failedJob != nil {
			c = append(c, "failed-attempt-reset")
		}
		stats.Case("C14", mode != core.VdrDisable && removed > 0 && len(kept) > 0, digest, c, sample)
	}
	if only("C13") {
		c := []string{}
		if nested > 0 {
			c = append(c, "nested-file-leaf")
		}
		if topNamed > 0 {
			c = append(c, "file-leaf")
		}
		stats.Case("C13", nested > 0, digest, c, sample)
	}
}

func tree(dir string) string {
	var b strings.Builder
	filepath.Walk(dir, func(p string, fi os.FileInfo, err error) error {
		if err != nil {
			return nil
		}
		extra := ""
		if fi.Mode()&os.ModeSymlink != 0 {
			l, _ := os.Readlink(p)
			extra = " -> " + l
		}
		fmt.Fprintf(&b, "  %s%s\n", strings.TrimPrefix(p, dir), extra)
		return nil
	})
	return b.String()
}

// ---- which stage outputs are bound by the top-level outputs or a retain ----

type plScope struct {
	path   string
	pl     *mrogen.Pipeline
	args   map[string]mrogen.Expr
	parent *plScope
	prog   *mrogen.Program
}

// refs adds "call path|output" for every stage output the expression refers
// to ("call path|*" for a reference to a whole call), following pipeline
// inputs to the caller and pipeline outputs into the callee.
func (s *plScope) refs(e mrogen.Expr, out map[string]bool, depth int) {
	if depth > 40 {
		return
	}
	switch x := e.(type) {
	case mrogen.Ref:
		if x.Call == "" {
			if s.parent != nil {
				if a, ok := s.args[x.Out]; ok {
					s.parent.refs(a, out, depth+1)
				}
			}
			return
		}
		var call *mrogen.Call
		for _, c := range s.pl.Calls {
			if c.Id == x.Call {
				call = c
			}
		}
		if call == nil {
			return
		}
		if s.prog.Stage(call.Callee) != nil {
			o := x.Out
			if o == "" {
				o = "*"
			}
			out[s.path+"."+call.Id+"|"+o] = true
			return
		}
		child := s.child(call)
		for _, b := range child.pl.Ret {
			if x.Out == "" || b.Param == x.Out {
				child.refs(b.E, out, depth+1)
			}
		}
	case mrogen.Split:
		s.refs(x.E, out, depth+1)
	case mrogen.ArrayLit:
		for _, v := range x.Elems {
			s.refs(v, out, depth+1)
		}
	case mrogen.MapLit:
		for _, v := range x.Vals {
			s.refs(v, out, depth+1)
		}
	case mrogen.StructLit:
		for _, v := range x.Vals {
			s.refs(v, out, depth+1)
		}
	}
}

func (s *plScope) child(call *mrogen.Call) *plScope {
	c := &plScope{path: s.path + "." + call.Id, pl: s.prog.Pipeline(call.Callee), args: map[string]mrogen.Expr{}, parent: s, prog: s.prog}
	for _, b := range call.Bindings {
		c.args[b.Param] = b.E
	}
	return c
}

// boundOutputs: stage outputs ("call path|output") that the top-level
// outputs or a retain declaration are bound to.
func boundOutputs(prog *mrogen.Program) map[string]bool {
	out := map[string]bool{}
	top := &plScope{path: prog.Top.Id, pl: prog.Pipeline(prog.Top.Callee), prog: prog}
	for _, b := range top.pl.Ret {
		top.refs(b.E, out, 0)
	}
	var visit func(s *plScope, depth int)
	visit = func(s *plScope, depth int) {
		if depth > 12 {
			return
		}
		for _, r := range s.pl.Retain {
			s.refs(r, out, 0)
		}
		for _, c := range s.pl.Calls {
			if st := prog.Stage(c.Callee); st != nil {
				for _, name := range st.Retain {
					out[s.path+"."+c.Id+"|"+name] = true
				}
			} else {
				visit(s.child(c), depth+1)
			}
		}
	}
	visit(top, 0)
	return out
}

func calleeOf(pl *mrogen.Pipeline, id string) string {
	for _, c := range pl.Calls {
		if c.Id == id {
			return c.Callee
		}
	}
	return ""
}

// ---- C13 --------------------------------------------------------------------

// isFileScalar: file, path or a user file type.
func isFileScalar(u *mrogen.Universe, ty mrogen.Ty) bool {
	if _, coll := ty.Elem(); coll {
		return false
	}
	return ty.Base == "file" || ty.Base == "path" || u.IsFileType(ty.Base)
}

func structFields(prog *mrogen.Program, base string) []mrogen.Field {
	if s := prog.U.Struct(base); s != nil {
		return s.Fields
	}
	_, outs, _ := prog.Callable(base)
	var fields []mrogen.Field
	for _, p := range outs {
		fields = append(fields, mrogen.Field{Name: p.Name, T: p.T, OutName: p.OutName})
	}
	return fields
}

// outFileName: the name of an output below its directory, derived from the
// parameter (or field, element index, map key) name, its type and its
// explicit out name.
func outFileName(u *mrogen.Universe, id, outName string, ty mrogen.Ty) string {
	if outName != "" {
		return outName
	}
	if _, coll := ty.Elem(); coll || ty.Base == "file" || ty.Base == "path" || !u.IsFileType(ty.Base) {
		return id
	}
	return id + "." + ty.Base
}

// fileLeaf is the expectation for a file-typed leaf of the post-processed
// outputs record: a path below outs/ that holds what the stage wrote (the
// location derived from the parameter, or - when several outputs name one
// file - the location the file was materialised at for another output).
type fileLeaf struct {
	dest  string
	entry *filesim.Entry
}

func (f fileLeaf) holds(path string) bool {
	if f.entry.IsDir {
		b, err := os.ReadFile(filepath.Join(path, "part0"))
		return err == nil && string(b) == filesim.ContentFor(f.entry.Token+"/part0")
	}
	b, err := os.ReadFile(path)
	return err == nil && string(b) == f.entry.Content
}

type outsChecker struct {
	t      *rapid.T
	rc     *runCase
	led    *filesim.Ledger
	prog   *mrogen.Program
	psDir  string
	nested int
	leaves int
	links  int
	seen   map[string]string
}

// expect returns what the post-processed value has to be for a value of
// type ty that sat at JSON position pos before post-processing.
func (oc *outsChecker) expect(pos, id, outName string, ty mrogen.Ty, v any, dir string, depth int) any {
	u := oc.prog.U
	if v == nil || oc.prog.FileKind(ty) < 2 {
		return v
	}
	name := outFileName(u, id, outName, ty)
	dest := filepath.Join(dir, name)
	if isFileScalar(u, ty) {
		s, ok := v.(string)
		if !ok {
			return v
		}
		if s == "" {
			return nil
		}
		e := oc.led.Entries[s]
		if e == nil || !e.Written {
			// returned but never written: reported as null
			return nil
		}
		oc.leaves++
		if depth > 0 || outName != "" {
			oc.nested++
		}
		if e.IsLink {
			oc.links++
		}
		if prev, dup := oc.seen[dest]; dup {
			fail(oc.t, "C13", "two-outputs-one-path", "outputs %s and %s both belong at %s\n%s", prev, pos, dest, oc.rc.describe())
		}
		oc.seen[dest] = pos
		// the file is at dest with the content the stage wrote
		if e.IsDir {
			if fi, err := os.Stat(dest); err != nil || !fi.IsDir() {
				fail(oc.t, "C13", "output-missing-under-outs", "output %s (directory written by %s) is not at %s: %v\n%s", pos, e.Job, dest, err, oc.rc.describe())
			}
			if b, err := os.ReadFile(filepath.Join(dest, "part0")); err != nil || string(b) != filesim.ContentFor(e.Token+"/part0") {
				fail(oc.t, "C13", "output-content-differs", "output %s: %s/part0 does not hold what the stage wrote (%v)\n%s", pos, dest, err, oc.rc.describe())
			}
		} else {
			b, err := os.ReadFile(dest)
			if err != nil {
				fail(oc.t, "C13", "output-missing-under-outs", "output %s (file written by %s) is not at %s: %v\nouts/ holds:\n%s\n%s", pos, e.Job, dest, err, tree(filepath.Join(oc.psDir, "outs")), oc.rc.describe())
			}
			if string(b) != e.Content {
				fail(oc.t, "C13", "output-content-differs", "output %s: %s holds %q, the stage wrote %q\n%s", pos, dest, b, e.Content, oc.rc.describe())
			}
		}
		return fileLeaf{dest: dest, entry: e}
	}
	if el, ok := ty.Elem(); ok {
		if ty.IsArray() {
			a, ok := v.([]any)
			if !ok {
				return v
			}
			width := len(fmt.Sprint(len(a)))
			if len(a) > 0 {
				width = len(fmt.Sprint(len(a) - 1))
				// util.WidthForInt(len): digits needed for the count
				width = len(fmt.Sprint(len(a)))
			}
			r := make([]any, len(a))
			for i, e := range a {
				r[i] = oc.expect(fmt.Sprintf("%s[%d]", pos, i), fmt.Sprintf("%0*d", width, i), "", el, e, dest, depth+1)
			}
			return r
		}
		o, ok := v.(*jsonx.Obj)
		if !ok {
			return v
		}
		r := jsonx.NewObj()
		for i, k := range o.Keys {
			if k == "" || k == "." || k == ".." || strings.ContainsAny(k, "/\x00") || len(k) > 255 {
				// cannot be a directory name: the entry stays as it is
				r.Set(k, o.Vals[i])
				continue
			}
			r.Set(k, oc.expect(pos+"["+k+"]", k, "", el, o.Vals[i], dest, depth+1))
		}
		return r
	}
	o, ok := v.(*jsonx.Obj)
	if !ok {
		return v
	}
	r := jsonx.NewObj()
	fields := structFields(oc.prog, ty.Base)
	for i, k := range o.Keys {
		var f *mrogen.Field
		for j := range fields {
			if fields[j].Name == k {
				f = &fields[j]
			}
		}
		if f == nil {
			r.Set(k, o.Vals[i])
			continue
		}
		r.Set(k, oc.expect(pos+"."+k, k, f.OutName, f.T, o.Vals[i], dest, depth+1))
	}
	return r
}

// checkOuts: C13.  Returns the number of nested (or explicitly named) file
// leaves checked.
func checkOuts(t *rapid.T, rc *runCase, led *filesim.Ledger, prog *mrogen.Program, psDir string, rawTop *jsonx.Obj) int {
	post, err := rc.sim.TopOuts()
	if err != nil {
		fail(t, "C13", "outs-record-unreadable", "after post-processing the top-level _outs is not valid JSON: %v\n%s", err, rc.describe())
	}
	top := prog.Pipeline(prog.Top.Callee)
	oc := &outsChecker{t: t, rc: rc, led: led, prog: prog, psDir: psDir, seen: map[string]string{}}
	want := jsonx.NewObj()
	outsDir := filepath.Join(psDir, "outs")
	for _, p := range top.Outs {
		v, ok := rawTop.Get(p.Name)
		if !ok {
			continue
		}
		want.Set(p.Name, oc.expect(p.Name, p.Name, p.OutName, p.T, v, outsDir, 0))
	}
	// same keys, same shape, same non-file values, file leaves at the
	// derived locations (key order of objects is not significant)
	if ok, d := equalUnordered(want, post, "outs"); !ok {
		fail(t, "C13", "outs-record-differs", "%s\n  before post-processing: %s\n  after:                  %s\nouts/ holds:\n%s\n%s", d, jsonx.Marshal(rawTop), jsonx.Marshal(post), tree(outsDir), rc.describe())
	}
	if oc.links > 0 {
		stats.Count("C13", "cases_with_symlink_outputs", 1)
	}
	return oc.nested
}

func equalUnordered(a, b any, pos string) (bool, string) {
	switch x := a.(type) {
	case fileLeaf:
		s, ok := b.(string)
		if !ok {
			return false, fmt.Sprintf("%s: %s, expected the location of the file under outs/ (%s)", pos, jsonx.Marshal(b), x.dest)
		}
		outs := x.dest[:strings.Index(x.dest, "/outs/")+len("/outs/")]
		if x.entry.IsLink {
			// an output that is a symbolic link is recorded as the file it
			// points to, and linked from outs/
			outs = outs[:len(outs)-len("outs/")]
		}
		if !strings.HasPrefix(s, outs) {
			return false, fmt.Sprintf("%s: %q is not a location under %s (expected %s)", pos, s, outs, x.dest)
		}
		if !x.holds(s) {
			return false, fmt.Sprintf("%s: %q does not hold what the stage wrote", pos, s)
		}
		return true, ""
	case *jsonx.Obj:
		y, ok := b.(*jsonx.Obj)
		if !ok {
			return false, fmt.Sprintf("%s: expected an object, got %s", pos, jsonx.Marshal(b))
		}
		if len(x.Keys) != len(y.Keys) {
			ka, kb := append([]string{}, x.Keys...), append([]string{}, y.Keys...)
			sort.Strings(ka)
			sort.Strings(kb)
			return false, fmt.Sprintf("%s: keys %q, expected %q", pos, kb, ka)
		}
		for i, k := range x.Keys {
			v, ok := y.Get(k)
			if !ok {
				return false, fmt.Sprintf("%s: key %q is missing", pos, k)
			}
			if ok, d := equalUnordered(x.Vals[i], v, pos+"."+k); !ok {
				return false, d
			}
		}
		return true, ""
	case []any:
		y, ok := b.([]any)
		if !ok || len(x) != len(y) {
			return false, fmt.Sprintf("%s: expected an array of %d, got %s", pos, len(x), jsonx.Marshal(b))
		}
		for i := range x {
			if ok, d := equalUnordered(x[i], y[i], fmt.Sprintf("%s[%d]", pos, i)); !ok {
				return false, d
			}
		}
		return true, ""
	}
	if !jsonx.Equal(a, b, true) {
		return false, fmt.Sprintf("%s: %s, expected %s", pos, jsonx.Marshal(b), jsonx.Marshal(a))
	}
	return true, ""
}
