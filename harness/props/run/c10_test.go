//go:build verif

package run

import (
	"context"
	"encoding/json"
	"fmt"
	"os"
	"path/filepath"
	"regexp"
	"sort"
	"strings"
	"testing"

	"github.com/martian-lang/martian/martian/core"
	"pgregory.net/rapid"

	"verifharness/mrogen"
	"verifharness/simrun"
	"verifharness/stagefn"
	"verifharness/stats"
)

var uniqRe = regexp.MustCompile(`-u[0-9a-f]{10}`)

// fifoRun drives a pipestance with a fixed schedule (refresh, step, finish
// the oldest pending job) and returns what C10 says is deterministic: the
// directory listing (attempt ids normalised) and every fork's _invocation.
func fifoRun(prog *mrogen.Program, src, dir string) (map[string]string, error) {
	return fifoRunPrefer(prog, src, dir, "")
}

// fifoRunPrefer: as fifoRun, but a pending job whose name contains prefer
// finishes before the others.
func fifoRunPrefer(prog *mrogen.Program, src, dir, prefer string) (map[string]string, error) {
	sim, err := simrun.New(prog, src, dir, simrun.Options{StageOpts: stagefn.Opts{}})
	if err != nil {
		return nil, err
	}
	defer func() { sim.Close() }()
	for i := 0; i < 4000; i++ {
		sim.Refresh()
		st := sim.State()
		if st == core.Complete || st == core.DisabledState {
			break
		}
		if st == core.Failed {
			return nil, fmt.Errorf("failed: %s", sim.FatalError())
		}
		sim.Step()
		if p := sim.Pending(); len(p) > 0 {
			next := p[0]
			for _, j := range p {
				if prefer != "" && strings.Contains(j.String(), prefer) {
					next = j
					break
				}
			}
			if err := sim.Finish(next); err != nil {
				return nil, err
			}
		}
	}
	res := map[string]string{}
	// the serialized pipestance (what _finalstate holds and the API
	// returns): nodes, forks with their indices, chunks, bindings - as this
	// run built it, and as a fresh runtime re-attaching to the finished
	// pipestance rebuilds it
	// What of the serialized pipestance is compared: its structure - nodes
	// with type, state and edges; per fork its index, directory, state, the
	// arguments it was expanded for, its chunks (index, directory) and its
	// bindings (parameter, mode, type, producing node).  Not compared: the
	// values bindings resolved to (data of this run: stage outputs depend
	// on the attempt ids in the paths they are given) and the lists of
	// metadata files present (they record how far VDR and the journal had
	// got when the state was taken).
	norm := func(v any) string {
		nodes, _ := v.([]*core.NodeInfo)
		var b strings.Builder
		base := func(m *core.MetadataInfo) string {
			if m == nil {
				return "-"
			}
			return uniqRe.ReplaceAllString(strings.TrimPrefix(m.Path, sim.Dir+"/"), "-uX")
		}
		for _, n := range nodes {
			fmt.Fprintf(&b, "node %s type=%v state=%s lang=%v\n", n.Fqname, n.Type, n.State, n.StagecodeLang)
			for _, e := range n.Edges {
				fmt.Fprintf(&b, "  edge %s -> %s\n", e.From, e.To)
			}
			for _, f := range n.Forks {
				ap, _ := json.Marshal(f.ArgPermute)
				fmt.Fprintf(&b, "  fork %d dir=%s state=%s argPermute=%s split=%s join=%s\n", f.Index, base(f.Metadata), f.State, ap, base(f.SplitMetadata), base(f.JoinMetadata))
				for _, c := range f.Chunks {
					fmt.Fprintf(&b, "    chunk %d dir=%s state=%s\n", c.Index, base(c.Metadata), c.State)
				}
				if f.Bindings != nil {
					for _, kind := range []struct {
						name string
						l    []core.BindingInfo
					}{{"arg", f.Bindings.Argument}, {"ret", f.Bindings.Return}} {
						for _, bi := range kind.l {
							node := "-"
							if bi.Node != nil {
								node = *bi.Node
							}
							fmt.Fprintf(&b, "    %s %s mode=%s type=%v node=%s\n", kind.name, bi.Id, bi.Mode, bi.Type, node)
						}
					}
				}
			}
		}
		return b.String()
	}
	// known finding C10/nondeterministic-run:forks-of-disabled-map-call: how
	// many forks a disabled map call has depends on the completion order of
	// its producers; while that is listed, such forks are left out of what is
	// compared (the reproducer looks at everything)
	skipDisabled := !c10Raw && stats.Known("C10/nondeterministic-run:forks-of-disabled-map-call")
	var disabledNodeDirs []string
	dropDisabled := func(nodes []*core.NodeInfo) []*core.NodeInfo {
		if !skipDisabled {
			return nodes
		}
		var r []*core.NodeInfo
		for _, n := range nodes {
			if n.State == core.DisabledState {
				if rel, err := filepath.Rel(sim.Dir, n.Path); err == nil {
					disabledNodeDirs = append(disabledNodeDirs, rel)
				}
				c := *n
				c.Forks = nil
				n = &c
				stats.Count("C10", "excluded_known:forks-of-disabled-node", 1)
			}
			r = append(r, n)
		}
		return r
	}
	var listing []string
	filepath.Walk(sim.Dir, func(p string, info os.FileInfo, err error) error {
		if err != nil {
			return nil
		}
		rel, _ := filepath.Rel(sim.Dir, p)
		rel = uniqRe.ReplaceAllString(rel, "-uX")
		if strings.HasPrefix(rel, "journal") || strings.HasPrefix(rel, "tmp") {
			return nil
		}
		listing = append(listing, rel)
		if info.Name() == "_invocation" {
			b, _ := os.ReadFile(p)
			res["invocation:"+rel] = string(b)
		}
		return nil
	})
	st1 := dropDisabled(sim.PS.SerializeState(context.Background()))
	res["state"] = norm(st1)
	res["forkorder"] = forkOrder(st1)
	if st := sim.State(); st == core.Complete || st == core.DisabledState {
		sim.Close()
		if re, err := simrun.Reattach(sim); err == nil {
			// (a finished pipestance whose disabled map calls are only
			// expanded on re-attach needs scheduler rounds before every
			// node reads as it did)
			for i := 0; i < 4; i++ {
				re.Refresh()
				re.Step()
			}
			st2 := dropDisabled(re.PS.SerializeState(context.Background()))
			res["state-reattached"] = norm(st2)
			res["forkorder-reattached"] = forkOrder(st2)
			sim = re
		} else {
			res["state-reattached"] = "error: " + err.Error()
		}
	}
	sort.Strings(listing)
	if skipDisabled {
		// a fork directory that holds _disabled, and everything below it
		var gone []string
		for _, rel := range listing {
			if filepath.Base(rel) == "_disabled" {
				gone = append(gone, filepath.Dir(rel))
			}
		}
		kept := listing[:0]
		for _, rel := range listing {
			drop := false
			for _, g := range gone {
				if rel == g || strings.HasPrefix(rel, g+"/") {
					drop = true
					break
				}
			}
			// (fork directories of a node in the disabled state, with or
			// without a marker in them)
			for _, g := range disabledNodeDirs {
				if strings.HasPrefix(rel, g+"/") {
					drop = true
					break
				}
			}
			if !drop {
				kept = append(kept, rel)
			}
		}
		listing = kept
		for k := range res {
			if strings.HasPrefix(k, "invocation:") {
				for _, g := range gone {
					if strings.HasPrefix(strings.TrimPrefix(k, "invocation:"), g+"/") {
						delete(res, k)
					}
				}
			}
		}
	}
	res["listing"] = strings.Join(listing, "\n")
	return res, nil
}

// commonLines keeps, of two "name: ..." listings, the lines whose name is in
// both (a node may read complete in one view and not yet in the other).
func commonLines(a, b string) (string, string) {
	names := func(s string) map[string]string {
		m := map[string]string{}
		for _, l := range strings.Split(s, "\n") {
			if i := strings.Index(l, ":"); i > 0 {
				m[l[:i]] = l
			}
		}
		return m
	}
	ma, mb := names(a), names(b)
	var ks []string
	for k := range ma {
		if _, ok := mb[k]; ok {
			ks = append(ks, k)
		}
	}
	sort.Strings(ks)
	var ra, rb []string
	for _, k := range ks {
		ra, rb = append(ra, ma[k]), append(rb, mb[k])
	}
	return strings.Join(ra, "\n"), strings.Join(rb, "\n")
}

// forkOrder: per node that ran, the fork directories in index order.  (A
// map call that is disabled has the single fork it was created with while
// the run that disabled it lives, and one per element once a fresh runtime
// has restored the forks from the outputs on disk; none of them ever has a
// directory, and the statement is about forks that exist.)
func forkOrder(nodes []*core.NodeInfo) string {
	var b strings.Builder
	for _, n := range nodes {
		if n.State != core.Complete {
			continue
		}
		fmt.Fprintf(&b, "%s:", n.Fqname)
		for _, f := range n.Forks {
			name := ""
			if f.Metadata != nil {
				name = uniqRe.ReplaceAllString(filepath.Base(f.Metadata.Path), "-uX")
			}
			fmt.Fprintf(&b, " %d=%s", f.Index, name)
		}
		b.WriteString("\n")
	}
	return b.String()
}

var c10Seq int

// c10Raw: compare everything (set by the reproducer of a known finding).
var c10Raw bool

// TestC10Run: fork identifiers (directory names) and recorded per-fork
// invocations of the same program are identical across runs.
func TestC10Run(t *testing.T) {
	root := workRoot(t)
	rapid.Check(t, func(t *rapid.T) {
		prog := mrogen.GenProgram(t, semCfg())
		for k := range excluded {
			delete(excluded, k)
		}
		src := prog.Source(nil)
		var first map[string]string
		for rep := 0; rep < 3; rep++ {
			// (a directory of its own for every repetition: goroutines of
			// the previous Pipestance may still be writing into theirs)
			c10Seq++
			dir := filepath.Join(root, fmt.Sprintf("c10-%d-%d", os.Getpid(), c10Seq))
			got, err := fifoRun(prog, src, dir)
			os.RemoveAll(dir)
			if err != nil {
				// failures of the run itself are C01's business
				stats.Count("C10", "run_error_skipped", 1)
				if os.Getenv("VERIF_DEBUG") != "" {
					fmt.Fprintf(os.Stderr, "run error: %v\n", err)
				}
				return
			}
			a, b := commonLines(got["forkorder"], got["forkorder-reattached"])
			if got["forkorder-reattached"] != "" && a != b {
				fail(t, "C10", "nondeterministic-run:forkorder-after-reattach", "the forks of a node are in a different order (or carry different indices) once a fresh runtime has re-attached to the finished pipestance:\n%s\n--- program\n%s", firstDiffStr(a, b), src)
			}
			if first == nil {
				first = got
				continue
			}
			for k, v := range first {
				if got[k] != v {
					fail(t, "C10", "nondeterministic-run:"+strings.SplitN(k, ":", 2)[0], "%s differs between run 0 and run %d of the same program and schedule:\n%s\n--- program\n%s", k, rep, firstDiffStr(v, got[k]), src)
				}
			}
			if len(got) != len(first) {
				fail(t, "C10", "nondeterministic-run:listing", "different sets of _invocation files\n%s", src)
			}
		}
		nforks := strings.Count(first["listing"], "/fork")
		stats.Case("C10", nforks >= 3, stats.Digest("run", src), []string{"run"}, func() any {
			return map[string]any{"kind": "run", "listing_head": stats.Trunc(first["listing"], 500)}
		})
	})
}

func firstDiffStr(a, b string) string {
	i := 0
	for i < len(a) && i < len(b) && a[i] == b[i] {
		i++
	}
	lo := i - 100
	if lo < 0 {
		lo = 0
	}
	ha, hb := i+150, i+150
	if ha > len(a) {
		ha = len(a)
	}
	if hb > len(b) {
		hb = len(b)
	}
	return fmt.Sprintf("...%s\n   vs\n...%s", a[lo:ha], b[lo:hb])
}

// Reproducer of C10/nondeterministic-run:forks-of-disabled-map-call: a map
// call that is disabled by a constant flag, splits over the output of one
// stage and takes another argument from a second stage; whichever of the two
// finishes first decides whether the disabled call gets one fork directory
// per element or a single one.
func TestKnownC10DisabledMapCallForks(t *testing.T) {
	root := workRoot(t)
	p := &mrogen.Program{U: &mrogen.Universe{Structs: []*mrogen.Struct{{Name: "S0", Fields: []mrogen.Field{{Name: "f", T: tInt}}}}}}
	p.Stages = []*mrogen.Stage{
		st("GEN", []mrogen.Param{pm("p", tInt)}, []mrogen.Param{{Name: "xs", T: tIntArr, NonEmpty: true}}),
		st("OTHER", []mrogen.Param{pm("p", tInt)}, []mrogen.Param{pm("o", tInt)}),
		st("EACH", []mrogen.Param{pm("x", tInt), pm("y", tInt)}, []mrogen.Param{pm("o", tInt)}),
	}
	top := &mrogen.Pipeline{Name: "TOP", Ins: []mrogen.Param{pm("n", tInt), {Name: "off", T: tBool, Flag: true}}, Outs: []mrogen.Param{pm("r", tIntArr)},
		Calls: []*mrogen.Call{
			{Id: "OTHER", Callee: "OTHER", Bindings: []mrogen.Binding{{Param: "p", E: self("n")}}},
			{Id: "GEN", Callee: "GEN", Bindings: []mrogen.Binding{{Param: "p", E: self("n")}}},
			{Id: "EACH", Callee: "EACH", Mapped: true, Disabled: &mrogen.Ref{Out: "off"}, Bindings: []mrogen.Binding{
				{Param: "x", E: mrogen.Split{E: out("GEN", "xs")}}, {Param: "y", E: out("OTHER", "o")}}},
		},
		Ret: []mrogen.Binding{{Param: "r", E: out("EACH", "o")}}}
	p.Pipelines = []*mrogen.Pipeline{top}
	listings := map[string]bool{}
	c10Raw = true
	defer func() { c10Raw = false }()
	for n := 1; n <= 6; n++ {
		p.Top = &mrogen.Call{Id: "TOP", Callee: "TOP", Bindings: []mrogen.Binding{{Param: "n", E: lit(num(n), tInt)}, {Param: "off", E: lit(true, tBool)}}}
		src := p.Source(nil)
		per := map[string]bool{}
		for _, first := range []string{"GEN", "OTHER"} {
			c10Seq++
			dir := filepath.Join(root, fmt.Sprintf("c10k-%d-%d", os.Getpid(), c10Seq))
			got, err := fifoRunPrefer(p, src, dir, first)
			os.RemoveAll(dir)
			if err != nil {
				t.Fatalf("INFRA: %v\n%s", err, src)
			}
			per[got["listing"]] = true
		}
		if len(per) > 1 {
			listings[fmt.Sprint(n)] = true
		}
	}
	if len(listings) > 0 {
		fmt.Printf("KNOWN-PRESENT C10/nondeterministic-run:forks-of-disabled-map-call: the fork directories of a map call disabled by a constant flag depend on which of its two producers finishes first (%d of 6 inputs)\n", len(listings))
	}
}
