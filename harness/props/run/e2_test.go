//go:build verif

package run

import (
	"encoding/json"
	"fmt"
	"os"
	"os/exec"
	"path/filepath"
	"regexp"
	"slices"
	"sort"
	"strings"
	"testing"
	"time"

	"pgregory.net/rapid"

	"verifharness/filesim"
	"verifharness/jsonx"
	"verifharness/mrogen"
	"verifharness/mrprun"
	"verifharness/plan"
	"verifharness/refsem"
	"verifharness/stagefn"
	"verifharness/stats"
)

// ---- engine E2: the real mrp, mrjob and stage binary --------------------------

func e2Cfg() *mrogen.ProgCfg {
	c := semCfg()
	c.MaxStages, c.MaxCalls, c.MaxPipelines = 3, 3, 2
	return c
}

func mroot(t interface{ Fatalf(string, ...any) }) string {
	m := os.Getenv("VERIF_MROOT")
	if m == "" {
		m = "/tmp/devroot"
	}
	for _, b := range []string{"mrp", "mrjob", "stagebin"} {
		if _, err := os.Stat(filepath.Join(m, "bin", b)); err != nil {
			t.Fatalf("INFRA: %s is not built under %s/bin", b, m)
		}
	}
	return m
}

type e2Case struct {
	// file runs: tokens for which a stage wrote a file / returned a path
	tokensWritten  map[string]bool
	tokensReturned map[string]bool
	// tokens their producer wrote as a directory
	tokensDir map[string]bool
	*mrprun.Case
	prog  *mrogen.Program
	src   string
	model *refsem.Result
	hist  []string
}

func (c *e2Case) logf(f string, a ...any) { c.hist = append(c.hist, fmt.Sprintf(f, a...)) }

func (c *e2Case) describe() string {
	var b strings.Builder
	b.WriteString("program:\n" + c.src + "\nhistory:\n  " + strings.Join(c.hist, "\n  ") + "\nledger:\n")
	for _, r := range c.Ledger() {
		fmt.Fprintf(&b, "  %s attempt %d pid %d fault %q %s\n", r.Identity, r.Attempt, r.Pid, r.Fault, stats.Trunc(string(r.Outs), 120))
	}
	return b.String()
}

func newE2(t *rapid.T, root, tag string, prog *mrogen.Program, prop string, maxJobs int) (*e2Case, func()) {
	caseSeq++
	dir := filepath.Join(root, fmt.Sprintf("%s%d-%d", tag, os.Getpid(), caseSeq))
	cleanup := func() {
		if os.Getenv("VERIF_KEEP") == "" {
			os.RemoveAll(dir)
		}
	}
	// some stages are python modules run through the shipped python adapter
	// (adapters/python/martian_shell.py): real Python writes their outputs
	if pyOdds := rapid.SampledFrom([]int{0, 2, 4}).Draw(t, "pyStageOdds"); pyOdds > 0 {
		for _, st := range prog.Stages {
			if rapid.IntRange(0, pyOdds-1).Draw(t, "pyStage") == 0 {
				st.SrcLang = "py"
				st.SrcPath = "stages/" + strings.ToLower(st.Name)
			}
		}
	}
	src := prog.Source(runLayout(t))
	opts := stagefn.Opts{NullPct: rapid.SampledFrom([]int{0, 0, 5}).Draw(t, "outNullPct"), ChunkChoices: []int{0, 1, 2, 3}}
	model := refsem.Eval(prog, &opts)
	if model.Unsupported != "" || len(model.Jobs) > maxJobs || len(model.Jobs) < 1 {
		stats.Count(prop, "model_declined_or_size", 1)
		return nil, nil
	}
	pl := &plan.Plan{Opts: opts, Faults: map[string]plan.Fault{}}
	c, err := mrprun.New(prog, src, dir, mroot(t), pl)
	if err != nil {
		cleanup()
		t.Fatalf("INFRA: %v", err)
	}
	return &e2Case{Case: c, prog: prog, src: src, model: model}, cleanup
}

// jobsByCall groups canonical arguments by "call path|phase" (chunk indices
// dropped: the multiset of chunk jobs is what is compared).
func modelMultiset(m *refsem.Result) map[string][]string {
	r := map[string][]string{}
	for _, j := range m.Jobs {
		k := j.CallPath + "|" + j.Phase
		r[k] = append(r[k], canonArgs(j.Args))
	}
	for _, v := range r {
		sort.Strings(v)
	}
	return r
}

func ledgerMultiset(prog *mrogen.Program, recs []*mrprun.Record, lastAttemptOnly bool) (map[string][]string, error) {
	last := map[string]*mrprun.Record{}
	var all []*mrprun.Record
	for _, r := range recs {
		if lastAttemptOnly {
			if o := last[r.Identity]; o == nil || r.Attempt > o.Attempt {
				last[r.Identity] = r
			}
		} else {
			all = append(all, r)
		}
	}
	if lastAttemptOnly {
		for _, r := range last {
			all = append(all, r)
		}
	}
	res := map[string][]string{}
	for _, r := range all {
		i := strings.LastIndexByte(r.Identity, ':')
		ph := r.Identity[i+1:]
		if strings.HasPrefix(ph, "chunk") {
			ph = "chunk"
			if st := prog.Stage(r.Stage); st != nil && !st.Split {
				ph = "main"
			}
		}
		call := identCall(r.Identity)
		v, err := jsonx.Parse(r.Args)
		if err != nil {
			return nil, fmt.Errorf("%s: args: %v", r.Identity, err)
		}
		o, _ := v.(*jsonx.Obj)
		res[call+"|"+ph] = append(res[call+"|"+ph], canonArgs(o))
	}
	for _, v := range res {
		sort.Strings(v)
	}
	return res, nil
}

func compareMultisets(want, got map[string][]string) string {
	keys := map[string]bool{}
	for k := range want {
		keys[k] = true
	}
	for k := range got {
		keys[k] = true
	}
	var ks []string
	for k := range keys {
		ks = append(ks, k)
	}
	sort.Strings(ks)
	for _, k := range ks {
		if strings.Join(want[k], "\n") != strings.Join(got[k], "\n") {
			return fmt.Sprintf("%s: the model expects %d jobs with arguments %v; executed: %d with %v", k, len(want[k]), want[k], len(got[k]), got[k])
		}
	}
	return ""
}

// maskFiles replaces every leaf of a file type by a placeholder: mrp's
// post-processing rewrites those (a path that names no existing file becomes
// null, an existing one moves to outs/), which is C13's subject.
func maskFiles(prog *mrogen.Program, ty mrogen.Ty, v any) any {
	if _, coll := ty.Elem(); !coll && (ty.Base == "file" || ty.Base == "path" || prog.U.IsFileType(ty.Base)) {
		return "<file>"
	}
	if v == nil || prog.FileKind(ty) < 2 {
		return v
	}
	if el, ok := ty.Elem(); ok {
		switch x := v.(type) {
		case []any:
			r := make([]any, len(x))
			for i, e := range x {
				r[i] = maskFiles(prog, el, e)
			}
			return r
		case *jsonx.Obj:
			r := jsonx.NewObj()
			for i, k := range x.Keys {
				r.Set(k, maskFiles(prog, el, x.Vals[i]))
			}
			return r
		}
		return v
	}
	if ty.Base == "file" || ty.Base == "path" || prog.U.IsFileType(ty.Base) {
		return "<file>"
	}
	o, ok := v.(*jsonx.Obj)
	if !ok {
		return v
	}
	r := jsonx.NewObj()
	fields := structFields(prog, ty.Base)
	for i, k := range o.Keys {
		done := false
		for _, f := range fields {
			if f.Name == k {
				r.Set(k, maskFiles(prog, f.T, o.Vals[i]))
				done = true
			}
		}
		if !done {
			r.Set(k, o.Vals[i])
		}
	}
	return r
}

func maskTop(prog *mrogen.Program, outs *jsonx.Obj) *jsonx.Obj {
	top := prog.Pipeline(prog.Top.Callee)
	r := jsonx.NewObj()
	for i, k := range outs.Keys {
		var ty *mrogen.Ty
		for _, p := range top.Outs {
			if p.Name == k {
				t := p.T
				ty = &t
			}
		}
		if ty == nil {
			r.Set(k, outs.Vals[i])
		} else {
			r.Set(k, maskFiles(prog, *ty, outs.Vals[i]))
		}
	}
	return r
}

func (c *e2Case) checkFinal(t *rapid.T, prop string) {
	outs, err := c.TopOuts()
	if err != nil {
		fail(t, prop, "top-outs-unreadable", "%v\n%s", err, c.describe())
	}
	if ok, d := refsem.EqualSoft(maskTop(c.prog, c.model.Outs), maskTop(c.prog, outs), "outs"); !ok {
		fail(t, prop, "final-outputs-differ", "%s\n  recorded: %s\n  expected: %s\n%s", d, jsonx.Marshal(outs), jsonx.Marshal(refsem.Concretize(c.model.Outs)), c.describe())
	}
}

// TestE2Run: programs run to completion under the real binaries; the final
// outputs and the set of executed jobs (with their arguments) are the
// reference model's (C01 / C03 sample on E2).
func TestE2Run(t *testing.T) {
	root := workRoot(t)
	rapid.Check(t, func(t *rapid.T) {
		prog := mrogen.GenProgram(t, e2Cfg())
		for k := range excluded {
			delete(excluded, k)
		}
		c, done := newE2(t, root, "e2run", prog, "C01", 25)
		if c == nil {
			return
		}
		defer done()
		c.Plan.SleepMs = rapid.SampledFrom([]int{0, 5, 15}).Draw(t, "jobMs")
		c.Plan.Write(c.Dir)
		p, err := c.Start("--localcores=4", "--localmem=8")
		if err != nil {
			t.Fatalf("INFRA: %v", err)
		}
		rc := p.Wait(300 * time.Second)
		if rc != 0 {
			fail(t, "C01", "e2-run-failed", "mrp exited with %d\n%s\n%s", rc, stats.Trunc(p.Log(), 3000), c.describe())
		}
		c.checkFinal(t, "C01")
		got, err := ledgerMultiset(c.prog, c.Ledger(), false)
		if err != nil {
			t.Fatalf("INFRA: %v", err)
		}
		if d := compareMultisets(modelMultiset(c.model), got); d != "" {
			fail(t, "C03", "e2-job-multiset-differs", "%s\n%s", d, c.describe())
		}
		if c.Locked() {
			fail(t, "C05", "lock-left-after-success", "%s", c.describe())
		}
		// --- C02 on real time: a job's process starts only after the final
		// job of every call instance it depends on has ended
		ix := indexModel(c.model)
		ix.trueDeps = refsem.TrueDeps(prog, &c.Plan.Opts, c.model)
		recKey := func(r *mrprun.Record) (string, string) {
			ph := r.Identity[strings.LastIndexByte(r.Identity, ':')+1:]
			if strings.HasPrefix(ph, "chunk") {
				ph = "chunk"
				if st := prog.Stage(r.Stage); st != nil && !st.Split {
					ph = "main"
				}
			}
			v, _ := jsonx.Parse(r.Args)
			o, _ := v.(*jsonx.Obj)
			return identCall(r.Identity) + "|" + ph, canonArgs(o)
		}
		ordered := 0
		recs := c.Ledger()
		for _, r := range recs {
			k, a := recKey(r)
			for _, m := range ix.byKey[k] {
				if canonArgs(m.Args) != a {
					continue
				}
				for _, d := range ix.trueDeps[m.Key()] {
					fj := ix.final[d]
					if fj == nil {
						continue
					}
					wa := canonArgs(fj.Args)
					var end int64 = -1
					for _, o := range recs {
						ok, oa := recKey(o)
						if ok == fj.CallPath+"|"+fj.Phase && oa == wa && (end < 0 || o.End < end) {
							end = o.End
						}
					}
					ordered++
					if end < 0 || end > r.Start {
						fail(t, "C02", "e2-started-before-dependency-ended", "job %s started at %d ns, the final job of %s it depends on ended at %d ns (-1: never ran)\n%s", r.Identity, r.Start, d, end, c.describe())
					}
				}
				break
			}
		}
		if ordered > 0 {
			stats.Count("C01", "e2_dependency_orderings_checked", int64(ordered))
		}
		sample := func() any {
			return map[string]any{"program": stats.Trunc(c.src, 800), "jobs": len(c.model.Jobs), "orderings_checked": ordered}
		}
		stats.Case("C01", len(c.model.Jobs) >= 2, stats.Digest(c.src), []string{"e2-run"}, sample)
		stats.Case("C02", ordered > 0, stats.Digest(c.src), []string{"e2-run"}, sample)
		stats.Case("C03", len(c.model.Jobs) >= 2, stats.Digest(c.src), []string{"e2-run"}, sample)
	})
}

func identCall(id string) string {
	if i := strings.Index(id, "//"); i >= 0 {
		return id[:i]
	}
	return id
}

// identFork: identity without the phase ("call//fork:").
func identFork(id string) string {
	return id[:strings.LastIndexByte(id, ':')+1]
}

func waitLedger(c *e2Case, p *mrprun.Proc, n int, timeout time.Duration) int {
	deadline := time.Now().Add(timeout)
	for time.Now().Before(deadline) && p.Running() {
		if k := len(c.Ledger()); k >= n {
			return k
		}
		time.Sleep(3 * time.Millisecond)
	}
	return len(c.Ledger())
}

// TestE2Interrupt: C05 with real processes.  mrp is sent SIGTERM, SIGINT or
// SIGKILL when a generated number of jobs have started, then restarted with
// the same invocation.
func TestE2Interrupt(t *testing.T) {
	root := workRoot(t)
	propOverride = "C05"
	defer func() { propOverride = "" }()
	rapid.Check(t, func(t *rapid.T) {
		prog := mrogen.GenProgram(t, e2Cfg())
		for k := range excluded {
			delete(excluded, k)
		}
		c, done := newE2(t, root, "e2int", prog, "C05", 25)
		if c == nil {
			return
		}
		defer done()
		c.Plan.SleepMs = rapid.SampledFrom([]int{5, 20, 40}).Draw(t, "jobMs")
		c.Plan.Write(c.Dir)
		nInt := rapid.IntRange(1, 2).Draw(t, "interruptions")
		var classes []string
		inside := false
		completedBefore := map[string]bool{}
		var restartAt int64
		for i := 0; i < nInt; i++ {
			p, err := c.Start("--localcores=4", "--localmem=8")
			if err != nil {
				t.Fatalf("INFRA: %v", err)
			}
			after := len(c.Ledger()) + rapid.IntRange(1, max(1, len(c.model.Jobs))).Draw(t, "afterRecords")
			waitLedger(c, p, after, 20*time.Second)
			if d := rapid.IntRange(0, 3).Draw(t, "extraDelay"); d > 0 {
				time.Sleep(time.Duration(d) * 7 * time.Millisecond)
			}
			sig := rapid.SampledFrom([]string{"TERM", "INT", "KILL", "KILL"}).Draw(t, "signal")
			running := p.Running()
			switch sig {
			case "TERM":
				p.Signal(15)
			case "INT":
				p.Signal(2)
			case "KILL":
				if rapid.Bool().Draw(t, "wholeGroup") {
					p.KillGroup()
					sig = "KILL-group"
				} else {
					p.Signal(9)
				}
			}
			rc := p.Wait(150 * time.Second)
			c.logf("run %d: SIG%s sent when %d job records existed (mrp %s); exit %d", c.Runs, sig, len(c.Ledger()), map[bool]string{true: "running", false: "already gone"}[running], rc)
			if rc == -1 {
				fail(t, "C05", "mrp-does-not-exit-on-signal", "mrp was still running 150 s after SIG%s\n%s\n%s", sig, stats.Trunc(p.Log(), 2000), c.describe())
			}
			if running && rc != 0 {
				classes = append(classes, "signal:"+sig)
				if !strings.HasPrefix(sig, "KILL") && c.Locked() {
					fail(t, "C05", "lock-left-after-handled-signal", "mrp handled SIG%s and exited with %d, but the pipestance is still locked\n%s\n%s", sig, rc, stats.Trunc(p.Log(), 2000), c.describe())
				}
			}
			// "later restarted": the operator waits until the jobs of the
			// old mrp are gone (they get the parent-death signal), then
			// does what is documented for a killed mrp
			if !p.WaitGroupGone(20 * time.Second) {
				c.logf("jobs of run %d still alive after 20 s: killed", c.Runs)
				p.KillGroup()
				p.WaitGroupGone(5 * time.Second)
			}
			if strings.HasPrefix(sig, "KILL") {
				os.Remove(filepath.Join(c.PsDir(), "_lock"))
			}
			comp := c.Completed()
			for id := range comp {
				completedBefore[id] = true
			}
			if running && rc != 0 && len(comp) > 0 && len(comp) < len(c.model.Jobs) {
				inside = true
			}
			restartAt = time.Now().UnixNano()
		}
		p, err := c.Start("--localcores=4", "--localmem=8")
		if err != nil {
			t.Fatalf("INFRA: %v", err)
		}
		if rc := p.Wait(300 * time.Second); rc != 0 {
			fail(t, "C05", "restart-does-not-complete", "the restarted mrp exited with %d\n%s\n%s", rc, stats.Trunc(p.Log(), 3000), c.describe())
		}
		c.checkFinal(t, "C05")
		if c.Locked() {
			fail(t, "C05", "lock-left-after-success", "%s", c.describe())
		}
		for _, r := range c.Ledger() {
			if r.Start > restartAt && completedBefore[r.Identity] {
				fail(t, "C05", "completed-job-executed-again", "job %s (attempt %d) ran after the last restart although its _complete existed before\n%s", r.Identity, r.Attempt, c.describe())
			}
		}
		got, err := ledgerMultiset(c.prog, c.Ledger(), true)
		if err != nil {
			t.Fatalf("INFRA: %v", err)
		}
		if d := compareMultisets(modelMultiset(c.model), got); d != "" {
			fail(t, "C05", "job-multiset-differs", "%s\n%s", d, c.describe())
		}
		sort.Strings(classes)
		if inside {
			classes = append(classes, "inside-run")
		}
		stats.Case("C05", inside, stats.Digest(c.src, strings.Join(c.hist, "|")), append(classes, "e2"), func() any {
			return map[string]any{"program": stats.Trunc(c.src, 800), "history": c.hist}
		})
	})
}

// TestE2Faults: C06 with real processes: exit codes, signals, the error
// pipe, broken outputs; mrp's exit status and report; restart; auto-retry.
func TestE2Faults(t *testing.T) {
	root := workRoot(t)
	propOverride = "C06"
	defer func() { propOverride = "" }()
	rapid.Check(t, func(t *rapid.T) {
		prog := mrogen.GenProgram(t, e2Cfg())
		for k := range excluded {
			delete(excluded, k)
		}
		c, done := newE2(t, root, "e2flt", prog, "C06", 25)
		if c == nil {
			return
		}
		defer done()
		ix := indexModel(c.model)
		ix.trueDeps = refsem.TrueDeps(prog, &c.Plan.Opts, c.model)
		// a fault-free run tells the identities of the jobs
		p, err := c.Start("--localcores=4", "--localmem=8")
		if err != nil {
			t.Fatalf("INFRA: %v", err)
		}
		if rc := p.Wait(300 * time.Second); rc != 0 {
			fail(t, "C06", "run-failed-without-fault", "mrp exited with %d\n%s\n%s", rc, stats.Trunc(p.Log(), 3000), c.describe())
		}
		recs := c.Ledger()
		if len(recs) == 0 {
			return
		}
		site := recs[rapid.IntRange(0, len(recs)-1).Draw(t, "site")]
		kinds := []string{"exit", "signal", "errpipe", "assert"}
		st := prog.Stage(site.Stage)
		switch {
		case st.SrcLang == "py":
			// (what a python module returns is written by the adapter:
			// no half-written files; an exception instead of the error pipe)
		case site.Phase == "split":
			kinds = append(kinds, "bad-stage-defs")
		case site.Phase == "join" || (site.Phase == "main" && !st.Split):
			if stats.Known("C06/dependent-map-call-disabled-after-restart") && feedsRunTimeMap(prog, identCall(site.Identity)) {
				stats.Count("C06", "excluded_known:rejected-outputs-of-map-source", 1)
			} else if len(st.Outs) > 0 {
				kinds = append(kinds, "truncate-outs", "missing-key")
			}
		}
		kind := rapid.SampledFrom(kinds).Draw(t, "kind")
		retry := rapid.SampledFrom([]int{0, 0, 2}).Draw(t, "autoretry")
		once := retry > 0 && rapid.Bool().Draw(t, "transientOnce")
		// same program, fresh directory, with the fault
		os.RemoveAll(c.PsDir())
		os.RemoveAll(c.Plan.Ledger)
		c.Plan.Faults = map[string]plan.Fault{site.Identity: {Kind: kind, Text: "the stage says no", Once: once}}
		c.Plan.Write(c.Dir)
		args := []string{"--localcores=4", "--localmem=8", fmt.Sprintf("--autoretry=%d", retry), "--retry-wait=0"}
		p, err = c.Start(args...)
		if err != nil {
			t.Fatalf("INFRA: %v", err)
		}
		rc := p.Wait(240 * time.Second)
		log := p.Log()
		c.logf("fault %s in %s (autoretry %d, once %v): mrp exit %d", kind, site.Identity, retry, once, rc)
		attempts := 0
		for _, r := range c.Ledger() {
			if r.Identity == site.Identity {
				attempts++
			}
		}
		transient := kind == "signal"
		classes := []string{"kind:" + kind, "phase:" + site.Phase, fmt.Sprintf("autoretry:%d", retry), "e2"}
		if rc == -1 {
			fail(t, "C06", "mrp-does-not-give-up", "240 s after the fault mrp is still running (%d attempts of the failing job)\n%s\n%s", attempts, stats.Trunc(log, 2500), c.describe())
		}
		if retry > 0 && once && transient {
			// the failure goes away on the second attempt: success
			if rc != 0 {
				fail(t, "C06", "transient-failure-not-retried", "exit %d although the failure is transient, gone on the second attempt, and --autoretry=%d\n%s\n%s", rc, retry, stats.Trunc(log, 2500), c.describe())
			}
			c.checkFinal(t, "C06")
			classes = append(classes, "retried-to-success")
		} else {
			if rc == 0 || strings.Contains(log, "completed successfully") {
				fail(t, "C06", "success-despite-failure", "job %s fails with %s, mrp exits with %d\n%s\n%s", site.Identity, kind, rc, stats.Trunc(log, 2500), c.describe())
			}
			if kind == "assert" {
				// an assertion is reported by its message alone (it is how
				// preflight checks talk to the user)
				if !strings.Contains(log, "the stage says no") {
					fail(t, "C06", "assert-message-lost", "job %s fails with an assertion; mrp's output does not carry its message\n%s\n%s", site.Identity, stats.Trunc(log, 2500), c.describe())
				}
			} else if !strings.Contains(log, identCall(site.Identity)) && !strings.Contains(log, strings.ReplaceAll(identCall(site.Identity), ".", "/")+"/") {
				fail(t, "C06", "error-does-not-name-stage", "job %s fails with %s; mrp's output does not mention %s\n%s\n%s", site.Identity, kind, identCall(site.Identity), stats.Trunc(log, 2500), c.describe())
			}
			if c.Locked() {
				fail(t, "C06", "lock-left-behind", "mrp exited with %d but the pipestance is still locked\n%s", rc, c.describe())
			}
			maxAttempts := 1
			if transient {
				maxAttempts = 1 + retry
			}
			if attempts > maxAttempts {
				fail(t, "C06", "retried-more-than-allowed", "job %s failing with %s was attempted %d times with --autoretry=%d\n%s", site.Identity, kind, attempts, retry, c.describe())
			}
			// no dependent of the failed call ran
			failedCall := identCall(site.Identity)
			dependents := map[string]bool{}
			for _, m := range c.model.Jobs {
				for _, d := range ix.trueDeps[m.Key()] {
					if refsem.DepCallPath(d) == failedCall && m.CallPath != failedCall {
						dependents[m.CallPath] = true
					}
				}
			}
			for _, r := range c.Ledger() {
				if dependents[identCall(r.Identity)] {
					fail(t, "C06", "dependent-started", "job %s ran although it depends on the failed call %s\n%s", r.Identity, failedCall, c.describe())
				}
			}
			if len(dependents) > 0 {
				classes = append(classes, "has-dependents")
			}
			// restart without the fault, once the jobs of the failed mrp are gone
			if !p.WaitGroupGone(20 * time.Second) {
				p.KillGroup()
				p.WaitGroupGone(5 * time.Second)
			}
			completedBefore := c.Completed()
			// (the job that produced broken output has a _complete marker
			// but is the failed work)
			delete(completedBefore, site.Identity)
			if kind == "truncate-outs" || kind == "missing-key" {
				for id := range completedBefore {
					if strings.HasPrefix(id, identFork(site.Identity)) {
						delete(completedBefore, id)
					}
				}
			}
			restartAt := time.Now().UnixNano()
			c.Plan.Faults = map[string]plan.Fault{}
			c.Plan.Write(c.Dir)
			p, err = c.Start("--localcores=4", "--localmem=8")
			if err != nil {
				t.Fatalf("INFRA: %v", err)
			}
			if rc := p.Wait(300 * time.Second); rc != 0 {
				fail(t, "C06", "restart-does-not-complete", "with the fault removed mrp exits with %d\n%s\n%s", rc, stats.Trunc(p.Log(), 3000), c.describe())
			}
			c.checkFinal(t, "C06")
			for _, r := range c.Ledger() {
				if r.Start > restartAt && completedBefore[r.Identity] {
					fail(t, "C06", "completed-job-executed-again", "job %s ran again after the restart although it had completed\n%s", r.Identity, c.describe())
				}
			}
		}
		stats.Case("C06", true, stats.Digest(c.src, strings.Join(c.hist, "|")), classes, func() any {
			return map[string]any{"program": stats.Trunc(c.src, 800), "history": c.hist}
		})
	})
}

// TestE2Lock: C15 with real processes: while one mrp holds a pipestance, a
// second and a third one are refused and leave the lock alone.
func TestE2Lock(t *testing.T) {
	root := workRoot(t)
	propOverride = "C15"
	defer func() { propOverride = "" }()
	rapid.Check(t, func(t *rapid.T) {
		prog := mrogen.GenProgram(t, e2Cfg())
		for k := range excluded {
			delete(excluded, k)
		}
		c, done := newE2(t, root, "e2lck", prog, "C15", 15)
		if c == nil {
			return
		}
		defer done()
		// every job waits for the gate: the first mrp stays alive
		gate := filepath.Join(c.Dir, "gate")
		c.Plan.SleepMs = 0
		p0, err := c.Start("--localcores=4", "--localmem=8")
		if err != nil {
			t.Fatalf("INFRA: %v", err)
		}
		if rc := p0.Wait(300 * time.Second); rc != 0 {
			fail(t, "C15", "run-failed-without-fault", "mrp exited with %d\n%s", rc, stats.Trunc(p0.Log(), 2000))
		}
		ids := map[string]plan.Fault{}
		for _, r := range c.Ledger() {
			ids[r.Identity] = plan.Fault{Kind: "gate", Gate: gate}
		}
		os.RemoveAll(c.PsDir())
		os.RemoveAll(c.Plan.Ledger)
		c.Plan.Faults = ids
		c.Plan.Write(c.Dir)
		p1, err := c.Start("--localcores=4", "--localmem=8")
		if err != nil {
			t.Fatalf("INFRA: %v", err)
		}
		defer p1.KillGroup()
		waitLedger(c, p1, 1, 20*time.Second)
		if !p1.Running() || !c.Locked() {
			fail(t, "C15", "owner-not-locked", "the first mrp is running=%v, _lock exists=%v\n%s", p1.Running(), c.Locked(), stats.Trunc(p1.Log(), 2000))
		}
		n := rapid.IntRange(1, 3).Draw(t, "attempts")
		for i := 0; i < n; i++ {
			how := rapid.SampledFrom([]string{"same", "same", "inspect"}).Draw(t, "how")
			args := []string{"--localcores=4", "--localmem=8"}
			if how == "inspect" {
				args = append(args, "--inspect", "--noexit")
			}
			p2, err := c.Start(args...)
			if err != nil {
				t.Fatalf("INFRA: %v", err)
			}
			if how == "inspect" {
				// read-only attach is allowed; it must not touch the lock
				time.Sleep(150 * time.Millisecond)
				p2.KillGroup()
				p2.Wait(10 * time.Second)
			} else {
				rc := p2.Wait(120 * time.Second)
				c.logf("attach attempt %d (%s): exit %d", i+1, how, rc)
				if rc == 0 || rc == -1 {
					p2.KillGroup()
					fail(t, "C15", "second-writer-accepted", "a second mrp attached for writing while the first is alive (exit %d)\n%s\n%s", rc, stats.Trunc(p2.Log(), 2500), c.describe())
				}
				if !strings.Contains(p2.Log(), "lock") {
					fail(t, "C15", "refusal-does-not-mention-lock", "exit %d:\n%s", rc, stats.Trunc(p2.Log(), 2500))
				}
			}
			if !c.Locked() {
				fail(t, "C15", "lock-removed-by-refused-attempt", "after attach attempt %d (%s) the owner's _lock is gone while the owner (pid %d) is alive\n%s", i+1, how, p1.Cmd.Process.Pid, c.describe())
			}
			if !p1.Running() {
				fail(t, "C15", "owner-died", "the first mrp exited during attach attempt %d\n%s", i+1, stats.Trunc(p1.Log(), 2500))
			}
		}
		os.WriteFile(gate, []byte("go"), 0o644)
		if rc := p1.Wait(300 * time.Second); rc != 0 {
			fail(t, "C15", "owner-fails-after-refused-attempts", "exit %d\n%s\n%s", rc, stats.Trunc(p1.Log(), 3000), c.describe())
		}
		c.checkFinal(t, "C15")
		got, err := ledgerMultiset(c.prog, c.Ledger(), false)
		if err != nil {
			t.Fatalf("INFRA: %v", err)
		}
		if d := compareMultisets(modelMultiset(c.model), got); d != "" {
			fail(t, "C15", "jobs-ran-twice-or-not-at-all", "%s\n%s", d, c.describe())
		}
		stats.Case("C15", true, stats.Digest(c.src, n), []string{"e2-lock", fmt.Sprintf("attempts:%d", n)}, func() any {
			return map[string]any{"program": stats.Trunc(c.src, 600), "history": c.hist}
		})
	})
}

// TestE2Resources: C12 end to end: with generated --localcores / --localmem
// the reservations of jobs that run at the same time never add up to more.
func TestE2Resources(t *testing.T) {
	root := workRoot(t)
	propOverride = "C12"
	defer func() { propOverride = "" }()
	rapid.Check(t, func(t *rapid.T) {
		prog := mrogen.GenProgram(t, e2Cfg())
		for k := range excluded {
			delete(excluded, k)
		}
		c, done := newE2(t, root, "e2res", prog, "C12", 30)
		if c == nil {
			return
		}
		defer done()
		cores := rapid.IntRange(1, 4).Draw(t, "cores")
		mem := rapid.IntRange(1, 6).Draw(t, "mem")
		c.Plan.SleepMs = rapid.SampledFrom([]int{15, 30}).Draw(t, "jobMs")
		c.Plan.Write(c.Dir)
		p, err := c.Start(fmt.Sprintf("--localcores=%d", cores), fmt.Sprintf("--localmem=%d", mem))
		if err != nil {
			t.Fatalf("INFRA: %v", err)
		}
		if rc := p.Wait(400 * time.Second); rc != 0 {
			fail(t, "C12", "run-fails-under-limits", "--localcores=%d --localmem=%d: mrp exited with %d\n%s\n%s", cores, mem, rc, stats.Trunc(p.Log(), 3000), c.describe())
		}
		c.checkFinal(t, "C12")
		recs := c.Ledger()
		type ev struct {
			t       int64
			threads float64
			mem     float64
		}
		var evs []ev
		for _, r := range recs {
			evs = append(evs, ev{r.Start, r.Threads, r.MemGB}, ev{r.End, -r.Threads, -r.MemGB})
		}
		sort.Slice(evs, func(i, j int) bool {
			if evs[i].t != evs[j].t {
				return evs[i].t < evs[j].t
			}
			return evs[i].threads < evs[j].threads
		})
		var th, mm, maxTh, maxMem float64
		overlap := 0
		running := 0
		for _, e := range evs {
			th += e.threads
			mm += e.mem
			if e.threads > 0 {
				running++
				if running > 1 {
					overlap++
				}
			} else {
				running--
			}
			if th > maxTh {
				maxTh = th
			}
			if mm > maxMem {
				maxMem = mm
			}
		}
		if maxTh > float64(cores)+1e-9 {
			fail(t, "C12", "cores-oversubscribed", "--localcores=%d but jobs reserving %.3g threads ran at the same time\n%s", cores, maxTh, c.describe())
		}
		if maxMem > float64(mem)+1e-9 {
			fail(t, "C12", "memory-oversubscribed", "--localmem=%d but jobs reserving %.3g GB ran at the same time\n%s", mem, maxMem, c.describe())
		}
		cl := []string{"e2-resources", fmt.Sprintf("cores:%d", cores)}
		if overlap > 0 {
			cl = append(cl, "jobs-overlapped")
		}
		stats.Case("C12", overlap > 0, stats.Digest(c.src, cores, mem), cl, func() any {
			return map[string]any{"program": stats.Trunc(c.src, 600), "cores": cores, "mem": mem, "max_threads": maxTh, "max_mem": maxMem, "jobs": len(recs)}
		})
	})
}

// ---- file runs on E2 -------------------------------------------------------------

func (c *e2Case) fileEntries() []*filesim.Entry {
	files, _ := filepath.Glob(filepath.Join(c.Plan.Ledger, "files.*.json"))
	sort.Strings(files)
	var all []*filesim.Entry
	for _, f := range files {
		b, err := os.ReadFile(f)
		if err != nil {
			continue
		}
		var es []*filesim.Entry
		if json.Unmarshal(b, &es) == nil {
			all = append(all, es...)
		}
	}
	return all
}

// e2Outs compares the post-processed outputs record with the model's, for a
// value of type ty: non-file values are equal; a file leaf whose token says
// "never written" is null, any other points (below outs/, unless the output
// was a symbolic link) at the content its token stands for.
func (c *e2Case) e2Outs(t *rapid.T, pos string, ty mrogen.Ty, want, got any, nested *int) {
	prog := c.prog
	if _, soft := want.(refsem.SoftNull); soft || prog.FileKind(ty) < 2 {
		// (the result of a disabled or empty mapped call: null, an empty
		// collection or a collection of nulls, whatever its type)
		if ok, d := refsem.EqualSoft(want, c.normPs(got), pos); !ok {
			fail(t, "C13", "outs-record-differs", "%s\n%s", d, c.describe())
		}
		return
	}
	if el, ok := ty.Elem(); ok {
		if ty.IsArray() {
			w, _ := want.([]any) // (members may be soft nulls: not concretized here)
			g, _ := got.([]any)
			if len(w) != len(g) {
				fail(t, "C13", "outs-record-differs", "%s: %d elements, expected %d\n%s", pos, len(g), len(w), c.describe())
			}
			for i := range w {
				c.e2Outs(t, fmt.Sprintf("%s[%d]", pos, i), el, w[i], g[i], nested)
			}
			return
		}
		w, _ := want.(*jsonx.Obj)
		g, _ := got.(*jsonx.Obj)
		if (w == nil) != (g == nil) || (w != nil && len(w.Keys) != len(g.Keys)) {
			fail(t, "C13", "outs-record-differs", "%s: %s, expected %s\n%s", pos, jsonx.Marshal(got), jsonx.Marshal(refsem.Concretize(want)), c.describe())
		}
		if w != nil {
			for i, k := range w.Keys {
				v, ok := g.Get(k)
				if !ok {
					fail(t, "C13", "outs-record-differs", "%s: key %q is missing\n%s", pos, k, c.describe())
				}
				if k == "" || k == "." || k == ".." || strings.ContainsAny(k, "/\x00") || len(k) > 255 {
					// cannot be a directory name: the entry stays where it is
					if ok, d := refsem.EqualSoft(w.Vals[i], c.normPs(v), pos+"["+k+"]"); !ok {
						fail(t, "C13", "outs-record-differs", "%s\n%s", d, c.describe())
					}
					continue
				}
				c.e2Outs(t, pos+"["+k+"]", el, w.Vals[i], v, nested)
			}
		}
		return
	}
	if isFileScalar(prog.U, ty) {
		tok, _ := refsem.Concretize(want).(string)
		if refsem.Concretize(want) == nil || tok == "" {
			if got != nil {
				fail(t, "C13", "outs-record-differs", "%s: %s, expected null\n%s", pos, jsonx.Marshal(got), c.describe())
			}
			return
		}
		if !stageTokenRe.MatchString(tok) {
			// a literal from the program text, not a file a stage wrote:
			// it names nothing that exists and is reported as null
			return
		}
		kind := filesim.LeafKind(ty.Base, tok)
		if !c.tokensWritten[tok] && !c.tokensReturned[tok] {
			// the token was produced for an output of type string that
			// stayed a plain string (no file): as a file it names nothing
			if got != nil {
				fail(t, "C13", "outs-record-differs", "%s: %s for the plain string %q bound to a file-typed output, expected null\n%s", pos, jsonx.Marshal(got), tok, c.describe())
			}
			return
		}
		if !c.tokensWritten[tok] {
			kind = "never"
		} else if c.tokensDir[tok] {
			kind = "dir"
		} else if kind == "dir" || kind == "never" {
			// what is on disk was decided by the type at the producer: a
			// string output that a struct conversion turns into a file or
			// path was written as a plain file, whatever the token would
			// have meant for an output declared as file or path
			kind = "file"
		}
		if kind == "never" {
			if got != nil {
				fail(t, "C13", "never-written-file-not-null", "%s: %s for a path that was returned but never written\n%s", pos, jsonx.Marshal(got), c.describe())
			}
			return
		}
		s, ok := got.(string)
		if !ok {
			fail(t, "C13", "output-missing-under-outs", "%s: %s, expected the location of file %s\n%s", pos, jsonx.Marshal(got), tok, c.describe())
		}
		*nested++
		outs := filepath.Join(c.PsDir(), "outs") + "/"
		if kind != "link" && kind != "chain" && !strings.HasPrefix(s, outs) {
			fail(t, "C13", "output-missing-under-outs", "%s: %q is not below %s\n%s", pos, s, outs, c.describe())
		}
		p := s
		want := filesim.ContentFor(tok)
		if kind == "dir" {
			p = filepath.Join(s, "part0")
			want = filesim.ContentFor(tok + "/part0")
		}
		if b, err := os.ReadFile(p); err != nil || string(b) != want {
			fail(t, "C13", "output-content-differs", "%s: %s holds %q (%v), the stage wrote %q\n%s", pos, p, b, err, want, c.describe())
		}
		return
	}
	w, _ := want.(*jsonx.Obj)
	g, _ := got.(*jsonx.Obj)
	if (w == nil) != (g == nil) {
		fail(t, "C13", "outs-record-differs", "%s: %s, expected %s\n%s", pos, jsonx.Marshal(got), jsonx.Marshal(refsem.Concretize(want)), c.describe())
	}
	if w == nil {
		return
	}
	fields := structFields(prog, ty.Base)
	for i, k := range w.Keys {
		v, _ := g.Get(k)
		var ft *mrogen.Ty
		for _, f := range fields {
			if f.Name == k {
				tt := f.T
				ft = &tt
			}
		}
		if ft == nil {
			continue
		}
		c.e2Outs(t, pos+"."+k, *ft, w.Vals[i], v, nested)
	}
}

var stageTokenRe = regexp.MustCompile(`^[sf][0-9]+$`)

// normPs maps paths inside the pipestance to their tokens.
func (c *e2Case) normPs(v any) any {
	return filesim.New(c.PsDir()).Norm(v)
}

// TestE2Files: C04 / C13 / C14 samples under the real mrp, mrjob and a stage
// binary that writes real files, with VDR running concurrently with jobs.
func TestE2Files(t *testing.T) {
	root := workRoot(t)
	rapid.Check(t, func(t *rapid.T) {
		cfg := filesCfg()
		cfg.MaxStages, cfg.MaxCalls, cfg.MaxPipelines = 3, 3, 2
		prog := mrogen.GenProgram(t, cfg)
		for k := range excluded {
			delete(excluded, k)
		}
		caseSeq++
		dir := filepath.Join(root, fmt.Sprintf("e2fil%d-%d", os.Getpid(), caseSeq))
		if os.Getenv("VERIF_KEEP") == "" {
			defer os.RemoveAll(dir)
		}
		src := prog.Source(nil)
		opts := stagefn.Opts{NullPct: rapid.SampledFrom([]int{0, 0, 5}).Draw(t, "outNullPct"), ChunkChoices: []int{0, 1, 2, 3}, Files: true}
		model := refsem.Eval(prog, &opts)
		if model.Unsupported != "" || len(model.Jobs) > 25 || len(model.Jobs) < 1 {
			return
		}
		mode := rapid.SampledFrom([]string{"rolling", "rolling", "post", "strict", "strict", "disable"}).Draw(t, "vdrMode")
		pl := &plan.Plan{Opts: opts, Faults: map[string]plan.Fault{}, SleepMs: rapid.SampledFrom([]int{0, 10, 25}).Draw(t, "jobMs")}
		mc, err := mrprun.New(prog, src, dir, mroot(t), pl)
		if err != nil {
			t.Fatalf("INFRA: %v", err)
		}
		c := &e2Case{Case: mc, prog: prog, src: src, model: model}
		sentinel := filepath.Join(dir, "sentinel")
		os.MkdirAll(sentinel, 0o755)
		os.WriteFile(filepath.Join(sentinel, "a.txt"), []byte("sentinel"), 0o644)
		sentinelHash := hashTree(sentinel)
		p, err := c.Start("--localcores=4", "--localmem=8", "--vdrmode="+mode)
		if err != nil {
			t.Fatalf("INFRA: %v", err)
		}
		if rc := p.Wait(400 * time.Second); rc != 0 {
			fail(t, "C01", "e2-run-failed", "vdr mode %s: mrp exited with %d\n%s\n%s", mode, rc, stats.Trunc(p.Log(), 3000), c.describe())
		}
		c.logf("vdr mode %s", mode)
		recs := c.Ledger()
		entries := c.fileEntries()
		c.tokensWritten, c.tokensReturned, c.tokensDir = map[string]bool{}, map[string]bool{}, map[string]bool{}
		for _, e := range entries {
			if e.Kind == "out" {
				c.tokensReturned[e.Token] = true
				if e.Written {
					c.tokensWritten[e.Token] = true
					if e.IsDir {
						c.tokensDir[e.Token] = true
					}
				}
			}
		}
		// --- C04: every job found the files named in its arguments
		consumers := 0
		if only("C04") {
			files, _ := filepath.Glob(filepath.Join(c.Plan.Ledger, "*.json"))
			for _, f := range files {
				if strings.HasPrefix(filepath.Base(f), "files.") {
					continue
				}
				b, _ := os.ReadFile(f)
				var rec struct {
					Identity      string          `json:"identity"`
					InputProblems []string        `json:"input_problems"`
					End           int64           `json:"end_ns"`
					Args          json.RawMessage `json:"args"`
				}
				if json.Unmarshal(b, &rec) != nil {
					continue
				}
				if len(rec.InputProblems) > 0 {
					fail(t, "C04", "file-missing-at-start", "vdr mode %s: job %s did not find what its arguments name: %v\n%s", mode, rec.Identity, rec.InputProblems, c.describe())
				}
			}
			for _, r := range recs {
				if strings.Contains(string(r.Args), "\"s") || strings.Contains(string(r.Args), "\"f") {
					consumers++
				}
			}
		}
		// the executed jobs and their (normalised) arguments are the model's
		got, err := ledgerMultiset(c.prog, recs, false)
		if err != nil {
			t.Fatalf("INFRA: %v", err)
		}
		if d := compareMultisets(modelMultiset(c.model), got); d != "" {
			fail(t, "C03", "e2-job-multiset-differs", "%s\n%s", d, c.describe())
		}
		// --- C13: the post-processed record and outs/
		nested := 0
		post, err := c.TopOuts()
		if err != nil {
			fail(t, "C13", "outs-record-unreadable", "%v\n%s", err, c.describe())
		}
		if only("C13") || only("C04") {
			top := prog.Pipeline(prog.Top.Callee)
			for _, op := range top.Outs {
				w, _ := model.Outs.Get(op.Name)
				g, _ := post.Get(op.Name)
				c.e2Outs(t, op.Name, op.T, w, g, &nested)
			}
		}
		// --- C14
		removed, mustGo := 0, 0
		if only("C14") && mode != "disable" {
			psDir := c.PsDir()
			filepath.Walk(psDir, func(p string, fi os.FileInfo, err error) error {
				if err != nil || !fi.IsDir() || fi.Name() != "tmp" || !jobDirRe.MatchString(filepath.Base(filepath.Dir(p))) {
					return nil
				}
				if ents, _ := os.ReadDir(p); len(ents) > 0 {
					fail(t, "C14", "tmp-dir-survives", "vdr mode %s: %s still holds %d entries at completion\n%s", mode, p, len(ents), c.describe())
				}
				return filepath.SkipDir
			})
			bound := boundOutputs(prog)
			for _, e := range entries {
				if !e.Written || e.Kind == "tmp" {
					continue
				}
				_, err := os.Lstat(e.Path)
				gone := err != nil
				if gone {
					removed++
				}
				if e.Phase == "chunk" && e.Split {
					mustGo++
					if !gone {
						fail(t, "C14", "chunk-file-survives", "vdr mode %s: %s, written by chunk job %s of a splitting stage, is still there at completion\n%s", mode, e.Path, e.JobName, c.describe())
					}
					continue
				}
				if e.Phase != "main" && e.Phase != "join" {
					continue
				}
				call, stage := resolveCall(prog, e.CallPath)
				if call == nil || stage == nil {
					continue
				}
				sv := ""
				if stage.Res != nil {
					sv = stage.Res.Volatile
				}
				volatile := sv == "strict" || (mode == "strict" && sv == "") || call.Volatile
				kept := e.Param != "" && (bound[e.CallPath+"|"+e.Param] || bound[e.CallPath+"|*"])
				for _, p := range e.AlsoIn {
					kept = kept || bound[e.CallPath+"|"+p]
				}
				if volatile && !kept {
					mustGo++
					if !gone {
						fail(t, "C14", "volatile-file-survives", "vdr mode %s: %s (%s of %s, output %q) is bound by no top-level output and no retain but is still there at completion\n%s", mode, e.Path, e.Kind, e.JobName, e.Param, c.describe())
					}
				}
			}
			filepath.Walk(psDir, func(p string, fi os.FileInfo, err error) error {
				if err == nil && fi.Name() == "_vdrkill" {
					var r killReport
					b, _ := os.ReadFile(p)
					if json.Unmarshal(b, &r) == nil {
						for _, kp := range r.Paths {
							if _, err := os.Lstat(kp); err == nil {
								fail(t, "C14", "reported-path-exists", "vdr mode %s: %s lists %s as removed but it exists\n%s", mode, p, kp, c.describe())
							}
							if !strings.HasPrefix(kp, psDir+"/") {
								fail(t, "C14", "reported-path-outside", "vdr mode %s: %s lists %s\n%s", mode, p, kp, c.describe())
							}
						}
					}
				}
				return nil
			})
			if h := hashTree(sentinel); h != sentinelHash {
				fail(t, "C14", "outside-touched", "the directory next to the pipestance changed\n%s", c.describe())
			}
		}
		digest := stats.Digest(src, mode)
		sample := func() any {
			return map[string]any{"program": stats.Trunc(src, 800), "vdr_mode": mode, "jobs": len(recs), "files": len(entries)}
		}
		cl := []string{"e2-files", "mode:" + mode}
		if only("C04") {
			stats.Case("C04", consumers > 0 && mode != "disable", digest, append(cl, "e2-consumers"), sample)
		}
		if only("C13") {
			stats.Case("C13", nested > 0, digest, cl, sample)
		}
		if only("C14") {
			stats.Case("C14", removed > 0, digest, cl, sample)
		}
	})
}

// TestE2Cluster: a cluster job mode end to end.  The submit command of the
// slurm job mode is replaced by a script that runs the generated job script
// in the background, so the remote job manager, its job scripts (C18), its
// --maxjobs limit (C12) and its journal handling (C11) are exercised with
// real processes.
func TestE2Cluster(t *testing.T) { e2Cluster(t, "C12") }

// TestE2ClusterKeys: the same for C11 - what a job is told (its directories
// and its journal name, all in the job script) is what mrp listens for,
// whatever the keys of the map calls look like.
func TestE2ClusterKeys(t *testing.T) { e2Cluster(t, "C11") }

func e2Cluster(t *testing.T, prop string) {
	root := workRoot(t)
	propOverride = prop
	defer func() { propOverride = "" }()
	rapid.Check(t, func(t *rapid.T) {
		cfg := e2Cfg()
		cfg.KeyedMapBias = prop == "C11"
		prog := mrogen.GenProgram(t, cfg)
		for k := range excluded {
			delete(excluded, k)
		}
		c, done := newE2(t, root, "e2clu", prog, prop, 25)
		if c == nil {
			return
		}
		defer done()
		cl := filepath.Join(c.Dir, "cluster")
		os.MkdirAll(cl, 0o755)
		sbatch := "#!/bin/sh\nf=$(mktemp \"" + cl + "/job.XXXXXX\")\ncat > \"$f\"\n(setsid sh \"$f\" > \"$f.out\" 2>&1 &)\necho $$\n"
		os.WriteFile(filepath.Join(cl, "sbatch"), []byte(sbatch), 0o755)
		tmpl := "#!/usr/bin/env bash\n#SBATCH -J __MRO_JOB_NAME__\n#SBATCH --cpus-per-task=__MRO_THREADS__\n#SBATCH --mem=__MRO_MEM_GB__G\n#SBATCH -o __MRO_STDOUT__\n#SBATCH -e __MRO_STDERR__\n\n__MRO_CMD__\n"
		os.WriteFile(filepath.Join(c.Dir, "slurm.template"), []byte(tmpl), 0o644)
		maxJobs := rapid.IntRange(1, 4).Draw(t, "maxjobs")
		// (the long one: still running when a restarted mrp looks at it)
		c.Plan.SleepMs = rapid.SampledFrom([]int{10, 30, 300, 300}).Draw(t, "jobMs")
		c.Plan.Write(c.Dir)
		os.Setenv("PATH", cl+":"+os.Getenv("PATH"))
		defer os.Setenv("PATH", strings.TrimPrefix(os.Getenv("PATH"), cl+":"))
		// (hook, build tag verif: nothing wakes the run loop when a cluster
		// job ends; its fixed 3 s step would be nearly all of the run time)
		os.Setenv("MRO_VERIF_STEP_MS", rapid.SampledFrom([]string{"40", "150"}).Draw(t, "stepMs"))
		defer os.Unsetenv("MRO_VERIF_STEP_MS")
		clusterArgs := []string{"--jobmode=" + filepath.Join(c.Dir, "slurm.template"), fmt.Sprintf("--maxjobs=%d", maxJobs), "--jobinterval=0"}
		p, err := c.Start(clusterArgs...)
		if err != nil {
			t.Fatalf("INFRA: %v", err)
		}
		restarted := false
		var completedBefore map[string]bool
		var restartAt int64
		if prop == "C12" && rapid.IntRange(0, 2).Draw(t, "killAndRestart") > 0 {
			// mrp is killed while jobs are on the "cluster" (they go on: the
			// submit command detached them) and others wait for a slot; the
			// restarted mrp has to count the ones that are still out there
			after := rapid.IntRange(1, max(1, len(c.model.Jobs))).Draw(t, "afterRecords")
			waitLedger(c, p, after, 20*time.Second)
			if p.Running() {
				p.Signal(9)
				p.Wait(30 * time.Second)
				os.Remove(filepath.Join(c.PsDir(), "_lock"))
				restarted = true
				completedBefore, restartAt = c.Completed(), time.Now().UnixNano()
				c.logf("mrp killed after %d job records; restarted with the same options", len(c.Ledger()))
				if p, err = c.Start(clusterArgs...); err != nil {
					t.Fatalf("INFRA: %v", err)
				}
			}
		}
		rc := waitOrStall(p, c.Plan.Ledger, 25*time.Second, 400*time.Second)
		if rc == -1 && restarted {
			if lost := lostSubmissions(c.PsDir()); len(lost) > 0 {
				// mrp was killed after it had taken a job's
				// _queued_locally marker away and before the submit
				// command had the job: nothing will ever run or report it
				if stats.Known("C05/cluster-job-lost-when-killed-while-submitting") {
					stats.Count(prop, "excluded_known:cluster-job-lost-when-killed-while-submitting", 1)
					return
				}
				fail(t, "C05", "cluster-job-lost-when-killed-while-submitting", "the restarted mrp waits for a job that was never submitted: %v\n%s\n%s", lost, stats.Trunc(p.Log(), 3000), c.describe())
			}
		}
		if rc != 0 {
			fail(t, "C12", "cluster-run-fails", "--maxjobs=%d: mrp exited with %d\n%s\n%s", maxJobs, rc, stats.Trunc(p.Log(), 3000), c.describe())
		}
		c.checkFinal(t, "C01")
		recs := c.Ledger()
		// (C05 in cluster mode: a job whose completion was on disk when mrp
		// was killed is not submitted again by the next mrp)
		for _, r := range recs {
			if restarted && r.Start > restartAt && completedBefore[r.Identity] {
				fail(t, "C05", "completed-job-executed-again", "cluster mode: job %s (attempt %d) ran after the restart although its _complete existed before\n%s", r.Identity, r.Attempt, c.describe())
			}
		}
		got, err := ledgerMultiset(c.prog, recs, restarted)
		if err != nil {
			t.Fatalf("INFRA: %v", err)
		}
		if d := compareMultisets(modelMultiset(c.model), got); d != "" {
			fail(t, "C03", "e2-job-multiset-differs", "cluster mode: %s\n%s", d, c.describe())
		}
		// jobs that went through the submit command never exceed --maxjobs
		submitted, _ := filepath.Glob(filepath.Join(cl, "job.*.out"))
		type ev struct {
			t int64
			d int
		}
		var evs []ev
		for _, r := range recs {
			evs = append(evs, ev{r.Start, 1}, ev{r.End, -1})
		}
		sort.Slice(evs, func(i, j int) bool {
			if evs[i].t != evs[j].t {
				return evs[i].t < evs[j].t
			}
			return evs[i].d < evs[j].d
		})
		run, maxRun := 0, 0
		for _, e := range evs {
			run += e.d
			if run > maxRun {
				maxRun = run
			}
		}
		// (local preflight stages do not go through the submit command)
		if len(submitted) == len(recs) && maxRun > maxJobs {
			var tl []string
			for _, r := range recs {
				tl = append(tl, fmt.Sprintf("%s [%d .. %d]", r.Identity, (r.Start-recs[0].Start)/1e6, (r.End-recs[0].Start)/1e6))
			}
			logs := ""
			for i := 1; i <= c.Runs; i++ {
				b, _ := os.ReadFile(filepath.Join(c.Dir, fmt.Sprintf("mrp.%d.log", i)))
				logs += fmt.Sprintf("--- mrp run %d\n%s\n", i, stats.Trunc(string(b), 2500))
			}
			key := "maxjobs-exceeded"
			if restarted {
				key = "maxjobs-exceeded-after-restart"
			}
			fail(t, "C12", key, "--maxjobs=%d but %d stage processes ran at the same time (ms since the first start):\n  %s\n%s%s", maxJobs, maxRun, strings.Join(tl, "\n  "), logs, c.describe())
		}
		cls := []string{"e2-cluster", fmt.Sprintf("maxjobs:%d", maxJobs)}
		if restarted {
			cls = append(cls, "cluster-restart")
		}
		if maxRun > 1 {
			cls = append(cls, "jobs-overlapped")
		}
		nontrivial := maxRun > 1
		if prop == "C11" {
			// forks named after keys that are not plain words
			nontrivial = false
			for _, r := range recs {
				if i := strings.Index(r.Identity, "//fork_"); i >= 0 {
					key := r.Identity[i+7 : strings.LastIndexByte(r.Identity, ':')]
					if strings.Contains(key, "__MRO_") {
						cls = append(cls, "cluster-key-is-template-parameter")
					}
					if strings.IndexFunc(key, func(c rune) bool { return !(c >= 'a' && c <= 'z' || c >= '0' && c <= '9') }) >= 0 {
						nontrivial = true
					}
				}
			}
			if nontrivial {
				cls = append(cls, "cluster-odd-key")
			}
			sort.Strings(cls)
			cls = slices.Compact(cls)
		}
		stats.Case(prop, nontrivial, stats.Digest(c.src, maxJobs), cls, func() any {
			return map[string]any{"program": stats.Trunc(c.src, 600), "maxjobs": maxJobs, "max_running": maxRun, "submitted": len(submitted)}
		})
	})
}

// waitOrStall is Proc.Wait that gives up early (-1, process group killed) when
// no stage process has started or ended for the quiet period.
func waitOrStall(p *mrprun.Proc, ledger string, quiet, total time.Duration) int {
	deadline := time.Now().Add(total)
	last, lastChange := -1, time.Now()
	for p.Running() && time.Now().Before(deadline) {
		// (every start and every end of a stage process renames a file
		// into the ledger directory; mrp's log does not do as a sign of
		// life: a fork whose state flips back and forth fills it for ever)
		if fi, err := os.Stat(ledger); err == nil && int(fi.ModTime().UnixNano()) != last {
			last, lastChange = int(fi.ModTime().UnixNano()), time.Now()
		}
		if time.Since(lastChange) > quiet {
			break
		}
		time.Sleep(20 * time.Millisecond)
	}
	if !p.Running() {
		return p.Wait(time.Minute)
	}
	return p.Wait(0)
}

// lostSubmissions: job directories in the state "reserved but never
// submitted" - _jobinfo is there (written when the job was queued inside
// mrp), the _queued_locally marker is gone (taken away just before the submit
// command runs), and neither a job id nor anything from the job itself.
func lostSubmissions(ps string) []string {
	var lost []string
	filepath.WalkDir(ps, func(path string, d os.DirEntry, err error) error {
		if err != nil || d.IsDir() || d.Name() != "_jobinfo" {
			return nil
		}
		dir := filepath.Dir(path)
		for _, f := range []string{"_queued_locally", "_jobid", "_log", "_complete", "_errors", "_assert"} {
			if _, err := os.Stat(filepath.Join(dir, f)); err == nil {
				return nil
			}
		}
		lost = append(lost, strings.TrimPrefix(dir, ps+"/"))
		return nil
	})
	return lost
}

// TestE2CrashPoints: C05 with the crash placed by system call count - mrp
// runs under strace, which delivers SIGKILL when one of its threads makes its
// n-th file-system or write call (between creating a directory and writing
// into it, between a job's _complete and the journal scan, in the middle of
// writing _finalstate, ...), 1-3 times in a row with generated n; then mrp is
// restarted without the tracer.  Same oracle as TestE2Interrupt.
func TestE2CrashPoints(t *testing.T) {
	if _, err := exec.LookPath("strace"); err != nil {
		t.Skip("strace not available")
	}
	root := workRoot(t)
	propOverride = "C05"
	defer func() { propOverride = "" }()
	rapid.Check(t, func(t *rapid.T) {
		prog := mrogen.GenProgram(t, e2Cfg())
		for k := range excluded {
			delete(excluded, k)
		}
		c, done := newE2(t, root, "e2cp", prog, "C05", 25)
		if c == nil {
			return
		}
		defer done()
		c.Plan.SleepMs = rapid.SampledFrom([]int{0, 5, 20}).Draw(t, "jobMs")
		c.Plan.Write(c.Dir)
		nCrash := rapid.IntRange(1, 3).Draw(t, "crashes")
		var classes []string
		inside := false
		completedBefore := map[string]bool{}
		var restartAt int64
		for i := 0; i < nCrash; i++ {
			// (mrp makes a few hundred such calls before the pipestance
			// directory exists; a restart of an existing one fewer)
			lo := 300
			if i > 0 {
				lo = 220
			}
			n := rapid.IntRange(lo, 1300).Draw(t, "crashOrdinal")
			c.Wrap = mrprun.StraceKill(n)
			p, err := c.Start("--localcores=4", "--localmem=8")
			if err != nil {
				t.Fatalf("INFRA: %v", err)
			}
			rc := p.Wait(200 * time.Second)
			if rc == -1 {
				fail(t, "C05", "mrp-does-not-exit", "mrp under the tracer was still running after 200 s\n%s\n%s", stats.Trunc(p.Log(), 2000), c.describe())
			}
			if !p.WaitGroupGone(20 * time.Second) {
				p.KillGroup()
				p.WaitGroupGone(5 * time.Second)
			}
			comp := c.Completed()
			_, psErr := os.Stat(c.PsDir())
			switch {
			case rc == 0:
				classes = append(classes, "crash:not-reached")
			case psErr != nil:
				classes = append(classes, "crash:before-pipestance-exists")
			case len(comp) == 0:
				classes = append(classes, "crash:before-first-completion")
			case len(comp) >= len(c.model.Jobs):
				classes = append(classes, "crash:after-last-completion")
			default:
				classes = append(classes, "crash:inside-run")
				inside = true
			}
			c.logf("run %d: killed at system call %d of a thread: exit %d, %d of %d jobs complete", c.Runs, n, rc, len(comp), len(c.model.Jobs))
			if rc == 0 {
				break
			}
			if _, tsErr := os.Stat(filepath.Join(c.PsDir(), "_timestamp")); tsErr != nil && psErr == nil {
				// mrp died while it was creating the pipestance directory
				// (the last file it writes there is _timestamp)
				if stats.Known("C05/killed-while-creating-the-pipestance") {
					// known finding: such a directory can neither be
					// re-attached to nor invoked into; the operator removes it
					os.RemoveAll(c.PsDir())
					stats.Count("C05", "excluded_known:killed-while-creating-the-pipestance", 1)
					classes[len(classes)-1] = "crash:while-creating-the-pipestance"
				}
			}
			os.Remove(filepath.Join(c.PsDir(), "_lock"))
			for id := range comp {
				completedBefore[id] = true
			}
			restartAt = time.Now().UnixNano()
		}
		p, err := c.Start("--localcores=4", "--localmem=8")
		if err != nil {
			t.Fatalf("INFRA: %v", err)
		}
		if rc := p.Wait(300 * time.Second); rc != 0 {
			fail(t, "C05", "restart-does-not-complete", "the restarted mrp exited with %d\n%s\n%s", rc, stats.Trunc(p.Log(), 3000), c.describe())
		}
		c.checkFinal(t, "C05")
		if c.Locked() {
			fail(t, "C05", "lock-left-after-success", "%s", c.describe())
		}
		for _, r := range c.Ledger() {
			if restartAt > 0 && r.Start > restartAt && completedBefore[r.Identity] {
				fail(t, "C05", "completed-job-executed-again", "job %s (attempt %d) ran after the last restart although its _complete existed before\n%s", r.Identity, r.Attempt, c.describe())
			}
		}
		got, err := ledgerMultiset(c.prog, c.Ledger(), true)
		if err != nil {
			t.Fatalf("INFRA: %v", err)
		}
		if d := compareMultisets(modelMultiset(c.model), got); d != "" {
			fail(t, "C05", "job-multiset-differs", "%s\n%s", d, c.describe())
		}
		sort.Strings(classes)
		stats.Case("C05", inside, stats.Digest(c.src, strings.Join(c.hist, "|")), append(classes, "e2-crash-point"), func() any {
			return map[string]any{"program": stats.Trunc(c.src, 800), "history": c.hist}
		})
	})
}

// Reproducer of C05/killed-while-creating-the-pipestance: the state a kill
// between the first and the last top-level metadata file leaves behind.
func TestKnownKilledWhileCreating(t *testing.T) {
	root := workRoot(t)
	dir := filepath.Join(root, fmt.Sprintf("e2known%d", os.Getpid()))
	defer os.RemoveAll(dir)
	p := &mrogen.Program{U: &mrogen.Universe{Structs: []*mrogen.Struct{{Name: "S0", Fields: []mrogen.Field{{Name: "f", T: tInt}}}}}}
	p.Stages = []*mrogen.Stage{st("A", []mrogen.Param{pm("p", tInt)}, []mrogen.Param{pm("o", tInt)})}
	top := &mrogen.Pipeline{Name: "TOP", Ins: []mrogen.Param{pm("n", tInt)}, Outs: []mrogen.Param{pm("r", tInt)},
		Calls: []*mrogen.Call{{Id: "A", Callee: "A", Bindings: []mrogen.Binding{{Param: "p", E: self("n")}}}},
		Ret:   []mrogen.Binding{{Param: "r", E: out("A", "o")}}}
	p.Pipelines = []*mrogen.Pipeline{top}
	p.Top = &mrogen.Call{Id: "TOP", Callee: "TOP", Bindings: []mrogen.Binding{{Param: "n", E: lit(num(1), tInt)}}}
	m := os.Getenv("VERIF_MROOT")
	if m == "" {
		t.Skip("no VERIF_MROOT")
	}
	c, err := mrprun.New(p, p.Source(nil), dir, m, &plan.Plan{Faults: map[string]plan.Fault{}})
	if err != nil {
		t.Fatalf("INFRA: %v", err)
	}
	// what InvokePipeline has written when it is killed after _invocation
	os.MkdirAll(filepath.Join(c.PsDir(), "TOP", "fork0"), 0o755)
	os.MkdirAll(filepath.Join(c.PsDir(), "journal"), 0o755)
	os.WriteFile(filepath.Join(c.PsDir(), "_invocation"), []byte(p.Source(nil)), 0o644)
	pr, err := c.Start("--localcores=2", "--localmem=2")
	if err != nil {
		t.Fatalf("INFRA: %v", err)
	}
	if rc := pr.Wait(120 * time.Second); rc != 0 {
		fmt.Printf("KNOWN-PRESENT C05/killed-while-creating-the-pipestance: mrp exits with %d on a directory it was killed in while creating it: %s\n", rc, stats.Trunc(pr.Log(), 300))
	}
}

// Reproducer of C05/cluster-job-lost-when-killed-while-submitting: mrp in
// cluster mode dies (SIGKILL) inside RemoteJobManager.sendJob after it has
// removed the job's _queued_locally marker and before the submit command has
// the job.  The submit command of this test stands for that instant: on its
// first invocation it kills mrp and submits nothing - on disk exactly what a
// kill just before the exec leaves.  The restarted mrp takes the job for one
// that is out on the cluster and waits for it for ever.
func TestKnownClusterJobLost(t *testing.T) {
	root := workRoot(t)
	dir := filepath.Join(root, fmt.Sprintf("e2knownlost%d", os.Getpid()))
	defer os.RemoveAll(dir)
	p := &mrogen.Program{U: &mrogen.Universe{Structs: []*mrogen.Struct{{Name: "S0", Fields: []mrogen.Field{{Name: "f", T: tInt}}}}}}
	p.Stages = []*mrogen.Stage{st("A", []mrogen.Param{pm("p", tInt)}, []mrogen.Param{pm("o", tInt)})}
	top := &mrogen.Pipeline{Name: "TOP", Ins: []mrogen.Param{pm("n", tInt)}, Outs: []mrogen.Param{pm("r", tInt)},
		Calls: []*mrogen.Call{{Id: "A", Callee: "A", Bindings: []mrogen.Binding{{Param: "p", E: self("n")}}}},
		Ret:   []mrogen.Binding{{Param: "r", E: out("A", "o")}}}
	p.Pipelines = []*mrogen.Pipeline{top}
	p.Top = &mrogen.Call{Id: "TOP", Callee: "TOP", Bindings: []mrogen.Binding{{Param: "n", E: lit(num(1), tInt)}}}
	m := os.Getenv("VERIF_MROOT")
	if m == "" {
		t.Skip("no VERIF_MROOT")
	}
	c, err := mrprun.New(p, p.Source(nil), dir, m, &plan.Plan{Faults: map[string]plan.Fault{}})
	if err != nil {
		t.Fatalf("INFRA: %v", err)
	}
	c.Plan.Write(c.Dir)
	cl := filepath.Join(c.Dir, "cluster")
	os.MkdirAll(cl, 0o755)
	sbatch := "#!/bin/sh\nif [ ! -e \"" + cl + "/first\" ]; then : > \"" + cl + "/first\"; kill -9 $PPID; exit 1; fi\n" +
		"f=$(mktemp \"" + cl + "/job.XXXXXX\")\ncat > \"$f\"\n(setsid sh \"$f\" > \"$f.out\" 2>&1 &)\necho $$\n"
	os.WriteFile(filepath.Join(cl, "sbatch"), []byte(sbatch), 0o755)
	tmpl := "#!/usr/bin/env bash\n#SBATCH -J __MRO_JOB_NAME__\n#SBATCH -o __MRO_STDOUT__\n#SBATCH -e __MRO_STDERR__\n\n__MRO_CMD__\n"
	os.WriteFile(filepath.Join(c.Dir, "slurm.template"), []byte(tmpl), 0o644)
	os.Setenv("PATH", cl+":"+os.Getenv("PATH"))
	defer os.Setenv("PATH", strings.TrimPrefix(os.Getenv("PATH"), cl+":"))
	args := []string{"--jobmode=" + filepath.Join(c.Dir, "slurm.template"), "--maxjobs=2", "--jobinterval=0"}
	os.Setenv("MRO_VERIF_STEP_MS", "100")
	defer os.Unsetenv("MRO_VERIF_STEP_MS")
	pr, err := c.Start(args...)
	if err != nil {
		t.Fatalf("INFRA: %v", err)
	}
	if rc := pr.Wait(60 * time.Second); rc != -2 {
		t.Fatalf("INFRA: the first mrp was to be killed by the submit command, exit %d\n%s", rc, pr.Log())
	}
	os.Remove(filepath.Join(c.PsDir(), "_lock"))
	if pr, err = c.Start(args...); err != nil {
		t.Fatalf("INFRA: %v", err)
	}
	rc := waitOrStall(pr, c.Plan.Ledger, 15*time.Second, 120*time.Second)
	if lost := lostSubmissions(c.PsDir()); rc == -1 && len(lost) > 0 {
		fmt.Printf("KNOWN-PRESENT C05/cluster-job-lost-when-killed-while-submitting: the restarted mrp waits for %v, which was never submitted: %s\n", lost, stats.Trunc(pr.Log(), 300))
	}
}
