//go:build verif

package run

import (
	"fmt"
	"os"
	"path/filepath"
	"regexp"
	"strings"
	"testing"

	"pgregory.net/rapid"

	"verifharness/mrogen"
	"verifharness/refsem"
	"verifharness/simrun"
	"verifharness/stats"
)

// The nested-map family: a map call inside a pipeline that is itself map
// called - two fork dimensions, both collections only known when a stage has
// run.  The general program generator stays away from mapped pipelines (the
// envelope of known finding C01/map-calls-beyond-simple-envelope); this
// family is small enough to be kept clear of the listed defects by
// construction, and is where fork bookkeeping has the most to get wrong:
// ragged inner sizes (0, 1, 2, more; the longer list first or last), inner
// collections passed in or produced by a stage of the mapped pipeline,
// arrays and typed maps on either level, consumers of the merged results on
// both levels, names of producer and mapped call in either sort order.
//
//	stage  MAKE(in int n, out T[][] lists)               (T[][], map<T[]>, map<T>[])
//	stage  LEAF(in T x, out T y)
//	stage  SPREAD(in C xs, out C zs)                     (optional, inside PER)
//	stage  SUM(in C ys, out int s)                       (optional, inside PER)
//	stage  TOTAL(in CC all, out int s)                   (optional, in TOP)
//	pipeline PER(in C xs, out C ys [, out int s]) { [SPREAD]; map call LEAF(x = split ...); [SUM] }
//	pipeline TOP(in int n, ...)            { MAKE; map call PER(xs = split MAKE.lists); [TOTAL] }
func genNested(t *rapid.T) *mrogen.Program { return genNestedWith(t, os.Getenv("VERIF_NESTED_PLAIN") != "") }

// genNestedWith: plain = only the two map calls and what they need (arrays of
// arrays, the inner collection passed in, no consumers of merged results, no
// second argument, no splitting leaf).
func genNestedWith(t *rapid.T, plain bool) *mrogen.Program {
	// (VERIF_NESTED_OPTS: exploration - options allowed on top of plain)
	allowed := os.Getenv("VERIF_NESTED_OPTS")
	draw := func(label string) bool {
		return (!plain || strings.Contains(allowed, label)) && rapid.Bool().Draw(t, label)
	}
	base := rapid.SampledFrom([]string{"int", "string", "float"}).Draw(t, "elemType")
	T := ty{Base: base}
	// inner collection C and outer collection CC of C
	shapes := []string{"arr-of-arr", "arr-of-arr", "map-of-arr", "arr-of-map"}
	if only := os.Getenv("VERIF_NESTED_SHAPE"); only != "" {
		shapes = []string{only}
	}
	if plain && !strings.Contains(allowed, "shapes") {
		shapes = []string{"arr-of-arr"}
	}
	shape := rapid.SampledFrom(shapes).Draw(t, "shape")
	var C, CC, merged, mergedAll ty
	switch shape {
	case "arr-of-arr":
		C, CC = ty{Base: base, Arr: 1}, ty{Base: base, Arr: 2}
	case "map-of-arr":
		C, CC = ty{Base: base, Arr: 1}, ty{Base: base, Map: 2}
	default: // an array of typed maps
		C, CC = ty{Base: base, Map: 1}, ty{Base: base, Map: 1, Arr: 1}
	}
	merged, mergedAll = C, CC
	// names: the mapped call and the producer of its collection in either
	// order of the alphabet, the pipeline likewise
	leaf := rapid.SampledFrom([]string{"EACH", "WORK", "A_LEAF", "Z_LEAF"}).Draw(t, "leafName")
	spread := rapid.SampledFrom([]string{"SPREAD", "DIVIDE", "B_SPREAD", "Y_SPREAD"}).Draw(t, "spreadName")
	per := rapid.SampledFrom([]string{"PER", "A_PER", "Z_PER"}).Draw(t, "perName")
	makeName := rapid.SampledFrom([]string{"MAKE", "A_MAKE", "ZZ_MAKE"}).Draw(t, "makeName")

	p := &mrogen.Program{U: &mrogen.Universe{Structs: []*mrogen.Struct{{Name: "S0", Fields: []mrogen.Field{{Name: "f", T: tInt}}}}}}
	// (known finding C03/stage-of-mapped-pipeline-runs-for-empty-collection:
	// the outer collection is never empty while that is listed)
	listsOut := mrogen.Param{Name: "lists", T: CC}
	if stats.Known("C03/stage-of-mapped-pipeline-runs-for-empty-collection") {
		listsOut.NonEmpty = true
		excluded["mapped-pipeline-over-empty"]++
	}
	mk := st(makeName, []mrogen.Param{pm("n", tInt)}, []mrogen.Param{listsOut})
	lf := st(leaf, []mrogen.Param{pm("x", T)}, []mrogen.Param{pm("y", T)})
	withExtra := draw("leafTakesWholeList")
	if withExtra {
		// the leaf also sees the whole inner collection, unsplit
		lf.Ins = append(lf.Ins, pm("all", C))
	}
	if (!plain || strings.Contains(allowed, "leafSplits")) && rapid.IntRange(0, 3).Draw(t, "leafSplits") == 0 {
		lf.Split = true
		lf.ChunkIns = []mrogen.Param{{Name: "chunk_in", T: tInt}}
		lf.ChunkOuts = []mrogen.Param{{Name: "chunk_out", T: tInt}}
	}
	p.Stages = []*mrogen.Stage{mk, lf}

	perPl := &mrogen.Pipeline{Name: per, Ins: []mrogen.Param{{Name: "xs", T: C, SplitSrc: true}}, Outs: []mrogen.Param{pm("ys", merged)}}
	var src mrogen.Expr = self("xs")
	innerProduced := draw("innerProducedInside")
	if innerProduced {
		sp := st(spread, []mrogen.Param{pm("xs", C)}, []mrogen.Param{pm("zs", C)})
		p.Stages = append(p.Stages, sp)
		perPl.Calls = append(perPl.Calls, &mrogen.Call{Id: spread, Callee: spread, Bindings: []mrogen.Binding{{Param: "xs", E: self("xs")}}})
		src = out(spread, "zs")
	}
	lc := &mrogen.Call{Id: leaf, Callee: leaf, Mapped: true, Bindings: []mrogen.Binding{{Param: "x", E: mrogen.Split{E: src}}}}
	if withExtra {
		lc.Bindings = append(lc.Bindings, mrogen.Binding{Param: "all", E: src})
	}
	perPl.Calls = append(perPl.Calls, lc)
	perPl.Ret = []mrogen.Binding{{Param: "ys", E: out(leaf, "y")}}
	if draw("sumInside") {
		sm := st("SUM", []mrogen.Param{pm("ys", merged)}, []mrogen.Param{pm("s", tInt)})
		p.Stages = append(p.Stages, sm)
		perPl.Calls = append(perPl.Calls, &mrogen.Call{Id: "SUM", Callee: "SUM", Bindings: []mrogen.Binding{{Param: "ys", E: out(leaf, "y")}}})
		perPl.Outs = append(perPl.Outs, pm("s", tInt))
		perPl.Ret = append(perPl.Ret, mrogen.Binding{Param: "s", E: out("SUM", "s")})
	}

	top := &mrogen.Pipeline{Name: "TOP", Ins: []mrogen.Param{pm("n", tInt)}, Outs: []mrogen.Param{pm("r", mergedAll)}}
	top.Calls = []*mrogen.Call{
		{Id: makeName, Callee: makeName, Bindings: []mrogen.Binding{{Param: "n", E: self("n")}}},
		{Id: per, Callee: per, Mapped: true, Bindings: []mrogen.Binding{{Param: "xs", E: mrogen.Split{E: out(makeName, "lists")}}}},
	}
	top.Ret = []mrogen.Binding{{Param: "r", E: out(per, "ys")}}
	if draw("totalOutside") {
		tt := st("TOTAL", []mrogen.Param{pm("all", mergedAll)}, []mrogen.Param{pm("s", tInt)})
		p.Stages = append(p.Stages, tt)
		top.Calls = append(top.Calls, &mrogen.Call{Id: "TOTAL", Callee: "TOTAL", Bindings: []mrogen.Binding{{Param: "all", E: out(per, "ys")}}})
		top.Outs = append(top.Outs, pm("s", tInt))
		top.Ret = append(top.Ret, mrogen.Binding{Param: "s", E: out("TOTAL", "s")})
	}
	p.Pipelines = []*mrogen.Pipeline{perPl, top}
	// the argument decides (through the stage function) every size below
	n := rapid.IntRange(0, 9999).Draw(t, "n")
	p.Top = &mrogen.Call{Id: "TOP", Callee: "TOP", Bindings: []mrogen.Binding{{Param: "n", E: lit(num(n), tInt)}}}
	return p
}

// TestNestedMaps: C01 / C02 / C03 (whichever VERIF_STATS_PROP names) on the
// nested-map family, under generated schedules.
func TestNestedMaps(t *testing.T) {
	root := workRoot(t)
	rapid.Check(t, func(t *rapid.T) {
		defer func() {
			if p := recover(); p != nil {
				if _, ok := p.(surveySkip); !ok {
					panic(p)
				}
			}
		}()
		prog := genNested(t)
		skipTopOuts = os.Getenv("VERIF_NESTED_SKIP_TOP") != ""
		defer func() { skipTopOuts = false }()
		for k, v := range excluded {
			for _, prop := range []string{"C01", "C02", "C03"} {
				stats.Count(prop, "excluded_known:"+k, int64(v))
			}
			delete(excluded, k)
		}
		if dir := os.Getenv("VERIF_SURVEY"); dir != "" {
			// exploration: which inner sizes go with which outcome
			leafName := prog.Pipelines[0].Calls[len(prog.Pipelines[0].Calls)-1].Callee
			for _, c := range prog.Pipelines[0].Calls {
				if c.Mapped {
					leafName = c.Id
				}
			}
			surveyTagFn = func(m any) string {
				model := m.(*refsem.Result)
				per := map[string]int{}
				var order []string
				for _, j := range model.Jobs {
					if strings.HasSuffix(j.CallPath, "."+leafName) && (j.Phase == "main" || j.Phase == "split") {
						outer := j.Fork
						if i := strings.IndexAny(outer[1:], "[{"); i >= 0 {
							outer = outer[:i+1]
						}
						if _, ok := per[outer]; !ok {
							order = append(order, outer)
						}
						per[outer]++
					}
				}
				tag := fmt.Sprintf("%s produced=%v leafjobs=", prog.Pipelines[1].Outs[0].T, len(prog.Pipelines[0].Calls) > 1 && !prog.Pipelines[0].Calls[0].Mapped)
				for _, o := range order {
					tag += fmt.Sprintf("%s:%d ", o, per[o])
				}
				return strings.NewReplacer("\t", " ", "\n", " ").Replace(tag)
			}
			defer func() { surveyLog(dir, "PASS") }()
		}
		semCase(t, root, prog)
	})
}

// nestedJobLevel is the part of the family on which the unchanged tree gets
// every job right - which jobs run, once each, with which arguments, in
// which order: arrays of arrays, the inner collection passed in or produced
// by a stage of the mapped pipeline, a leaf that may split or take the whole
// inner collection as well - while the merged results it hands on are wrong
// for ragged sizes (known finding C01/nested-map-merge-repeats-forks), so
// that nothing consumes them here and the recorded top-level outputs are not
// compared while the finding is listed.
func genNestedJobLevel(t *rapid.T) *mrogen.Program {
	save := os.Getenv("VERIF_NESTED_OPTS")
	os.Setenv("VERIF_NESTED_OPTS", "leafTakesWholeList leafSplits innerProducedInside")
	defer os.Setenv("VERIF_NESTED_OPTS", save)
	return genNestedWith(t, true)
}

// TestNestedMapsJobs: C01 (arguments) / C02 (start order) / C03 (every job
// once) for map calls inside map-called pipelines, ragged sizes included.
func TestNestedMapsJobs(t *testing.T) {
	root := workRoot(t)
	// (run once for each of C01, C02, C03: whatever goes wrong in these
	// families - a job too many shows first as unexpected arguments - is
	// reported by the check that is running)
	if p := os.Getenv("VERIF_STATS_PROP"); p != "" {
		propOverride = p
		defer func() { propOverride = "" }()
	}
	rapid.Check(t, func(t *rapid.T) {
		defer func() {
			if p := recover(); p != nil {
				if _, ok := p.(surveySkip); !ok {
					panic(p)
				}
			}
		}()
		prog := genNestedJobLevel(t)
		if stats.Known("C01/nested-map-merge-repeats-forks") {
			skipTopOuts = true
			defer func() { skipTopOuts = false }()
			excluded["nested-merged-output-not-compared"]++
		}
		for k, v := range excluded {
			for _, prop := range []string{"C01", "C02", "C03"} {
				stats.Count(prop, "excluded_known:"+k, int64(v))
			}
			delete(excluded, k)
		}
		semCase(t, root, prog)
	})
}

// Reproducer of C01/nested-map-merge-repeats-forks: the plainest program of
// the family; MAKE's argument decides the sizes, some of the twelve tries are
// ragged.
func TestKnownNestedMergeRepeatsForks(t *testing.T) {
	knownPresent(t, "C01/nested-map-merge-repeats-forks", func(a int) *mrogen.Program {
		p := &mrogen.Program{U: &mrogen.Universe{Structs: []*mrogen.Struct{{Name: "S0", Fields: []mrogen.Field{{Name: "f", T: tInt}}}}}}
		tArrArr := ty{Base: "int", Arr: 2}
		p.Stages = []*mrogen.Stage{
			st("MAKE", []mrogen.Param{pm("n", tInt)}, []mrogen.Param{{Name: "lists", T: tArrArr, NonEmpty: true}}),
			st("LEAF", []mrogen.Param{pm("x", tInt)}, []mrogen.Param{pm("y", tInt)}),
		}
		per := &mrogen.Pipeline{Name: "PER", Ins: []mrogen.Param{{Name: "xs", T: tIntArr, SplitSrc: true}}, Outs: []mrogen.Param{pm("ys", tIntArr)},
			Calls: []*mrogen.Call{{Id: "LEAF", Callee: "LEAF", Mapped: true, Bindings: []mrogen.Binding{{Param: "x", E: mrogen.Split{E: self("xs")}}}}},
			Ret:   []mrogen.Binding{{Param: "ys", E: out("LEAF", "y")}}}
		top := &mrogen.Pipeline{Name: "TOP", Ins: []mrogen.Param{pm("n", tInt)}, Outs: []mrogen.Param{pm("r", tArrArr)},
			Calls: []*mrogen.Call{
				{Id: "MAKE", Callee: "MAKE", Bindings: []mrogen.Binding{{Param: "n", E: self("n")}}},
				{Id: "PER", Callee: "PER", Mapped: true, Bindings: []mrogen.Binding{{Param: "xs", E: mrogen.Split{E: out("MAKE", "lists")}}}}},
			Ret: []mrogen.Binding{{Param: "r", E: out("PER", "ys")}}}
		p.Pipelines = []*mrogen.Pipeline{per, top}
		p.Top = &mrogen.Call{Id: "TOP", Callee: "TOP", Bindings: []mrogen.Binding{{Param: "n", E: lit(num(a), tInt)}}}
		return p
	})
}

// TestNestedMapsInterrupt: the same family interrupted and re-attached while
// jobs are in flight (forks of both dimensions are restored from the outputs
// on disk).
func TestNestedMapsInterrupt(t *testing.T) {
	interruptTestWith(t, "C05", []string{"queued", "dead-running", "dead-after-outs", "finished-unnoticed", "alive", "alive-after-outs"}, genNested)
}

// TestNestedMapsJobsInterrupt: the job-level part of the family (see
// TestNestedMapsJobs) interrupted and re-attached while jobs are in flight:
// the forks of both dimensions are restored from the outputs on disk, and
// every job still runs exactly once, with its arguments, after its producers.
func TestNestedMapsJobsInterrupt(t *testing.T) {
	if stats.Known("C01/nested-map-merge-repeats-forks") {
		skipTopOuts = true
		defer func() { skipTopOuts = false }()
	}
	interruptTestWith(t, "C05", []string{"queued", "dead-running", "dead-after-outs", "finished-unnoticed", "alive", "alive-after-outs"}, genNestedJobLevel)
}

// TestC07AcceptNested: every program of the nested-map family compiles, so
// its call graph must resolve when it is invoked (C07: what the checker
// accepts can be bound at run time).  Only the invocation is judged here.
func TestC07AcceptNested(t *testing.T) {
	root := workRoot(t)
	rapid.Check(t, func(t *rapid.T) {
		prog := genNested(t)
		for k := range excluded {
			delete(excluded, k)
		}
		caseSeq++
		dir := filepath.Join(root, fmt.Sprintf("c07n%d-%d", os.Getpid(), caseSeq))
		defer os.RemoveAll(dir)
		src := prog.Source(runLayout(t))
		sim, err := simrun.New(prog, src, dir, simrun.Options{})
		if err != nil {
			msg := err.Error()
			key := regexp.MustCompile(`[A-Za-z]+Error|unexpected [a-z ]+|cannot [a-z ]+`).FindString(msg)
			fail(t, "C07", "invoke-error:"+strings.ReplaceAll(key, " ", "-"), "the compiler accepts the program but its bindings cannot be resolved when it is invoked: %v\n%s", err, src)
		}
		sim.Close()
		elem := prog.Stages[1].Ins[0].T.Base
		stats.Case("C07", elem == "string", stats.Digest("nested", src), []string{"accept-nested", "nested-elem:" + elem}, func() any {
			return map[string]any{"kind": "accept-nested", "program": stats.Trunc(src, 700)}
		})
	})
}

// genFlagged: a pipeline map-called over an array literal of run-time
// collections, with its disabling flag given per element - literal false /
// true and references to stage outputs mixed in one literal:
//
//	map call PER(xs = split [MAKE.a, MAKE.b, MAKE.a], off = split [false, MAKE.f1, true])
//
// inside PER a map call of LEAF over self.xs is disabled by self.off, a call
// of ALWAYS is not.
func genFlagged(t *rapid.T) *mrogen.Program {
	p := &mrogen.Program{U: &mrogen.Universe{Structs: []*mrogen.Struct{{Name: "S0", Fields: []mrogen.Field{{Name: "f", T: tInt}}}}}}
	mk := st("MAKE", []mrogen.Param{pm("n", tInt)}, []mrogen.Param{pm("a", tIntArr), pm("b", tIntArr), pm("f1", tBool), pm("f2", tBool)})
	lf := st("LEAF", []mrogen.Param{pm("x", tInt)}, []mrogen.Param{pm("y", tInt)})
	al := st("ALWAYS", []mrogen.Param{pm("xs", tIntArr)}, []mrogen.Param{pm("s", tInt)})
	p.Stages = []*mrogen.Stage{mk, lf, al}
	off := mrogen.Ref{Out: "off"}
	leafMapped := rapid.Bool().Draw(t, "leafMapped")
	perPl := &mrogen.Pipeline{Name: "PER", Ins: []mrogen.Param{{Name: "xs", T: tIntArr, SplitSrc: true}, {Name: "off", T: tBool, Flag: true}},
		Outs: []mrogen.Param{pm("s", tInt)}}
	if leafMapped {
		perPl.Calls = append(perPl.Calls, &mrogen.Call{Id: "LEAF", Callee: "LEAF", Mapped: true, Disabled: &off,
			Bindings: []mrogen.Binding{{Param: "x", E: mrogen.Split{E: self("xs")}}}})
	} else {
		// a plain call: the disabled stage takes the whole list
		lf.Ins = []mrogen.Param{pm("x", tIntArr)}
		perPl.Calls = append(perPl.Calls, &mrogen.Call{Id: "LEAF", Callee: "LEAF", Disabled: &off,
			Bindings: []mrogen.Binding{{Param: "x", E: self("xs")}}})
	}
	perPl.Calls = append(perPl.Calls, &mrogen.Call{Id: "ALWAYS", Callee: "ALWAYS", Bindings: []mrogen.Binding{{Param: "xs", E: self("xs")}}})
	perPl.Ret = []mrogen.Binding{{Param: "s", E: out("ALWAYS", "s")}}
	n := rapid.IntRange(2, 4).Draw(t, "outerLen")
	var xs, flags mrogen.ArrayLit
	for i := 0; i < n; i++ {
		xs.Elems = append(xs.Elems, out("MAKE", rapid.SampledFrom([]string{"a", "b"}).Draw(t, "list")))
		switch rapid.IntRange(0, 4).Draw(t, "flagKind") {
		case 0:
			flags.Elems = append(flags.Elems, lit(true, tBool))
		case 1, 2:
			flags.Elems = append(flags.Elems, lit(false, tBool))
		default:
			flags.Elems = append(flags.Elems, out("MAKE", rapid.SampledFrom([]string{"f1", "f2"}).Draw(t, "flagRef")))
		}
	}
	top := &mrogen.Pipeline{Name: "TOP", Ins: []mrogen.Param{pm("n", tInt)}, Outs: []mrogen.Param{pm("r", tIntArr)},
		Calls: []*mrogen.Call{
			{Id: "MAKE", Callee: "MAKE", Bindings: []mrogen.Binding{{Param: "n", E: self("n")}}},
			{Id: "PER", Callee: "PER", Mapped: true, Bindings: []mrogen.Binding{{Param: "xs", E: mrogen.Split{E: xs}}, {Param: "off", E: mrogen.Split{E: flags}}}}},
		Ret: []mrogen.Binding{{Param: "r", E: out("PER", "s")}}}
	p.Pipelines = []*mrogen.Pipeline{perPl, top}
	p.Top = &mrogen.Call{Id: "TOP", Callee: "TOP", Bindings: []mrogen.Binding{{Param: "n", E: lit(num(rapid.IntRange(0, 9999).Draw(t, "n")), tInt)}}}
	return p
}

// TestFlaggedMapsJobs: C03 (and C01 / C02) for per-element disabling flags of
// a map-called pipeline; job-level oracles as in TestNestedMapsJobs.
func TestFlaggedMapsJobs(t *testing.T) {
	root := workRoot(t)
	// (run once for each of C01, C02, C03: whatever goes wrong in these
	// families - a job too many shows first as unexpected arguments - is
	// reported by the check that is running)
	if p := os.Getenv("VERIF_STATS_PROP"); p != "" {
		propOverride = p
		defer func() { propOverride = "" }()
	}
	rapid.Check(t, func(t *rapid.T) {
		defer func() {
			if p := recover(); p != nil {
				if _, ok := p.(surveySkip); !ok {
					panic(p)
				}
			}
		}()
		prog := genFlagged(t)
		if stats.Known("C01/nested-map-merge-repeats-forks") {
			skipTopOuts = true
			defer func() { skipTopOuts = false }()
		}
		semCase(t, root, prog)
	})
}
