// Package refsem is the independent reference semantics used as oracle.
// This file: the type-level rules (assignability, JSON conformance,
// filtering), written from the language rules, never from martian's code.
package refsem

import (
	"encoding/json"
	"math"
	"math/big"
	"regexp"
	"strconv"

	"verifharness/jsonx"
	"verifharness/mrogen"
)

type U = mrogen.Universe
type Ty = mrogen.Ty

// Assignable: may a value of type src be bound to a parameter of type dst?
//
// Rules: identical types; int -> float; string <-> any file type (user
// file types, file) and string -> path; user file type -> file;
// struct -> struct when every field of dst exists in src with an assignable
// type; struct -> map; typed map -> map; struct -> map<T> when every field
// is assignable to T; arrays and typed maps component-wise with equal
// dimensions.
func Assignable(u *U, dst, src Ty) bool {
	if dst == src {
		return true
	}
	if dst.Arr > 0 || src.Arr > 0 {
		if dst.Arr != src.Arr {
			return false
		}
		d, _ := dst.Elem()
		s, _ := src.Elem()
		for d.Arr > 0 {
			d, _ = d.Elem()
			s, _ = s.Elem()
		}
		return Assignable(u, d, s)
	}
	// no array dims from here
	if dst.Map > 0 {
		de, _ := dst.Elem()
		if src.Map > 0 {
			se, _ := src.Elem()
			return Assignable(u, de, se)
		}
		if st := u.Struct(src.Base); st != nil {
			for _, f := range st.Fields {
				if !Assignable(u, de, f.T) {
					return false
				}
			}
			return true
		}
		return false
	}
	// dst scalar
	if src.Map > 0 {
		return dst.Base == "map"
	}
	// both scalar
	switch dst.Base {
	case "int", "bool":
		return false
	case "float":
		return src.Base == "int"
	case "string":
		return u.IsFileType(src.Base)
	case "path":
		return src.Base == "string"
	case "file":
		return src.Base == "string" || u.IsFileType(src.Base)
	case "map":
		return u.Struct(src.Base) != nil
	}
	if u.IsFileType(dst.Base) {
		return src.Base == "file" || src.Base == "string"
	}
	if ds := u.Struct(dst.Base); ds != nil {
		ss := u.Struct(src.Base)
		if ss == nil {
			return false
		}
		for _, f := range ds.Fields {
			sf := ss.Field(f.Name)
			if sf == nil || !Assignable(u, f.T, sf.T) {
				return false
			}
		}
		return true
	}
	return false
}

var intTokRe = regexp.MustCompile(`^-?(0|[1-9][0-9]*)$`)

func isInt64Token(tok string) bool {
	if !intTokRe.MatchString(tok) {
		return false
	}
	_, err := strconv.ParseInt(tok, 10, 64)
	return err == nil
}

func isFloat64Token(tok string) bool {
	_, err := strconv.ParseFloat(tok, 64)
	return err == nil
}

// Validity is the result of the reference validator.
type Validity struct {
	// OK: the value has the declared shape (null allowed everywhere).
	OK bool
	// Clean: additionally nothing that merits a warning (a user file type
	// position holding a non-string is tolerated for backward
	// compatibility but is not clean).
	Clean bool
	// Ambiguous: the reference declines to judge (typed-map keys of
	// file-bearing maps that are not legal file names).
	Ambiguous bool
}

func and(a, b Validity) Validity {
	return Validity{a.OK && b.OK, a.Clean && b.Clean, a.Ambiguous || b.Ambiguous}
}

func legalFileName(k string) bool {
	if k == "" || k == "." || k == ".." || len(k) > 255 {
		return false
	}
	for _, c := range k {
		if c == '/' || c == 0 {
			return false
		}
	}
	return true
}

// Valid: does v have the shape declared by ty?
func Valid(u *U, ty Ty, v any) Validity {
	yes := Validity{OK: true, Clean: true}
	no := Validity{}
	if v == nil {
		return yes
	}
	if el, ok := ty.Elem(); ok {
		if ty.IsArray() {
			a, ok := v.([]any)
			if !ok {
				return no
			}
			r := yes
			for _, e := range a {
				r = and(r, Valid(u, el, e))
			}
			return r
		}
		o, ok := v.(*jsonx.Obj)
		if !ok {
			return no
		}
		r := yes
		fileish := u.IsFileish(el)
		for i, k := range o.Keys {
			r = and(r, Valid(u, el, o.Vals[i]))
			if fileish && !legalFileName(k) {
				r.Ambiguous = true
			}
		}
		return r
	}
	switch ty.Base {
	case "int":
		n, ok := v.(json.Number)
		if ok && isInt64Token(string(n)) {
			return yes
		}
		return no
	case "float":
		n, ok := v.(json.Number)
		if ok && isFloat64Token(string(n)) {
			return yes
		}
		return no
	case "bool":
		if _, ok := v.(bool); ok {
			return yes
		}
		return no
	case "string", "file", "path":
		if _, ok := v.(string); ok {
			return yes
		}
		return no
	case "map":
		if _, ok := v.(*jsonx.Obj); ok {
			return yes
		}
		return no
	}
	if u.IsFileType(ty.Base) {
		if _, ok := v.(string); ok {
			return yes
		}
		return Validity{OK: true, Clean: false}
	}
	if s := u.Struct(ty.Base); s != nil {
		o, ok := v.(*jsonx.Obj)
		if !ok {
			return no
		}
		r := yes
		for _, f := range s.Fields {
			fv, ok := o.Get(f.Name)
			if !ok {
				return no
			}
			r = and(r, Valid(u, f.T, fv))
		}
		return r
	}
	panic("refsem.Valid: unknown type " + ty.String())
}

// integralToInt converts a number token denoting an integer within the
// int64 range to its decimal form.
func integralToInt(tok string) (string, bool) {
	if isInt64Token(tok) {
		if tok == "-0" {
			return "-0", true // an integer token is left alone
		}
		return tok, true
	}
	f, _, err := big.ParseFloat(tok, 10, 2000, big.ToNearestEven)
	if err != nil || !f.IsInt() {
		return "", false
	}
	// The conversion is defined on the float64 reading of the token.
	f64, err := strconv.ParseFloat(tok, 64)
	if err != nil || f64 != math.Trunc(f64) {
		return "", false
	}
	if f64 < -9223372036854775808.0 || f64 >= 9223372036854775808.0 {
		return "", false
	}
	return strconv.FormatInt(int64(f64), 10), true
}

// Filter: the reference for "filter the value to the type": undeclared
// struct fields are dropped, integral floats in int positions are written
// as integers, nothing else changes.  ok=false when v does not conform to
// ty (then the reference makes no claim about the output).
func Filter(u *U, ty Ty, v any) (any, bool) {
	if v == nil {
		return nil, true
	}
	if el, ok := ty.Elem(); ok {
		if ty.IsArray() {
			a, ok := v.([]any)
			if !ok {
				return nil, false
			}
			r := make([]any, len(a))
			for i, e := range a {
				fe, ok := Filter(u, el, e)
				if !ok {
					return nil, false
				}
				r[i] = fe
			}
			return r, true
		}
		o, ok := v.(*jsonx.Obj)
		if !ok {
			return nil, false
		}
		r := jsonx.NewObj()
		for i, k := range o.Keys {
			fe, ok := Filter(u, el, o.Vals[i])
			if !ok {
				return nil, false
			}
			r.Set(k, fe)
		}
		return r, true
	}
	switch ty.Base {
	case "int":
		n, ok := v.(json.Number)
		if !ok {
			return nil, false
		}
		s, ok := integralToInt(string(n))
		if !ok {
			return nil, false
		}
		return json.Number(s), true
	case "float":
		n, ok := v.(json.Number)
		return v, ok && isFloat64Token(string(n))
	case "bool":
		_, ok := v.(bool)
		return v, ok
	case "string", "file", "path":
		_, ok := v.(string)
		return v, ok
	case "map":
		_, ok := v.(*jsonx.Obj)
		return v, ok
	}
	if u.IsFileType(ty.Base) {
		_, ok := v.(string)
		return v, ok
	}
	if s := u.Struct(ty.Base); s != nil {
		o, ok := v.(*jsonx.Obj)
		if !ok {
			return nil, false
		}
		r := jsonx.NewObj()
		for _, f := range s.Fields {
			fv, ok := o.Get(f.Name)
			if !ok {
				return nil, false
			}
			ff, ok := Filter(u, f.T, fv)
			if !ok {
				return nil, false
			}
			r.Set(f.Name, ff)
		}
		return r, true
	}
	panic("refsem.Filter: unknown type " + ty.String())
}
