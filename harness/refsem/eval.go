package refsem

import (
	"encoding/json"
	"fmt"
	"sort"
	"strings"

	"verifharness/jsonx"
	"verifharness/mrogen"
	"verifharness/stagefn"
)

// SoftNull marks a value that comes from a mapped call that was disabled or
// mapped over an empty / null collection: the statement of C01 allows it to
// appear as null, an empty collection or a collection of nulls.
type SoftNull struct{}

// Job is one job the model expects to be executed.
type Job struct {
	CallPath string // e.g. "PL1.ST0_A" (call ids from the top-level call down)
	Fork     string // index path of enclosing map calls, e.g. "[2]{ka}"
	Phase    string // main | split | chunk | join
	Chunk    int
	Args     *jsonx.Obj
	// for join:
	ChunkDefs []any
	ChunkOuts []any
	// Deps: stage call instances ("callPath|fork") whose outputs this job
	// consumes as data, disabling condition or map source.
	Deps []string
}

// Inst is the instance id of the stage call this job belongs to.
func (j *Job) Inst() string { return j.CallPath + "|" + j.Fork }

// DepCallPath strips the fork part of an instance id.
func DepCallPath(inst string) string {
	if i := strings.IndexByte(inst, '|'); i >= 0 {
		return inst[:i]
	}
	return inst
}

// Result of evaluating a program.
type Result struct {
	Jobs []*Job
	// Outs: top-level outputs (after conversion to the declared out types).
	Outs *jsonx.Obj
	// TopDisabled: nothing ran (never for generated programs).
	Unsupported string // non-empty: the model declines to judge this program
	// Features observed while evaluating (for case classification).
	Features map[string]int
	// StageCalls: every stage call path -> number of instances evaluated
	// (0 for calls that were disabled everywhere).
	StageCalls map[string]int
	// Preflights per pipeline call path.
	Preflight map[string][]string
}

type evaluator struct {
	// perturb: stage call instance whose final outputs are replaced by
	// different values (dependency discovery), with the salt to use.
	perturb     string
	perturbOpts *stagefn.Opts
	// dry > 0: hypothetical evaluation of a disabled pipeline call, to find
	// outputs that would be null even if the call were enabled (nothing is
	// recorded; stage outputs are an opaque non-null placeholder).
	dry       int
	instCache map[string]map[string]tv
	prog *mrogen.Program
	u    *mrogen.Universe // extended with callable output structs
	opts *stagefn.Opts
	res  *Result
}

// ExtUniverse returns the program's universe extended with the implicit
// output struct of every callable.
func ExtUniverse(prog *mrogen.Program) *mrogen.Universe {
	u := &mrogen.Universe{FileTypes: prog.U.FileTypes}
	u.Structs = append(u.Structs, prog.U.Structs...)
	add := func(name string, outs []mrogen.Param) {
		if len(outs) == 0 {
			return
		}
		s := &mrogen.Struct{Name: name}
		for _, o := range outs {
			s.Fields = append(s.Fields, mrogen.Field{Name: o.Name, T: o.T})
		}
		u.Structs = append(u.Structs, s)
	}
	for _, s := range prog.Stages {
		add(s.Name, s.Outs)
	}
	for _, p := range prog.Pipelines {
		add(p.Name, p.Outs)
	}
	return u
}

// dep is the provenance of a value: which stage call instances it was
// computed from, tracked structurally so that projecting one field of a
// struct literal only carries that field's producers.
type dep struct {
	// self: producers that matter only when the value itself (not one of
	// its projections) is consumed, e.g. the disabling condition of the
	// call that produced a struct whose fields may be null anyway.
	self   map[string]bool
	all    map[string]bool
	fields map[string]*dep
	elems  []*dep          // array literal, per index
	keyed  map[string]*dep // map literal, per key
}

func depOf(insts ...string) *dep {
	d := &dep{all: map[string]bool{}}
	for _, i := range insts {
		d.all[i] = true
	}
	return d
}

// flat returns every instance anywhere in the tree.
func (d *dep) flat() map[string]bool {
	r := map[string]bool{}
	var rec func(d *dep)
	rec = func(d *dep) {
		if d == nil {
			return
		}
		for k := range d.all {
			r[k] = true
		}
		for k := range d.self {
			r[k] = true
		}
		for _, f := range d.fields {
			rec(f)
		}
		for _, f := range d.elems {
			rec(f)
		}
		for _, f := range d.keyed {
			rec(f)
		}
	}
	rec(d)
	return r
}

// with returns a copy of d that additionally depends on extra.
func (d *dep) with(extra map[string]bool) *dep {
	if len(extra) == 0 {
		return d
	}
	r := &dep{all: map[string]bool{}}
	if d != nil {
		r.fields, r.elems, r.keyed, r.self = d.fields, d.elems, d.keyed, d.self
		for k := range d.all {
			r.all[k] = true
		}
	}
	for k := range extra {
		r.all[k] = true
	}
	return r
}

// field: provenance of d.<name>, distributing over collections.
func (d *dep) field(name string) *dep {
	if d == nil {
		return nil
	}
	r := &dep{all: d.all}
	if d.fields != nil {
		if f := d.fields[name]; f != nil {
			r = f.with(d.all)
		}
		return r
	}
	if d.elems != nil {
		for _, e := range d.elems {
			r.elems = append(r.elems, e.field(name))
		}
	}
	if d.keyed != nil {
		r.keyed = map[string]*dep{}
		for k, e := range d.keyed {
			r.keyed[k] = e.field(name)
		}
	}
	return r
}

// index: provenance of one element (array index or map key).
func (d *dep) index(i int, key string) *dep {
	if d == nil {
		return nil
	}
	if d.elems != nil && i >= 0 && i < len(d.elems) {
		return d.elems[i].with(d.all)
	}
	if d.keyed != nil {
		if e, ok := d.keyed[key]; ok {
			return e.with(d.all)
		}
	}
	return &dep{all: d.all}
}

// narrow drops the provenance of struct fields that conversion to ty drops.
func narrowDep(u *U, ty Ty, d *dep) *dep {
	if d == nil {
		return nil
	}
	if el, ok := ty.Elem(); ok {
		r := &dep{all: d.all, self: d.self}
		for _, e := range d.elems {
			r.elems = append(r.elems, narrowDep(u, el, e))
		}
		if d.keyed != nil {
			r.keyed = map[string]*dep{}
			for k, e := range d.keyed {
				r.keyed[k] = narrowDep(u, el, e)
			}
		}
		return r
	}
	if st := u.Struct(ty.Base); st != nil && d.fields != nil {
		r := &dep{all: d.all, self: d.self, fields: map[string]*dep{}}
		for _, f := range st.Fields {
			if fd, ok := d.fields[f.Name]; ok {
				r.fields[f.Name] = narrowDep(u, f.T, fd)
			}
		}
		return r
	}
	return d
}

// presence returns the provenance of a value that additionally depends on
// extra (the producers of a disabling condition) wherever it is not null:
// a position that is null is null whether or not the call is disabled.
func presence(u *U, v any, t Ty, d *dep, extra map[string]bool) *dep {
	if len(extra) == 0 {
		return d
	}
	switch x := v.(type) {
	case nil:
		return d
	case SoftNull:
		return d
	case []any:
		if el, ok := t.Elem(); ok && t.IsArray() {
			r := &dep{self: unionSets(unionSets(depAll(d), depSelf(d)), extra), elems: []*dep{}}
			for i, e := range x {
				r.elems = append(r.elems, presence(u, e, el, d.index(i, ""), extra))
			}
			return r
		}
	case *jsonx.Obj:
		if t.IsTypedMap() {
			el, _ := t.Elem()
			r := &dep{self: unionSets(unionSets(depAll(d), depSelf(d)), extra), keyed: map[string]*dep{}}
			for i, k := range x.Keys {
				r.keyed[k] = presence(u, x.Vals[i], el, d.index(-1, k), extra)
			}
			return r
		}
		if st := u.Struct(t.Base); st != nil && t.IsScalar() {
			r := &dep{self: unionSets(unionSets(depAll(d), depSelf(d)), extra), fields: map[string]*dep{}}
			for _, f := range st.Fields {
				fv, _ := x.Get(f.Name)
				r.fields[f.Name] = presence(u, fv, f.T, d.field(f.Name), extra)
			}
			return r
		}
	}
	return d.with(extra)
}

func depAll(d *dep) map[string]bool {
	if d == nil {
		return nil
	}
	return d.all
}

func depSelf(d *dep) map[string]bool {
	if d == nil {
		return nil
	}
	return d.self
}

// typed value
type tv struct {
	v any
	t Ty
	d *dep
}

type callResult struct {
	outs     map[string]tv // per out param (already adjusted for mapping)
	whole    tv
	disabled bool
}

// forkPart is one enclosing map call and the element this instance is for.
type forkPart struct {
	mapCall string // call path of the map call
	tag     string // "[i]" or "{key}"
}

func forkString(parts []forkPart, roots map[string]bool) string {
	var b strings.Builder
	for _, p := range parts {
		if roots == nil || roots["@"+p.mapCall] {
			b.WriteString(p.tag)
		}
	}
	return b.String()
}

type env struct {
	// guard: producers of the disabling conditions of this pipeline
	// instance and its ancestors; every job inside waits for them.
	guard map[string]bool
	path  string // call path of the enclosing pipeline instance
	fork  []forkPart
	pl    *mrogen.Pipeline
	self  map[string]tv
	calls map[string]*callResult
}

// Eval evaluates the program's top-level call.
func Eval(prog *mrogen.Program, opts *stagefn.Opts) *Result {
	return evalWith(prog, opts, "", nil)
}

// JobKey identifies a job across evaluations.
func (j *Job) Key() string { return fmt.Sprintf("%s|%s|%s|%d", j.CallPath, j.Fork, j.Phase, j.Chunk) }

// TrueDeps computes, by perturbation, which stage call instances each job
// really depends on: instance P is a dependency of job J iff replacing P's
// outputs by other conforming values changes what J receives, or whether J
// exists at all.  (A scheduler cannot hand J its correct arguments before P
// has finished; conversely, if nothing J receives can change, J need not
// wait.)  This is independent of how the implementation analyses bindings.
func TrueDeps(prog *mrogen.Program, opts *stagefn.Opts, base *Result) map[string][]string {
	sig := func(r *Result) map[string]string {
		m := map[string]string{}
		for _, j := range r.Jobs {
			s := stagefn.Canon(concretize(j.Args))
			if j.Phase == "join" {
				s += "|" + stagefn.Canon(concretize(anySlice(j.ChunkDefs))) + "|" + stagefn.Canon(concretize(anySlice(j.ChunkOuts)))
			}
			m[j.Key()] = s
		}
		return m
	}
	baseSig := sig(base)
	insts := map[string]bool{}
	for _, j := range base.Jobs {
		insts[j.Inst()] = true
	}
	deps := map[string]map[string]bool{}
	for inst := range insts {
		for k, po := range []*stagefn.Opts{
			{NullPct: opts.NullPct, Salt: "p1", FlipBools: true},
			{NullPct: opts.NullPct, Salt: "p2"},
		} {
			_ = k
			pr := evalWith(prog, opts, inst, po)
			ps := sig(pr)
			for key, s := range baseSig {
				if strings.HasPrefix(key, inst+"|") {
					continue // the instance's own jobs
				}
				if s2, ok := ps[key]; !ok || s2 != s {
					if deps[key] == nil {
						deps[key] = map[string]bool{}
					}
					deps[key][inst] = true
				}
			}
		}
	}
	out := map[string][]string{}
	for k, m := range deps {
		out[k] = sortedKeys(m)
	}
	return out
}

func anySlice(v []any) any { return append([]any{}, v...) }

func evalWith(prog *mrogen.Program, opts *stagefn.Opts, perturb string, popts *stagefn.Opts) *Result {
	ev := &evaluator{perturb: perturb, perturbOpts: popts, prog: prog, u: ExtUniverse(prog), opts: opts, instCache: map[string]map[string]tv{},
		res: &Result{Features: map[string]int{}, StageCalls: map[string]int{}, Preflight: map[string][]string{}}}
	top := prog.Top
	ins, _, _ := prog.Callable(top.Callee)
	args := map[string]tv{}
	for _, b := range top.Bindings {
		p := mrogen.FindParam(ins, b.Param)
		lit := b.E.(mrogen.Lit)
		args[b.Param] = tv{v: lit.V, t: p.T}
	}
	outs := ev.evalCallable(top.Id, nil, top.Callee, args, nil)
	o := jsonx.NewObj()
	_, outParams, _ := prog.Callable(top.Callee)
	for _, p := range outParams {
		o.Set(p.Name, outs[p.Name].v)
	}
	ev.res.Outs = o
	return ev.res
}

func (ev *evaluator) optsFor(inst string) *stagefn.Opts {
	if ev.perturb != "" && inst == ev.perturb {
		return ev.perturbOpts
	}
	return ev.opts
}

func (ev *evaluator) unsupported(why string) {
	if ev.dry == 0 {
		ev.res.Unsupported = why
	}
}

func (ev *evaluator) feature(f string) {
	if ev.dry == 0 {
		ev.res.Features[f]++
	}
}

// convert filters v (of static type src) to the declared type dst.
func (ev *evaluator) convert(v any, dst Ty) any {
	return filterSoft(ev.u, dst, v)
}

// filterSoft is Filter extended to SoftNull markers and tolerant of values
// the reference filter rejects (returned unchanged; generated programs are
// well typed so this does not happen).
func filterSoft(u *U, ty Ty, v any) any {
	switch x := v.(type) {
	case nil:
		return nil
	case SoftNull:
		return x
	case []any:
		if el, ok := ty.Elem(); ok && ty.IsArray() {
			r := make([]any, len(x))
			for i, e := range x {
				r[i] = filterSoft(u, el, e)
			}
			return r
		}
		return v
	case *jsonx.Obj:
		if ty.IsTypedMap() {
			el, _ := ty.Elem()
			r := jsonx.NewObj()
			for i, k := range x.Keys {
				r.Set(k, filterSoft(u, el, x.Vals[i]))
			}
			return r
		}
		if ty.IsScalar() {
			if st := u.Struct(ty.Base); st != nil {
				r := jsonx.NewObj()
				for _, f := range st.Fields {
					fv, _ := x.Get(f.Name)
					r.Set(f.Name, filterSoft(u, f.T, fv))
				}
				return r
			}
		}
		return v
	}
	return v
}

// project evaluates v.field where v has static type ty.
func (ev *evaluator) project(v any, ty Ty, field string) (any, Ty) {
	fields := ev.u.Struct(ty.Base)
	var ft Ty
	if fields != nil {
		if f := fields.Field(field); f != nil {
			ft = f.T
		}
	}
	rt, _ := projType(ty, ft)
	var rec func(v any, ty Ty) any
	rec = func(v any, ty Ty) any {
		switch x := v.(type) {
		case nil:
			return nil
		case SoftNull:
			return x
		case []any:
			el, _ := ty.Elem()
			r := make([]any, len(x))
			for i, e := range x {
				r[i] = rec(e, el)
			}
			return r
		case *jsonx.Obj:
			if ty.IsTypedMap() {
				el, _ := ty.Elem()
				r := jsonx.NewObj()
				for i, k := range x.Keys {
					r.Set(k, rec(x.Vals[i], el))
				}
				return r
			}
			fv, _ := x.Get(field)
			return fv
		}
		return nil
	}
	return rec(v, ty), rt
}

func projType(base Ty, field Ty) (Ty, bool) {
	r := field
	if base.Map > 0 {
		if r.Map > 0 || r.Base == "map" {
			return Ty{}, false
		}
		r = Ty{Base: r.Base, Arr: 0, Map: base.Map + r.Arr}
	}
	r.Arr += base.Arr
	return r, true
}

func (ev *evaluator) evalExpr(e mrogen.Expr, en *env, want Ty) tv {
	switch x := e.(type) {
	case mrogen.Lit:
		return tv{v: x.V, t: x.T}
	case mrogen.Ref:
		var cur tv
		if x.Call == "" {
			cur = en.self[x.Out]
		} else {
			cr := en.calls[x.Call]
			if cr == nil {
				panic("model: reference to unknown call " + x.Call)
			}
			if x.Out == "" {
				cur = cr.whole
			} else {
				cur = cr.outs[x.Out]
			}
		}
		for _, f := range x.Path {
			v, t := ev.project(cur.v, cur.t, f)
			cur = tv{v: v, t: t, d: cur.d.field(f)}
			ev.feature("projection")
		}
		return cur
	case mrogen.ArrayLit:
		el, _ := want.Elem()
		r := make([]any, len(x.Elems))
		d := &dep{elems: []*dep{}}
		for i, s := range x.Elems {
			sv := ev.evalExpr(s, en, el)
			r[i] = ev.convert(sv.v, el)
			d.elems = append(d.elems, narrowDep(ev.u, el, sv.d))
		}
		return tv{v: r, t: want, d: d}
	case mrogen.MapLit:
		el, _ := want.Elem()
		r := jsonx.NewObj()
		d := &dep{keyed: map[string]*dep{}}
		for i, k := range x.Keys {
			sv := ev.evalExpr(x.Vals[i], en, el)
			r.Set(k, ev.convert(sv.v, el))
			d.keyed[k] = narrowDep(ev.u, el, sv.d)
		}
		return tv{v: r, t: want, d: d}
	case mrogen.StructLit:
		st := ev.u.Struct(want.Base)
		r := jsonx.NewObj()
		d := &dep{fields: map[string]*dep{}}
		for i, k := range x.Fields {
			ft := Ty{Base: "map"}
			if st != nil {
				if f := st.Field(k); f != nil {
					ft = f.T
				}
			}
			sv := ev.evalExpr(x.Vals[i], en, ft)
			r.Set(k, ev.convert(sv.v, ft))
			d.fields[k] = narrowDep(ev.u, ft, sv.d)
		}
		return tv{v: r, t: want, d: d}
	case mrogen.Split:
		return ev.evalExpr(x.E, en, want)
	}
	panic(fmt.Sprintf("evalExpr: %T", e))
}

func isNullish(v any) bool {
	switch x := v.(type) {
	case nil:
		return true
	case SoftNull:
		return true
	case []any:
		return len(x) == 0
	case *jsonx.Obj:
		return len(x.Keys) == 0
	}
	return false
}

// evalCallable evaluates one instance of a callable with converted args and
// returns its outputs.
func (ev *evaluator) evalCallable(path string, forkParts []forkPart, callee string, args map[string]tv, guard map[string]bool) map[string]tv {
	ins, outs, isStage := ev.prog.Callable(callee)
	if isStage && ev.dry > 0 {
		r := map[string]tv{}
		for _, p := range outs {
			r[p.Name] = tv{v: "?", t: p.T}
		}
		return r
	}
	if isStage {
		all := map[string]bool{}
		for k := range guard {
			all[k] = true
		}
		for _, p := range ins {
			for k := range narrowDep(ev.u, p.T, args[p.Name].d).flat() {
				all[k] = true
			}
		}
		// "@<map call>" markers: the enclosing map calls this instance
		// depends on.  A stage call is forked only over those; instances
		// that differ only in other map calls are one and the same.
		argDeps := map[string]bool{}
		roots := map[string]bool{}
		for k := range all {
			if strings.HasPrefix(k, "@") {
				roots[k] = true
			} else {
				argDeps[k] = true
			}
		}
		fork := forkString(forkParts, roots)
		instKey := path + "|" + fork
		if cached, ok := ev.instCache[instKey]; ok {
			return cached
		}
		st := ev.prog.Stage(callee)
		ev.res.StageCalls[path]++
		obj := jsonx.NewObj()
		for _, p := range ins {
			obj.Set(p.Name, ev.convert(args[p.Name].v, p.T))
		}
		concrete := concretize(obj).(*jsonx.Obj)
		deps := sortedKeys(argDeps)
		var result *jsonx.Obj
		if !st.Split {
			ev.res.Jobs = append(ev.res.Jobs, &Job{CallPath: path, Fork: fork, Phase: "main", Args: obj, Deps: deps})
			result = stagefn.Main(ev.prog, st, concrete, ev.optsFor(path+"|"+fork))
		} else {
			ev.feature("split-stage")
			ev.res.Jobs = append(ev.res.Jobs, &Job{CallPath: path, Fork: fork, Phase: "split", Args: obj, Deps: deps})
			defs := stagefn.SplitDefs(ev.prog, st, concrete, ev.opts)
			ev.feature(fmt.Sprintf("chunks:%d", len(defs.Chunks)))
			var cdefs, couts []any
			for i, c := range defs.Chunks {
				ca := jsonx.NewObj()
				for j, k := range obj.Keys {
					ca.Set(k, obj.Vals[j])
				}
				for j, k := range c.Keys {
					ca.Set(k, c.Vals[j])
				}
				ev.res.Jobs = append(ev.res.Jobs, &Job{CallPath: path, Fork: fork, Phase: "chunk", Chunk: i, Args: ca, Deps: deps})
				couts = append(couts, stagefn.ChunkMain(ev.prog, st, concretize(ca).(*jsonx.Obj), ev.opts))
				cdefs = append(cdefs, c)
			}
			ev.res.Jobs = append(ev.res.Jobs, &Job{CallPath: path, Fork: fork, Phase: "join", Args: obj, ChunkDefs: cdefs, ChunkOuts: couts, Deps: deps})
			result = stagefn.Join(ev.prog, st, concrete, cdefs, couts, ev.optsFor(path+"|"+fork))
		}
		r := map[string]tv{}
		for _, p := range outs {
			v, _ := result.Get(p.Name)
			r[p.Name] = tv{v: v, t: p.T, d: depOf(path + "|" + fork).with(roots)}
		}
		ev.instCache[instKey] = r
		return r
	}
	pl := ev.prog.Pipeline(callee)
	en := &env{path: path, fork: forkParts, pl: pl, self: map[string]tv{}, calls: map[string]*callResult{}, guard: guard}
	for _, p := range ins {
		a := args[p.Name]
		en.self[p.Name] = tv{v: ev.convert(a.v, p.T), t: p.T, d: narrowDep(ev.u, p.T, a.d)}
	}
	for _, c := range pl.Calls {
		en.calls[c.Id] = ev.evalCall(c, en)
	}
	r := map[string]tv{}
	for _, b := range pl.Ret {
		p := mrogen.FindParam(outs, b.Param)
		v := ev.evalExpr(b.E, en, p.T)
		r[p.Name] = tv{v: ev.convert(v.v, p.T), t: p.T, d: narrowDep(ev.u, p.T, v.d)}
	}
	return r
}

// concretize replaces SoftNull markers by null (what the stage function
// hashes; the hash treats all permitted forms alike).
func concretize(v any) any {
	switch x := v.(type) {
	case SoftNull:
		return nil
	case []any:
		r := make([]any, len(x))
		for i, e := range x {
			r[i] = concretize(e)
		}
		return r
	case *jsonx.Obj:
		r := jsonx.NewObj()
		for i, k := range x.Keys {
			r.Set(k, concretize(x.Vals[i]))
		}
		return r
	}
	return v
}

func sortedKeys(m map[string]bool) []string {
	var r []string
	for k := range m {
		r = append(r, k)
	}
	sort.Strings(r)
	return r
}

func (ev *evaluator) nullResult(c *mrogen.Call, mapKind string, soft bool, deps map[string]bool) *callResult {
	nd := (*dep)(nil).with(deps)
	_, outs, _ := ev.prog.Callable(c.Callee)
	cr := &callResult{outs: map[string]tv{}, disabled: true}
	var nv any
	if soft {
		nv = SoftNull{}
	}
	for _, o := range outs {
		ty := o.T
		if c.Mapped {
			if mapKind == "map" {
				if ty.Map > 0 || ty.Base == "map" {
					continue
				}
				ty = ty.MapOf()
			} else {
				ty = ty.ArrayOf()
			}
		}
		cr.outs[o.Name] = tv{v: nv, t: ty, d: nd}
	}
	wt := Ty{Base: c.Callee}
	if c.Mapped {
		if mapKind == "map" {
			wt = wt.MapOf()
		} else {
			wt = wt.ArrayOf()
		}
	}
	cr.whole = tv{v: nv, t: wt, d: nd}
	return cr
}

func (ev *evaluator) evalCall(c *mrogen.Call, en *env) *callResult {
	ins, outs, isStage := ev.prog.Callable(c.Callee)
	path := en.path + "." + c.Id
	if c.Preflight && ev.dry == 0 {
		ev.res.Preflight[en.path] = append(ev.res.Preflight[en.path], path)
	}
	// map kind from the first split binding's static type
	mapKind := ""
	if c.Mapped {
		for _, b := range c.Bindings {
			if sp, ok := b.E.(mrogen.Split); ok {
				switch x := sp.E.(type) {
				case mrogen.ArrayLit:
					mapKind = "array"
				case mrogen.MapLit:
					mapKind = "map"
				default:
					_ = x
					p := mrogen.FindParam(ins, b.Param)
					sv := ev.evalExpr(sp.E, en, p.T.ArrayOf())
					if sv.t.Arr > p.T.Arr {
						mapKind = "array"
					} else {
						mapKind = "map"
					}
				}
				break
			}
		}
	}
	var flagDeps map[string]bool
	flagTrue := false
	if c.Disabled != nil {
		ev.feature("disabled-modifier")
		fv := ev.evalExpr(*c.Disabled, en, Ty{Base: "bool"})
		flagDeps = fv.d.flat()
		if b, ok := fv.v.(bool); ok && b {
			flagTrue = true
		} else if !ok {
			ev.unsupported("disabled flag is not a bool: " + fmt.Sprint(fv.v))
		}
	}
	if flagTrue {
		ev.feature("disabled-true")
		if isStage && ev.dry == 0 {
			if _, seen := ev.res.StageCalls[path]; !seen {
				ev.res.StageCalls[path] = 0
			}
		}
		deps := flagDeps
		if c.Mapped {
			// if the call is also mapped over an empty / null collection
			// its result is null whatever the flag says: then neither the
			// flag's nor the source's producers are required (weakest
			// reading of "consumes").
			for _, b := range c.Bindings {
				if sp, ok := b.E.(mrogen.Split); ok {
					p := mrogen.FindParam(ins, b.Param)
					if sv := ev.evalExpr(sp.E, en, p.T.ArrayOf()); isNullish(sv.v) {
						deps = nil
					}
				}
			}
		}
		cr := ev.nullResult(c, mapKind, c.Mapped, deps)
		if !isStage && !c.Mapped && len(deps) > 0 {
			// outputs of the pipeline that would be null even if it ran do
			// not depend on the disabling condition.
			ev.dry++
			args := map[string]tv{}
			for _, b := range c.Bindings {
				p := mrogen.FindParam(ins, b.Param)
				args[b.Param] = ev.evalExpr(b.E, en, p.T)
			}
			hyp := ev.evalCallable(path, en.fork, c.Callee, args, nil)
			ev.dry--
			for name, v := range hyp {
				o := cr.outs[name]
				o.d = presence(ev.u, v.v, v.t, nil, deps)
				cr.outs[name] = o
			}
		}
		return cr
	}
	if !c.Mapped {
		args := map[string]tv{}
		for _, b := range c.Bindings {
			p := mrogen.FindParam(ins, b.Param)
			a := ev.evalExpr(b.E, en, p.T)
			args[b.Param] = a
		}
		if isStage && len(ins) == 0 {
			args = map[string]tv{}
		}
		res := ev.evalCallable(path, en.fork, c.Callee, args, unionSets(en.guard, flagDeps))
		for k, v := range res {
			// a (part of an) output that is null is null whether or not
			// the call is disabled: it does not depend on the condition.
			v.d = presence(ev.u, v.v, v.t, v.d, flagDeps)
			res[k] = v
		}
		cr := &callResult{outs: res}
		w := jsonx.NewObj()
		wd := &dep{fields: map[string]*dep{}}
		for _, o := range outs {
			w.Set(o.Name, res[o.Name].v)
			wd.fields[o.Name] = res[o.Name].d
		}
		cr.whole = tv{v: w, t: Ty{Base: c.Callee}, d: wd}
		if !isStage {
			ev.feature("sub-pipeline")
		}
		return cr
	}
	// mapped call
	ev.feature("map-call:" + mapKind)
	if !isStage {
		ev.feature("map-call-of-pipeline")
	}
	type splitArg struct {
		param string
		val   tv
	}
	var splits []splitArg
	fixed := map[string]tv{}
	srcDeps := map[string]bool{}
	for k := range flagDeps {
		srcDeps[k] = true
	}
	for _, b := range c.Bindings {
		p := mrogen.FindParam(ins, b.Param)
		if sp, ok := b.E.(mrogen.Split); ok {
			if p.Flag {
				ev.feature("per-element-disable-flag")
				if al, isLit := sp.E.(mrogen.ArrayLit); isLit {
					for _, el := range al.Elems {
						if _, isRef := el.(mrogen.Ref); isRef {
							ev.feature("per-element-disable-flag:run-time")
							break
						}
					}
				}
			}
			ct := p.T.ArrayOf()
			if mapKind == "map" {
				ct = p.T.MapOf()
			}
			sv := ev.evalExpr(sp.E, en, ct)
			sv.v = ev.convert(sv.v, ct)
			sv.t = ct
			splits = append(splits, splitArg{b.Param, sv})
			// the set of forks depends on the whole collection
			for k := range sv.d.flat() {
				srcDeps[k] = true
			}
			if r, isRef := sp.E.(mrogen.Ref); isRef && len(sv.d.flat()) > 0 {
				if len(r.Path) > 0 {
					ev.feature("map-source:dynamic-projection:" + mapKind)
				}
				ev.feature("map-source:dynamic")
			} else {
				ev.feature("map-source:static")
			}
		} else {
			a := ev.evalExpr(b.E, en, p.T)
			fixed[b.Param] = a
		}
	}
	// keys / length
	var keys []string
	n := -1
	for _, s := range splits {
		if isNullish(s.val.v) {
			ev.feature("map-over-empty")
			if isStage && ev.dry == 0 {
				if _, seen := ev.res.StageCalls[path]; !seen {
					ev.res.StageCalls[path] = 0
				}
			}
			// null whatever the disabling flag says: only the producers
			// of the empty collection matter.
			return ev.nullResult(c, mapKind, true, s.val.d.flat())
		}
		switch x := s.val.v.(type) {
		case []any:
			if n >= 0 && n != len(x) {
				ev.unsupported("inconsistent split lengths")
			}
			n = len(x)
		case *jsonx.Obj:
			if keys != nil && strings.Join(keys, "\x00") != strings.Join(x.Keys, "\x00") {
				sk := append([]string{}, x.Keys...)
				sort.Strings(sk)
				kk := append([]string{}, keys...)
				sort.Strings(kk)
				if strings.Join(sk, "\x00") != strings.Join(kk, "\x00") {
					ev.unsupported("inconsistent split keys")
				}
			}
			if keys == nil {
				keys = x.Keys
			}
			n = len(x.Keys)
		default:
			ev.unsupported(fmt.Sprintf("split source is %T", s.val.v))
			return ev.nullResult(c, mapKind, true, srcDeps)
		}
	}
	ev.feature(fmt.Sprintf("map-size:%d", min(n, 4)))
	{
		dynamic := false
		for _, b := range c.Bindings {
			if sp, ok := b.E.(mrogen.Split); ok {
				if _, isRef := sp.E.(mrogen.Ref); isRef {
					for _, s := range splits {
						if s.param == b.Param && len(s.val.d.flat()) > 0 {
							dynamic = true
						}
					}
				}
			}
		}
		if dynamic && n >= 3 {
			ev.feature("map-dynamic-size>=3")
		}
		for _, a := range fixed {
			for k := range a.d.flat() {
				if strings.HasPrefix(k, "@") {
					ev.feature("mapped-call-takes-merged-output")
					if dynamic {
						ev.feature("dynamic-mapped-call-takes-merged-output")
					}
					break
				}
			}
		}
	}
	perOut := map[string][]any{}
	perOutDep := map[string][]*dep{}
	var wholes []any
	var wholeDeps []*dep
	for i := 0; i < n; i++ {
		args := map[string]tv{}
		for k, v := range fixed {
			args[k] = v
		}
		var forkTag string
		marker := map[string]bool{"@" + path: true}
		for _, s := range splits {
			p := mrogen.FindParam(ins, s.param)
			var ev1 any
			if mapKind == "array" {
				ev1 = s.val.v.([]any)[i]
				forkTag = fmt.Sprintf("[%d]", i)
			} else {
				ev1, _ = s.val.v.(*jsonx.Obj).Get(keys[i])
				forkTag = fmt.Sprintf("{%s}", keys[i])
			}
			args[s.param] = tv{v: ev1, t: p.T, d: s.val.d.index(i, keyAt(keys, i)).with(srcDeps).with(marker)}
		}
		// jobs that do not use the element are not "mapped over" the
		// collection: only the disabling condition guards all of them.
		res := ev.evalCallable(path, append(append([]forkPart{}, en.fork...), forkPart{path, forkTag}), c.Callee, args, unionSets(en.guard, flagDeps))
		w := jsonx.NewObj()
		wd := &dep{fields: map[string]*dep{}}
		for _, o := range outs {
			perOut[o.Name] = append(perOut[o.Name], res[o.Name].v)
			perOutDep[o.Name] = append(perOutDep[o.Name], res[o.Name].d)
			w.Set(o.Name, res[o.Name].v)
			wd.fields[o.Name] = res[o.Name].d
		}
		wholes = append(wholes, w)
		wholeDeps = append(wholeDeps, wd)
	}
	collectDep := func(ds []*dep) *dep {
		// the shape of the result depends on the map source
		r := &dep{all: srcDeps}
		if mapKind == "array" {
			r.elems = append([]*dep{}, ds...)
		} else {
			r.keyed = map[string]*dep{}
			for i, k := range keys {
				r.keyed[k] = ds[i]
			}
		}
		return r
	}
	collect := func(vals []any) any {
		if mapKind == "array" {
			return append([]any{}, vals...)
		}
		o := jsonx.NewObj()
		for i, k := range keys {
			o.Set(k, vals[i])
		}
		return o
	}
	cr := &callResult{outs: map[string]tv{}}
	for _, o := range outs {
		ty := o.T
		if mapKind == "map" {
			if ty.Map > 0 || ty.Base == "map" {
				continue
			}
			ty = ty.MapOf()
		} else {
			ty = ty.ArrayOf()
		}
		cr.outs[o.Name] = tv{v: collect(perOut[o.Name]), t: ty, d: collectDep(perOutDep[o.Name])}
	}
	wt := Ty{Base: c.Callee}.ArrayOf()
	if mapKind == "map" {
		wt = Ty{Base: c.Callee}.MapOf()
	}
	cr.whole = tv{v: collect(wholes), t: wt, d: collectDep(wholeDeps)}
	return cr
}

// ---- comparison -----------------------------------------------------------

// nullishDeep: null, empty collection, or collection of such.
func nullishDeep(v any) bool {
	switch x := v.(type) {
	case nil:
		return true
	case SoftNull:
		return true
	case []any:
		for _, e := range x {
			if !nullishDeep(e) {
				return false
			}
		}
		return true
	case *jsonx.Obj:
		for _, e := range x.Vals {
			if !nullishDeep(e) {
				return false
			}
		}
		return true
	}
	return false
}

// EqualSoft compares a model value (which may contain SoftNull markers)
// with an actual value: exact (numbers numerically) except that a SoftNull
// accepts null, an empty collection or a collection of nulls.  Returns a
// path to the first difference.
func EqualSoft(model, actual any, path string) (bool, string) {
	switch m := model.(type) {
	case SoftNull:
		if nullishDeep(actual) {
			return true, ""
		}
		return false, path + ": expected null / empty (disabled or empty mapped call), got " + string(jsonx.Marshal(actual))
	case nil:
		if actual == nil {
			return true, ""
		}
	case bool:
		if a, ok := actual.(bool); ok && a == m {
			return true, ""
		}
	case string:
		if a, ok := actual.(string); ok && a == m {
			return true, ""
		}
	case json.Number:
		if a, ok := actual.(json.Number); ok && jsonx.NormNumber(string(a)) == jsonx.NormNumber(string(m)) {
			return true, ""
		}
	case []any:
		a, ok := actual.([]any)
		if !ok || len(a) != len(m) {
			break
		}
		for i := range m {
			if ok, d := EqualSoft(m[i], a[i], fmt.Sprintf("%s[%d]", path, i)); !ok {
				return false, d
			}
		}
		return true, ""
	case *jsonx.Obj:
		a, ok := actual.(*jsonx.Obj)
		if !ok || len(a.Keys) != len(m.Keys) {
			break
		}
		for i, k := range m.Keys {
			av, ok := a.Get(k)
			if !ok {
				return false, path + ": missing key " + k
			}
			if ok, d := EqualSoft(m.Vals[i], av, path+"."+k); !ok {
				return false, d
			}
		}
		return true, ""
	}
	return false, fmt.Sprintf("%s: expected %s, got %s", path, string(jsonx.Marshal(concretize(model))), string(jsonx.Marshal(actual)))
}

// Concretize exposes concretize.
func Concretize(v any) any { return concretize(v) }

func keyAt(keys []string, i int) string {
	if i < len(keys) {
		return keys[i]
	}
	return ""
}

func unionSets(a, b map[string]bool) map[string]bool {
	if len(a) == 0 {
		return b
	}
	if len(b) == 0 {
		return a
	}
	r := map[string]bool{}
	for k := range a {
		r[k] = true
	}
	for k := range b {
		r[k] = true
	}
	return r
}
