// Package stagefn defines what generated stages do.  It is a pure function
// of the stage declaration and of everything the job received, shared by
// the reference model (refsem), the in-process virtual jobs (simrun) and
// the real stage binary (cmd/stagebin): any wrong, missing, re-ordered or
// extra argument anywhere upstream changes every downstream value.
package stagefn

import (
	"encoding/json"
	"hash/fnv"
	"strconv"
	"strings"

	"verifharness/jsonx"
	"verifharness/mrogen"
)

// rng is splitmix64.
type rng struct{ s uint64 }

func (r *rng) next() uint64 {
	r.s += 0x9e3779b97f4a7c15
	z := r.s
	z = (z ^ (z >> 30)) * 0xbf58476d1ce4e5b9
	z = (z ^ (z >> 27)) * 0x94d049bb133111eb
	return z ^ (z >> 31)
}
func (r *rng) intn(n int) int { return int(r.next() % uint64(n)) }

// canonForHash: canonical JSON with reserved "__" keys removed at the top
// level and numbers normalised (1.0 == 1).
func canonForHash(v any, top bool) string {
	var b strings.Builder
	var w func(v any, top bool)
	w = func(v any, top bool) {
		if !top && nullishDeep(v) {
			// null, an empty collection and a collection of nulls are the
			// permitted appearances of a disabled / empty mapped call:
			// they hash alike (arguments are compared exactly elsewhere).
			b.WriteString("null")
			return
		}
		switch x := v.(type) {
		case nil:
			b.WriteString("null")
		case bool:
			b.WriteString(strconv.FormatBool(x))
		case string:
			b.WriteString(strconv.Quote(x))
		case json.Number:
			b.WriteString(jsonx.NormNumber(string(x)))
		case []any:
			b.WriteByte('[')
			for i, e := range x {
				if i > 0 {
					b.WriteByte(',')
				}
				w(e, false)
			}
			b.WriteByte(']')
		case *jsonx.Obj:
			s := jsonx.SortKeys(x).(*jsonx.Obj)
			b.WriteByte('{')
			first := true
			for i, k := range s.Keys {
				if top && strings.HasPrefix(k, "__") {
					continue
				}
				if !first {
					b.WriteByte(',')
				}
				first = false
				b.WriteString(strconv.Quote(k))
				b.WriteByte(':')
				w(s.Vals[i], false)
			}
			b.WriteByte('}')
		}
	}
	w(v, top)
	return b.String()
}

func seed(parts ...string) *rng {
	h := fnv.New64a()
	for _, p := range parts {
		h.Write([]byte(p))
		h.Write([]byte{0})
	}
	return &rng{s: h.Sum64()}
}

// keys of typed maps produced by stages: mostly tame, some that need
// escaping in JSON, in directory names or in journal file names.
var outKeys = []string{"k0", "k1", "k2", "k3", "k4", "k0", "k1", "k2", "a.b", "x:y", "50%", "sp ace", "q\"t", "b\\s", "é", "%2E", "fork0", "nl\nx", "tab\t", ".u0123456789", "chnk1", "_", "-", "__MRO_MEM_GB__", "__MRO_ACCOUNT__"}

// nameSuffixes: string outputs double as file names (file runs write a file
// of that name); some need escaping in JSON - differently in different JSON
// writers - and all are legal file names.
var nameSuffixes = []string{"é", " b", "q\"t", "b\\s", "t\tb", "n\nl", "世界", "a'b", "<&>", "\U0001F600", "%41", "\\u00e9"}

func hostileSuffix(r *rng) string {
	if r.intn(4) != 0 {
		return ""
	}
	return nameSuffixes[r.intn(len(nameSuffixes))]
}

// Behaviour knobs, fixed per run (pure functions of the spec otherwise).
type Opts struct {
	// Salt perturbs every generated value (used by the reference model to
	// find out which jobs really depend on a producer's outputs).
	Salt string
	// ChunkChoices overrides the set of chunk counts a split may return.
	ChunkChoices []int
	// ArrayLens overrides the lengths of generated top-level arrays / maps.
	ArrayLens []int
	// FlipBools negates generated bool outputs.
	FlipBools bool
	// Files: untyped map outputs may carry string values (which file runs
	// turn into paths).
	Files bool
	// NullPct: percentage of positions (below the top level of bool outputs)
	// that become null.
	NullPct int
}

// outValue: the value of one output; a parameter marked NonEmpty (the
// collection a pipeline is mapped over, while that is excluded for a known
// finding) is never null and never empty.
func outValue(r *rng, u *mrogen.Universe, prog *mrogen.Program, p mrogen.Param, o *Opts) any {
	if p.NonEmpty {
		o2 := *o
		o2.NullPct = 0
		o2.ArrayLens = []int{1, 2, 3, 4}
		return genValue(r, u, prog, p.T, &o2, true)
	}
	return genValue(r, u, prog, p.T, o, true)
}

// genValue: deterministic conforming value of type ty.
func genValue(r *rng, u *mrogen.Universe, prog *mrogen.Program, ty mrogen.Ty, o *Opts, top bool) any {
	if !(top && ty == (mrogen.Ty{Base: "bool"})) && o.NullPct > 0 && r.intn(100) < o.NullPct {
		return nil
	}
	if el, ok := ty.Elem(); ok {
		// (lengths 4 and 5 only for the outermost collection: the size of an
		// output grows with the product over the levels, and martian refuses
		// to read outputs that do not fit its memory budget)
		n := []int{0, 1, 2, 2, 3, 3}[r.intn(6)]
		if top {
			n = []int{0, 1, 2, 2, 3, 3, 4, 5}[r.intn(8)]
		}
		if top && len(o.ArrayLens) > 0 {
			n = o.ArrayLens[r.intn(len(o.ArrayLens))]
		}
		if ty.IsArray() {
			a := make([]any, 0, n)
			for i := 0; i < n; i++ {
				a = append(a, genValue(r, u, prog, el, o, false))
			}
			return a
		}
		obj := jsonx.NewObj()
		for i := 0; i < n; i++ {
			k := outKeys[r.intn(len(outKeys))]
			if n > len(outKeys)/2 {
				k += strconv.Itoa(i) // many keys: keep them distinct
			}
			obj.Set(k, genValue(r, u, prog, el, o, false))
		}
		return obj
	}
	switch ty.Base {
	case "int":
		return json.Number(strconv.Itoa(r.intn(2000) - 1000))
	case "float":
		return json.Number(strconv.FormatFloat(float64(r.intn(4000)-2000)/8, 'f', -1, 64))
	case "bool":
		return (r.intn(2) == 0) != o.FlipBools
	case "string", "file", "path":
		return "s" + strconv.Itoa(r.intn(100000)) + hostileSuffix(r)
	case "map":
		obj := jsonx.NewObj()
		for i, n := 0, r.intn(3); i < n; i++ {
			obj.Set("m"+strconv.Itoa(r.intn(5)), json.Number(strconv.Itoa(r.intn(100))))
		}
		if o.Files && r.intn(2) == 0 {
			obj.Set("mp", "s"+strconv.Itoa(r.intn(100000)))
		}
		return obj
	}
	if u.IsFileType(ty.Base) {
		return "f" + strconv.Itoa(r.intn(100000)) + hostileSuffix(r)
	}
	var fields []mrogen.Field
	if s := u.Struct(ty.Base); s != nil {
		fields = s.Fields
	} else if prog != nil {
		_, outs, _ := prog.Callable(ty.Base)
		for _, p := range outs {
			fields = append(fields, mrogen.Field{Name: p.Name, T: p.T})
		}
	}
	obj := jsonx.NewObj()
	for _, f := range fields {
		obj.Set(f.Name, genValue(r, u, prog, f.T, o, false))
	}
	return obj
}

// Main computes the outputs of a non-splitting stage.
func Main(prog *mrogen.Program, st *mrogen.Stage, args *jsonx.Obj, o *Opts) *jsonx.Obj {
	h := o.Salt + canonForHash(args, true)
	out := jsonx.NewObj()
	for _, p := range st.Outs {
		out.Set(p.Name, outValue(seed(st.Name, "main", p.Name, h), prog.U, prog, p, o))
	}
	return out
}

// ChunkDef is one element of "chunks" in _stage_defs.
type StageDefs struct {
	Chunks []*jsonx.Obj
	Join   *jsonx.Obj
}

// SplitDefs computes the chunk definitions returned by the split phase.
func SplitDefs(prog *mrogen.Program, st *mrogen.Stage, args *jsonx.Obj, o *Opts) *StageDefs {
	h := o.Salt + canonForHash(args, true)
	r := seed(st.Name, "split", h)
	choices := []int{0, 1, 2, 2, 3, 3, 10, 11}
	if len(o.ChunkChoices) > 0 {
		choices = o.ChunkChoices
	}
	n := choices[r.intn(len(choices))]
	d := &StageDefs{Join: jsonx.NewObj()}
	for i := 0; i < n; i++ {
		c := jsonx.NewObj()
		for _, p := range st.ChunkIns {
			c.Set(p.Name, genValue(seed(st.Name, "split", p.Name, strconv.Itoa(i), h), prog.U, prog, p.T, o, false))
		}
		if r.intn(3) == 0 {
			c.Set("__mem_gb", json.Number("1"))
		}
		if r.intn(4) == 0 {
			c.Set("__threads", json.Number("1"))
		}
		d.Chunks = append(d.Chunks, c)
	}
	if r.intn(3) == 0 {
		d.Join.Set("__mem_gb", json.Number("1"))
	}
	return d
}

func (d *StageDefs) JSON() *jsonx.Obj {
	o := jsonx.NewObj()
	ch := make([]any, len(d.Chunks))
	for i, c := range d.Chunks {
		ch[i] = c
	}
	o.Set("chunks", ch)
	o.Set("join", d.Join)
	return o
}

// ChunkMain computes what a chunk of a splitting stage returns: every
// stage output and every chunk output.
func ChunkMain(prog *mrogen.Program, st *mrogen.Stage, args *jsonx.Obj, o *Opts) *jsonx.Obj {
	h := o.Salt + canonForHash(args, true)
	out := jsonx.NewObj()
	for _, p := range st.Outs {
		out.Set(p.Name, genValue(seed(st.Name, "chunk", p.Name, h), prog.U, prog, p.T, o, true))
	}
	for _, p := range st.ChunkOuts {
		out.Set(p.Name, genValue(seed(st.Name, "chunk", p.Name, h), prog.U, prog, p.T, o, false))
	}
	return out
}

// Join computes the final outputs from the arguments, the chunk
// definitions and the chunk outputs, in order.
func Join(prog *mrogen.Program, st *mrogen.Stage, args *jsonx.Obj, chunkDefs, chunkOuts []any, o *Opts) *jsonx.Obj {
	var defs, outs []any
	for _, d := range chunkDefs {
		if obj, ok := d.(*jsonx.Obj); ok {
			// strip reserved keys of each chunk def
			c := jsonx.NewObj()
			for i, k := range obj.Keys {
				if !strings.HasPrefix(k, "__") {
					c.Set(k, obj.Vals[i])
				}
			}
			defs = append(defs, c)
		} else {
			defs = append(defs, d)
		}
	}
	outs = append(outs, chunkOuts...)
	h := o.Salt + canonForHash(args, true) + "|" + canonForHash(defs, false) + "|" + canonForHash(outs, false)
	out := jsonx.NewObj()
	for _, p := range st.Outs {
		out.Set(p.Name, outValue(seed(st.Name, "join", p.Name, h), prog.U, prog, p, o))
	}
	return out
}

func nullishDeep(v any) bool {
	switch x := v.(type) {
	case nil:
		return true
	case []any:
		for _, e := range x {
			if !nullishDeep(e) {
				return false
			}
		}
		return true
	case *jsonx.Obj:
		for _, e := range x.Vals {
			if !nullishDeep(e) {
				return false
			}
		}
		return true
	}
	return false
}

// Canon is the canonical form used for hashing: numbers normalised, null /
// empty / all-null collections alike, top-level reserved keys dropped.
func Canon(v any) string { return canonForHash(v, true) }
