//go:build verif

// Package simrun is engine E1: it drives a real martian Pipestance
// in-process.  Jobs are not executed as processes: the verif-tagged
// VerifJobManager hands them to this package, which completes them when
// (and in the order) the caller decides, writing exactly the files a real
// job would write.
package simrun

import (
	"context"
	"encoding/json"
	"fmt"
	"hash/fnv"
	"os"
	"os/exec"
	"path/filepath"
	"regexp"
	"strconv"
	"strings"
	"sync"

	"github.com/martian-lang/martian/martian/core"
	"github.com/martian-lang/martian/martian/util"

	"verifharness/jsonx"
	"verifharness/mrogen"
	"verifharness/stagefn"
)

type nopWriter struct{}

func (nopWriter) Write(b []byte) (int, error)       { return len(b), nil }
func (nopWriter) WriteString(s string) (int, error) { return len(s), nil }

var quietOnce sync.Once

func Quiet() {
	quietOnce.Do(func() {
		if os.Getenv("VERIF_VERBOSE") != "" {
			return
		}
		util.LogTeeWriter(nopWriter{})
		util.SetPrintLogger(nopWriter{})
	})
}

// Job is one job submitted to the (virtual) job manager.
type Job struct {
	Seq       int
	VJ        *core.VerifJob
	Fqname    string
	CallPath  string // "PL1.ST0_A"
	ForkName  string // "fork0", "fork_ka", ...
	Phase     string // main | split | chunk | join
	Chunk     int
	MdPath    string
	FilesPath string
	RunFile   string
	Stage     *mrogen.Stage
	// what the job found when it started (after Options.Norm, if set)
	Args      *jsonx.Obj
	ChunkDefs []any
	ChunkOuts []any
	ReadErr   error
	// the same, exactly as read
	RawArgs      *jsonx.Obj
	RawChunkOuts []any
	// logical times
	SubmitT int
	FinishT int
	Done    bool
	// what it wrote
	Outs *jsonx.Obj
	// Started: _log has been written; Failed: how it was made to fail
	Started bool
	Failed  string
}

func (j *Job) String() string {
	s := j.CallPath + "." + j.ForkName + ":" + j.Phase
	if j.Phase == "chunk" {
		s += strconv.Itoa(j.Chunk)
	}
	return s
}

type Event struct {
	T    int
	Kind string // submit | finish | refresh | step | state
	Job  *Job
	Note string
}

type Options struct {
	VdrMode   core.VdrMode
	Cores     int
	MemGB     int
	StageOpts stagefn.Opts
	// Norm, if set, is applied to everything a job receives before the
	// stage function and the oracles see it (file runs: absolute paths
	// inside the pipestance -> the token the stage function generated).
	Norm func(v any) any
	// OnOuts, if set, may replace the outputs a job computed before they
	// are written (file runs: tokens -> paths of files written now).
	OnOuts func(j *Job, outs *jsonx.Obj) *jsonx.Obj
}

type Sim struct {
	Prog    *mrogen.Program
	Src     string
	Dir     string // pipestance directory
	Psid    string
	MroPath string
	rt      *core.Runtime
	PS      *core.Pipestance
	Opts    Options
	mu      sync.Mutex
	Jobs    []*Job
	Events  []Event
	clock   int
	Ended   []string // metadata paths for which endJob was called
}

func (s *Sim) tick() int { s.clock++; return s.clock }

var fqRe = regexp.MustCompile(`^ID\.[^.]+\.(.*)\.(fork[^.]*)(?:\.chnk(\d+))?$`)

// New writes the program to disk, creates the runtime and invokes the
// pipeline.  dir must not exist or be empty.
func New(prog *mrogen.Program, src string, dir string, opts Options) (*Sim, error) {
	Quiet()
	s := &Sim{Prog: prog, Src: src, Dir: filepath.Join(dir, "ps"), Psid: "sim", Opts: opts}
	if err := os.MkdirAll(dir, 0o755); err != nil {
		return nil, err
	}
	s.MroPath = filepath.Join(dir, "prog.mro")
	if err := os.WriteFile(s.MroPath, []byte(src), 0o644); err != nil {
		return nil, err
	}
	if err := s.newRuntime(); err != nil {
		return nil, err
	}
	ps, err := s.rt.InvokePipeline(src, s.MroPath, s.Psid, s.Dir, []string{dir}, "verif", nil, nil)
	if err != nil {
		return nil, err
	}
	s.PS = ps
	ps.LoadMetadata(context.Background())
	return s, nil
}

// one Runtime per (process, options): creating it scans /proc (process
// limits) which is expensive; the hooked job manager dispatches to the Sim
// that is current.
var (
	rtCache    = map[string]*core.Runtime{}
	currentSim *Sim
)

func (s *Sim) newRuntime() error {
	ro := core.DefaultRuntimeOptions()
	ro.VdrMode = s.Opts.VdrMode
	if ro.VdrMode == "" {
		ro.VdrMode = core.VdrRolling
	}
	ro.LocalCores = s.Opts.Cores
	if ro.LocalCores == 0 {
		ro.LocalCores = 4
	}
	ro.LocalMem = s.Opts.MemGB
	if ro.LocalMem == 0 {
		ro.LocalMem = 8
	}
	ro.SkipPreflight = false
	key := fmt.Sprintf("%s/%d/%d", ro.VdrMode, ro.LocalCores, ro.LocalMem)
	currentSim = s
	if rt := rtCache[key]; rt != nil {
		s.rt = rt
		return nil
	}
	rt, err := ro.NewRuntime()
	if err != nil {
		return fmt.Errorf("NewRuntime: %w", err)
	}
	rt.LocalJobManager.VerifDisableProcLimit()
	rt.JobManager = &core.VerifJobManager{
		Local:  rt.LocalJobManager,
		OnExec: func(vj *core.VerifJob) { currentSim.onExec(vj) },
		OnEnd: func(md *core.Metadata) {
			cs := currentSim
			cs.mu.Lock()
			cs.Ended = append(cs.Ended, md.MetadataFilePath("x"))
			cs.mu.Unlock()
		},
	}
	rtCache[key] = rt
	s.rt = rt
	return nil
}

func readJSON(path string) (any, error) {
	b, err := os.ReadFile(path)
	if err != nil {
		return nil, err
	}
	return jsonx.Parse(b)
}

func (s *Sim) onExec(vj *core.VerifJob) {
	s.mu.Lock()
	defer s.mu.Unlock()
	n := len(vj.Argv)
	j := &Job{Seq: len(s.Jobs), VJ: vj, Fqname: vj.Fqname, Chunk: -1}
	if n >= 4 {
		j.MdPath, j.FilesPath, j.RunFile = vj.Argv[n-3], vj.Argv[n-2], vj.Argv[n-1]
	}
	if m := fqRe.FindStringSubmatch(vj.Fqname); m != nil {
		j.CallPath, j.ForkName = m[1], m[2]
		if m[3] != "" {
			j.Chunk, _ = strconv.Atoi(m[3])
		}
	} else {
		j.ReadErr = fmt.Errorf("cannot parse job name %q", vj.Fqname)
	}
	// the stage is named by the last call id's callee: find it through the
	// stage code ("stagebin <NAME>").
	for i, a := range vj.Argv {
		if strings.HasSuffix(a, "stagebin") && i+1 < n {
			j.Stage = s.Prog.Stage(vj.Argv[i+1])
		}
	}
	switch vj.ShellName {
	case "split":
		j.Phase = "split"
	case "join":
		j.Phase = "join"
	default:
		if j.Stage != nil && j.Stage.Split {
			j.Phase = "chunk"
		} else {
			j.Phase = "main"
		}
	}
	// what the job sees when it starts
	if v, err := readJSON(filepath.Join(j.MdPath, "_args")); err != nil {
		j.ReadErr = err
	} else if o, ok := v.(*jsonx.Obj); ok {
		j.Args, j.RawArgs = o, o
		if s.Opts.Norm != nil {
			j.Args, _ = s.Opts.Norm(o).(*jsonx.Obj)
		}
	} else {
		j.ReadErr = fmt.Errorf("_args is not an object")
	}
	if j.Phase == "join" {
		if v, err := readJSON(filepath.Join(j.MdPath, "_chunk_defs")); err == nil {
			j.ChunkDefs, _ = v.([]any)
		} else {
			j.ReadErr = err
		}
		if v, err := readJSON(filepath.Join(j.MdPath, "_chunk_outs")); err == nil {
			j.ChunkOuts, _ = v.([]any)
			j.RawChunkOuts = j.ChunkOuts
			if s.Opts.Norm != nil {
				j.ChunkOuts, _ = s.Opts.Norm(j.ChunkOuts).([]any)
			}
		} else {
			j.ReadErr = err
		}
	}
	j.SubmitT = s.tick()
	s.Jobs = append(s.Jobs, j)
	s.Events = append(s.Events, Event{T: j.SubmitT, Kind: "submit", Job: j})
}

// Pending returns submitted, unfinished jobs in submission order.
func (s *Sim) Pending() []*Job {
	s.mu.Lock()
	defer s.mu.Unlock()
	var r []*Job
	for _, j := range s.Jobs {
		if !j.Done && j.Failed == "" {
			r = append(r, j)
		}
	}
	return r
}

func (s *Sim) Refresh() {
	s.PS.RefreshState(context.Background())
	s.Events = append(s.Events, Event{T: s.tick(), Kind: "refresh"})
}

func (s *Sim) Step() bool {
	ctx := context.Background()
	s.PS.CheckHeartbeats(ctx)
	p := s.PS.StepNodes(ctx)
	s.Events = append(s.Events, Event{T: s.tick(), Kind: "step", Note: strconv.FormatBool(p)})
	return p
}

func (s *Sim) State() core.MetadataState {
	return s.PS.GetState(context.Background())
}

func journalPrefix(phase string) string {
	switch phase {
	case "split":
		return "split_"
	case "join":
		return "join_"
	}
	return ""
}

func (s *Sim) journal(j *Job, name string) error {
	return os.WriteFile(j.RunFile+"."+journalPrefix(j.Phase)+name, []byte("t"), 0o644)
}

// Start marks the job as running the way the job monitor does (_log and
// its journal entry).
func (s *Sim) Start(j *Job) error {
	j.Started = true
	// the job manager removes the queue marker once the process is started
	os.Remove(filepath.Join(j.MdPath, "_queued_locally"))
	f, err := os.OpenFile(filepath.Join(j.MdPath, "_log"), os.O_WRONLY|os.O_CREATE|os.O_APPEND, 0o644)
	if err != nil {
		return err
	}
	f.Close()
	return s.journal(j, "log")
}

// Compute evaluates the stage function on what the job received.
func (s *Sim) Compute(j *Job) (*jsonx.Obj, error) {
	if j.Stage == nil {
		return nil, fmt.Errorf("job %s: unknown stage", j.Fqname)
	}
	if j.ReadErr != nil {
		return nil, fmt.Errorf("job %s: %v", j.Fqname, j.ReadErr)
	}
	o := &s.Opts.StageOpts
	switch j.Phase {
	case "main":
		return stagefn.Main(s.Prog, j.Stage, j.Args, o), nil
	case "split":
		return stagefn.SplitDefs(s.Prog, j.Stage, j.Args, o).JSON(), nil
	case "chunk":
		return stagefn.ChunkMain(s.Prog, j.Stage, j.Args, o), nil
	case "join":
		return stagefn.Join(s.Prog, j.Stage, j.Args, j.ChunkDefs, j.ChunkOuts, o), nil
	}
	return nil, fmt.Errorf("bad phase")
}

// WriteOuts writes _outs (or _stage_defs for a split).
func (s *Sim) WriteOuts(j *Job, outs *jsonx.Obj) error {
	name := "_outs"
	if j.Phase == "split" {
		name = "_stage_defs"
	}
	j.Outs = outs
	return os.WriteFile(filepath.Join(j.MdPath, name), jsonx.MarshalStyle(outs, OutsStyle(j.Identity())), 0o644)
}

// OutsStyle picks how a job serialises its outputs: stage code is written
// in any language, and different JSON writers spell the same value
// differently (Go: compact UTF-8; Python: ", " / ": " separators and \uXXXX
// for everything outside ASCII; PHP: "\/").  A pure function of the job.
func OutsStyle(identity string) *jsonx.Style {
	h := fnv.New32a()
	h.Write([]byte(identity))
	switch h.Sum32() % 5 {
	case 0, 1:
		return jsonx.PythonStyle
	case 2:
		return &jsonx.Style{EscapeSlash: true, ASCII: true}
	}
	return nil
}

// MarkComplete writes _complete and its journal entry.
func (s *Sim) MarkComplete(j *Job) error {
	if err := os.WriteFile(filepath.Join(j.MdPath, "_complete"), []byte("t"), 0o644); err != nil {
		return err
	}
	if err := s.journal(j, "complete"); err != nil {
		return err
	}
	s.mu.Lock()
	j.Done = true
	j.FinishT = s.tick()
	s.Events = append(s.Events, Event{T: j.FinishT, Kind: "finish", Job: j})
	s.mu.Unlock()
	return nil
}

// Finish runs a job to completion in one go.
func (s *Sim) Finish(j *Job) error {
	if err := s.Start(j); err != nil {
		return err
	}
	outs, err := s.Compute(j)
	if err != nil {
		return err
	}
	if s.Opts.OnOuts != nil {
		outs = s.Opts.OnOuts(j, outs)
	}
	if err := s.WriteOuts(j, outs); err != nil {
		return err
	}
	return s.MarkComplete(j)
}

// TopOuts reads <TOP>/fork0/_outs.
func (s *Sim) TopOuts() (*jsonx.Obj, error) {
	v, err := readJSON(filepath.Join(s.Dir, s.Prog.Top.Id, "fork0", "_outs"))
	if err != nil {
		return nil, err
	}
	o, ok := v.(*jsonx.Obj)
	if !ok {
		return nil, fmt.Errorf("top-level _outs is not an object")
	}
	return o, nil
}

// Cleanup performs what mrp does when the pipestance is complete.
func (s *Sim) Cleanup() {
	s.FinalVDR()
	s.PostProcess()
}

// FinalVDR is the first half of Cleanup: the final volatile data removal.
func (s *Sim) FinalVDR() *core.VDRKillReport {
	if s.rt.Config.VdrMode != core.VdrDisable {
		return s.PS.VDRKill()
	}
	return nil
}

// PostProcess is the second half of Cleanup.
func (s *Sim) PostProcess() {
	s.PS.PostProcess()
	s.PS.Unlock()
}

// FatalError returns the error text of a failed pipestance.
func (s *Sim) FatalError() string {
	_, _, _, log, kind, paths := s.PS.GetFatalError()
	return fmt.Sprintf("%s: %s (%s)", kind, log, strings.Join(paths, ","))
}

// Close releases the pipestance lock (best effort).
func (s *Sim) Close() {
	if s.PS != nil {
		s.PS.Unlock()
	}
}

// ---- interruption and faults -------------------------------------------------

// DeadPid returns the pid of a process that has already exited.
func DeadPid() int {
	cmd := exec.Command("/bin/true")
	if err := cmd.Start(); err != nil {
		return 1 << 22
	}
	pid := cmd.Process.Pid
	cmd.Wait()
	return pid
}

// StartWithPid marks the job as running the way the job monitor does: the
// pid is recorded in _jobinfo, then _log appears.
func (s *Sim) StartWithPid(j *Job, pid int) error {
	p := filepath.Join(j.MdPath, "_jobinfo")
	info := map[string]any{}
	if b, err := os.ReadFile(p); err == nil {
		json.Unmarshal(b, &info)
	}
	info["pid"] = pid
	b, _ := json.Marshal(info)
	if err := os.WriteFile(p, b, 0o644); err != nil {
		return err
	}
	j.Started = true
	return s.Start(j)
}

// Fail makes the job end the way a failing job does.
//
//	errors        _errors holds a message (what mrjob writes for a non-zero
//	              exit, a signal, or an error reported by the stage code)
//	assert        _assert holds a message
//	invalid-outs  _outs is cut off in the middle, _complete is written
//	raw:<json>    _outs (or _stage_defs for a split) holds the given text,
//	              _complete is written
func (s *Sim) Fail(j *Job, kind, msg string) error {
	if !j.Started {
		if err := s.Start(j); err != nil {
			return err
		}
	}
	write := func(name, content string) error {
		if err := os.WriteFile(filepath.Join(j.MdPath, "_"+name), []byte(content), 0o644); err != nil {
			return err
		}
		return s.journal(j, name)
	}
	outsName := "outs"
	if j.Phase == "split" {
		outsName = "stage_defs"
	}
	j.Failed = kind
	switch {
	case kind == "errors":
		return write("errors", msg)
	case kind == "assert":
		return write("assert", msg)
	case kind == "invalid-outs":
		outs, err := s.Compute(j)
		if err != nil {
			return err
		}
		b := jsonx.Marshal(outs)
		if err := os.WriteFile(filepath.Join(j.MdPath, "_"+outsName), b[:len(b)/2], 0o644); err != nil {
			return err
		}
		return write("complete", "t")
	case strings.HasPrefix(kind, "raw:"):
		if err := os.WriteFile(filepath.Join(j.MdPath, "_"+outsName), []byte(strings.TrimPrefix(kind, "raw:")), 0o644); err != nil {
			return err
		}
		return write("complete", "t")
	}
	return fmt.Errorf("unknown failure kind %q", kind)
}

// StaleFinish makes a job of a superseded attempt write its outputs, its
// completion marker and the journal entry, all under the names of the old
// attempt.  The job does not count as done for the harness.
func (s *Sim) StaleFinish(j *Job) error {
	outs, err := s.Compute(j)
	if err != nil {
		return err
	}
	os.MkdirAll(j.MdPath, 0o755)
	name := "_outs"
	if j.Phase == "split" {
		name = "_stage_defs"
	}
	if err := os.WriteFile(filepath.Join(j.MdPath, name), jsonx.Marshal(outs), 0o644); err != nil {
		return err
	}
	if err := os.WriteFile(filepath.Join(j.MdPath, "_complete"), []byte("t"), 0o644); err != nil {
		return err
	}
	os.MkdirAll(filepath.Dir(j.RunFile), 0o755)
	return s.journal(j, "complete")
}

// Reattach does what a restarted mrp does on an existing pipestance
// directory: a new Pipestance object is built from the same invocation,
// failed stages are reset and local jobs that are queued or whose process is
// gone are restarted.  The old Sim must not be used afterwards.
func Reattach(old *Sim) (*Sim, error) {
	s := &Sim{Prog: old.Prog, Src: old.Src, Dir: old.Dir, Psid: old.Psid, MroPath: old.MroPath, Opts: old.Opts}
	s.clock = old.clock
	if err := s.newRuntime(); err != nil {
		return nil, err
	}
	ctx := context.Background()
	ps, err := s.rt.ReattachToPipestance(s.Psid, s.Dir, s.Src, s.MroPath, []string{filepath.Dir(s.MroPath)}, "verif", nil, true, false, ctx)
	if err != nil {
		return nil, fmt.Errorf("reattach: %w", err)
	}
	s.PS = ps
	ps.LoadMetadata(ctx)
	if err := ps.Reset(); err != nil {
		return nil, fmt.Errorf("reset: %w", err)
	}
	if err := ps.RestartLocalJobs("local"); err != nil {
		return nil, fmt.Errorf("restart local jobs: %w", err)
	}
	return s, nil
}

// RemoveLock removes the pipestance lock the way an operator does after mrp
// was killed.
func (s *Sim) RemoveLock() error {
	return os.Remove(filepath.Join(s.Dir, "_lock"))
}

// Locked: does the lock file exist?
func (s *Sim) Locked() bool {
	_, err := os.Stat(filepath.Join(s.Dir, "_lock"))
	return err == nil
}

// Identity names a job independently of the attempt: call path, fork,
// phase and chunk index.
func (j *Job) Identity() string { return j.String() }
