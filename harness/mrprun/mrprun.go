// Package mrprun is engine E2: generated programs run under the real mrp,
// mrjob and a real stage binary (cmd/stagebin), as separate processes.
package mrprun

import (
	"encoding/json"
	"fmt"
	"os"
	"os/exec"
	"path/filepath"
	"sort"
	"strings"
	"syscall"
	"time"

	"verifharness/jsonx"
	"verifharness/mrogen"
	"verifharness/plan"
)

// Case is one pipestance directory with its program and plan.
type Case struct {
	Dir   string // case directory: prog.mro, plan.json, ledger/, ps/
	Mroot string // bin/{mrp,mrjob,stagebin}, jobmanagers/, adapters/
	Prog  *mrogen.Program
	Src   string
	Plan  *plan.Plan
	Runs  int
	// Wrap: command (and its arguments) the next mrp is started under.
	Wrap []string
}

// StraceKill is the wrapper that makes mrp (whichever of its threads gets
// there first) die from SIGKILL at its n-th file-system or write system call.
func StraceKill(n int) []string {
	return []string{"strace", "-f", "-qq", "-o", "/dev/null", "-e", "trace=%file,write",
		"-e", fmt.Sprintf("inject=%%file,write:signal=KILL:when=%d", n)}
}

// Record is one execution record written by stagebin.
type Record struct {
	Identity string          `json:"identity"`
	Stage    string          `json:"stage"`
	Phase    string          `json:"phase"`
	MdPath   string          `json:"md_path"`
	Pid      int             `json:"pid"`
	Start    int64           `json:"start_ns"`
	End      int64           `json:"end_ns"`
	Args     json.RawMessage `json:"args"`
	Outs     json.RawMessage `json:"outs"`
	Fault    string          `json:"fault"`
	Threads  float64         `json:"threads"`
	MemGB    float64         `json:"mem_gb"`
	Attempt  int             `json:"attempt"`
}

func New(prog *mrogen.Program, src, dir, mroot string, pl *plan.Plan) (*Case, error) {
	if err := os.MkdirAll(dir, 0o755); err != nil {
		return nil, err
	}
	c := &Case{Dir: dir, Mroot: mroot, Prog: prog, Src: src, Plan: pl}
	pl.Prog = plan.Strip(prog)
	pl.Ledger = filepath.Join(dir, "ledger")
	if err := os.WriteFile(filepath.Join(dir, "prog.mro"), []byte(src), 0o644); err != nil {
		return nil, err
	}
	for _, st := range prog.Stages {
		if st.SrcLang != "py" {
			continue
		}
		// a python stage module run through adapters/python/martian_shell.py
		modDir := filepath.Join(dir, st.SrcPath)
		if err := os.MkdirAll(modDir, 0o755); err != nil {
			return nil, err
		}
		code := strings.NewReplacer("@STAGEBIN@", filepath.Join(mroot, "bin", "stagebin"), "@STAGE@", st.Name).Replace(pyStageModule)
		if err := os.WriteFile(filepath.Join(modDir, "__init__.py"), []byte(code), 0o644); err != nil {
			return nil, err
		}
	}
	return c, pl.Write(dir)
}

// pyStageModule is the code of a python stage: it asks stagebin (the same
// stage function as everywhere else) what to return and hands that to the
// adapter, or fails the way the fault plan says.
const pyStageModule = `import json
import os
import signal
import subprocess

import martian

STAGEBIN = "@STAGEBIN@"
STAGE = "@STAGE@"


def _text(b):
    return b.decode("utf-8") if isinstance(b, bytes) else b


def _ask(phase):
    md = martian._INSTANCE.metadata
    env = dict(os.environ, STAGEBIN_PY="1")
    p = subprocess.run([STAGEBIN, STAGE, phase, _text(md.path), _text(md.files_path), "py"],
                       env=env, stdout=subprocess.PIPE)
    if p.returncode != 0:
        raise Exception("stagebin exited with %d" % p.returncode)
    res = json.loads(p.stdout.decode("utf-8"))
    fault = res.get("fault")
    if fault:
        kind = fault["kind"]
        if kind == "exit":
            os._exit(3)
        elif kind == "signal":
            os.kill(os.getpid(), signal.SIGKILL)
        elif kind == "assert":
            martian.exit(fault["text"])
        elif kind == "errpipe":
            raise ValueError(fault["text"])
        # (gates and delays have been acted out by stagebin already)
    return res["outs"]


def split(args):
    return _ask("split")


def main(args, outs):
    for k, v in _ask("main").items():
        setattr(outs, k, v)


def join(args, outs, chunk_defs, chunk_outs):
    for k, v in _ask("join").items():
        setattr(outs, k, v)
`

func (c *Case) PsDir() string { return filepath.Join(c.Dir, "ps") }

// Proc is a running mrp.
type Proc struct {
	Cmd     *exec.Cmd
	LogPath string
	done    chan struct{}
	err     error
}

// Start launches mrp on the case (a fresh start or a restart, mrp decides).
func (c *Case) Start(extra ...string) (*Proc, error) {
	c.Runs++
	logPath := filepath.Join(c.Dir, fmt.Sprintf("mrp.%d.log", c.Runs))
	logf, err := os.Create(logPath)
	if err != nil {
		return nil, err
	}
	args := []string{"prog.mro", "sim", "--psdir=" + c.PsDir(), "--disable-ui"}
	hasRetry, hasMode := false, false
	for _, a := range extra {
		if strings.HasPrefix(a, "--autoretry") {
			hasRetry = true
		}
		if strings.HasPrefix(a, "--jobmode") {
			hasMode = true
		}
	}
	if !hasMode {
		args = append(args, "--jobmode=local")
	}
	if !hasRetry {
		// (jobmanagers/retry.json sets a default of 2)
		args = append(args, "--autoretry=0")
	}
	args = append(args, extra...)
	cmd := exec.Command(filepath.Join(c.Mroot, "bin", "mrp"), args...)
	if len(c.Wrap) > 0 {
		// run mrp under a wrapper (strace with fault injection); used once
		w := append(append([]string{}, c.Wrap[1:]...), filepath.Join(c.Mroot, "bin", "mrp"))
		cmd = exec.Command(c.Wrap[0], append(w, args...)...)
		c.Wrap = nil
	}
	cmd.Dir = c.Dir
	cmd.Env = append(os.Environ(), "PATH="+filepath.Join(c.Mroot, "bin")+":"+os.Getenv("PATH"), "MROPATH="+c.Dir, "MROFLAGS=", "MRO_DISABLE_SYNTAX_CHECKS=")
	cmd.Stdout, cmd.Stderr = logf, logf
	cmd.SysProcAttr = &syscall.SysProcAttr{Setpgid: true}
	if err := cmd.Start(); err != nil {
		logf.Close()
		return nil, err
	}
	p := &Proc{Cmd: cmd, LogPath: logPath, done: make(chan struct{})}
	go func() {
		p.err = cmd.Wait()
		logf.Close()
		close(p.done)
	}()
	return p, nil
}

// Wait returns the exit status (-1: still running after the timeout, in
// which case the process group is killed; -2: killed by a signal).
func (p *Proc) Wait(timeout time.Duration) int {
	select {
	case <-p.done:
	case <-time.After(timeout):
		syscall.Kill(-p.Cmd.Process.Pid, syscall.SIGKILL)
		<-p.done
		return -1
	}
	if p.err == nil {
		return 0
	}
	if ee, ok := p.err.(*exec.ExitError); ok {
		if ws, ok := ee.Sys().(syscall.WaitStatus); ok && ws.Signaled() {
			return -2
		}
		return ee.ExitCode()
	}
	return -3
}

func (p *Proc) Running() bool {
	select {
	case <-p.done:
		return false
	default:
		return true
	}
}

func (p *Proc) Signal(sig syscall.Signal) error { return p.Cmd.Process.Signal(sig) }

// KillGroup kills mrp and everything it started.
func (p *Proc) KillGroup() { syscall.Kill(-p.Cmd.Process.Pid, syscall.SIGKILL) }

// WaitGroupGone waits until no process of mrp's process group is left (jobs
// that outlive a killed mrp die from the parent-death signal shortly after).
func (p *Proc) WaitGroupGone(timeout time.Duration) bool {
	deadline := time.Now().Add(timeout)
	for time.Now().Before(deadline) {
		if err := syscall.Kill(-p.Cmd.Process.Pid, 0); err == syscall.ESRCH {
			return true
		}
		time.Sleep(5 * time.Millisecond)
	}
	return false
}

func (p *Proc) Log() string {
	b, _ := os.ReadFile(p.LogPath)
	return string(b)
}

// Ledger reads all execution records (latest state per attempt), ordered by
// start time.
func (c *Case) Ledger() []*Record {
	files, _ := filepath.Glob(filepath.Join(c.Plan.Ledger, "*.json"))
	var r []*Record
	for _, f := range files {
		b, err := os.ReadFile(f)
		if err != nil {
			continue
		}
		if strings.HasPrefix(filepath.Base(f), "files.") {
			continue
		}
		var rec Record
		if json.Unmarshal(b, &rec) == nil && rec.Identity != "" {
			r = append(r, &rec)
		}
	}
	sort.Slice(r, func(i, j int) bool { return r[i].Start < r[j].Start })
	return r
}

// TopOuts reads <ps>/<TOP>/fork0/_outs.
func (c *Case) TopOuts() (*jsonx.Obj, error) {
	b, err := os.ReadFile(filepath.Join(c.PsDir(), c.Prog.Top.Id, "fork0", "_outs"))
	if err != nil {
		return nil, err
	}
	v, err := jsonx.Parse(b)
	if err != nil {
		return nil, err
	}
	o, ok := v.(*jsonx.Obj)
	if !ok {
		return nil, fmt.Errorf("top-level _outs is not an object")
	}
	return o, nil
}

func (c *Case) Locked() bool {
	_, err := os.Stat(filepath.Join(c.PsDir(), "_lock"))
	return err == nil
}

// Completed lists the identities of jobs whose _complete marker exists.
func (c *Case) Completed() map[string]bool {
	r := map[string]bool{}
	filepath.Walk(c.PsDir(), func(p string, fi os.FileInfo, err error) error {
		if err != nil || fi.Name() != "_complete" {
			return nil
		}
		d := filepath.Dir(p)
		base := filepath.Base(d)
		if i := strings.Index(base, "-u"); i >= 0 {
			base = base[:i]
		}
		switch {
		case base == "split":
			r[plan.Identity(c.Dir, d, "split")] = true
		case base == "join":
			r[plan.Identity(c.Dir, d, "join")] = true
		case strings.HasPrefix(base, "chnk"):
			r[plan.Identity(c.Dir, d, "main")] = true
		}
		return nil
	})
	return r
}
