// Package stats collects per-property case classification inside a test
// binary and writes it to $VERIF_STATS_OUT so that the driver can merge the
// shards into an evidence file.  Counting is done by the property functions
// themselves (measured, never derived).
package stats

import (
	"bytes"
	"encoding/json"
	"fmt"
	"hash/fnv"
	"os"
	"path/filepath"
	"sort"
	"strings"
	"sync"
)

type propStats struct {
	Evaluations int64            `json:"evaluations"`
	Nontrivial  int64            `json:"nontrivial"`
	Digests     map[uint64]bool  `json:"-"`
	DigestList  []uint64         `json:"digests"`
	Classes     map[string]int64 `json:"classes"`
	Counters    map[string]int64 `json:"counters"`
	Samples     []any            `json:"samples"`
	sampleAt    int64
}

var (
	mu    sync.Mutex
	props = map[string]*propStats{}
)

func get(prop string) *propStats {
	p := props[prop]
	if p == nil {
		p = &propStats{
			Digests:  map[uint64]bool{},
			Classes:  map[string]int64{},
			Counters: map[string]int64{},
			sampleAt: 1,
		}
		props[prop] = p
	}
	return p
}

// Digest hashes the printed form of its arguments.
func Digest(parts ...any) uint64 {
	h := fnv.New64a()
	for _, p := range parts {
		switch v := p.(type) {
		case string:
			h.Write([]byte(v))
		case []byte:
			h.Write(v)
		default:
			fmt.Fprint(h, v)
		}
		h.Write([]byte{0})
	}
	return h.Sum64()
}

const maxDigests = 400000

// Case records one evaluated case.  sample is called lazily (only when the
// case is retained as a sample): at non-trivial evaluation counts 1, 2, 4,
// 8 ... so that samples spread over the run.
func Case(prop string, nontrivial bool, digest uint64, classes []string, sample func() any) {
	mu.Lock()
	defer mu.Unlock()
	p := get(prop)
	p.Evaluations++
	for _, c := range classes {
		p.Classes[c]++
	}
	if !nontrivial {
		p.Classes["trivial"]++
		return
	}
	p.Nontrivial++
	if len(p.Digests) < maxDigests {
		p.Digests[digest] = true
	} else {
		p.Counters["digest_set_saturated"]++
	}
	if sample != nil && p.Nontrivial >= p.sampleAt && len(p.Samples) < 12 {
		p.sampleAt *= 4
		p.Samples = append(p.Samples, sample())
	}
}

// Count adds to a free-form counter (rejections, exclusions, inconclusive…).
func Count(prop, counter string, n int64) {
	mu.Lock()
	defer mu.Unlock()
	get(prop).Counters[counter] += n
}

// Flush writes everything collected to $VERIF_STATS_OUT (if set).
func Flush() {
	out := os.Getenv("VERIF_STATS_OUT")
	if out == "" {
		return
	}
	mu.Lock()
	defer mu.Unlock()
	for _, p := range props {
		p.DigestList = p.DigestList[:0]
		for d := range p.Digests {
			p.DigestList = append(p.DigestList, d)
		}
		sort.Slice(p.DigestList, func(i, j int) bool { return p.DigestList[i] < p.DigestList[j] })
	}
	b, err := json.Marshal(props)
	if err != nil {
		fmt.Fprintln(os.Stderr, "stats: marshal:", err)
		return
	}
	if err := os.WriteFile(out, b, 0o644); err != nil {
		fmt.Fprintln(os.Stderr, "stats: write:", err)
	}
}

// Trunc shortens a string for use in a sample.
func Trunc(s string, n int) string {
	if len(s) <= n {
		return s
	}
	return s[:n] + fmt.Sprintf("…(+%d bytes)", len(s)-n)
}

// Known reports whether a root-cause key is listed as a known (unrepaired)
// finding for this run; the driver passes the keys in $VERIF_KNOWN.
func Known(key string) bool {
	for _, k := range strings.Split(os.Getenv("VERIF_KNOWN"), ",") {
		if k == key {
			return true
		}
	}
	return false
}

// Tier is "quick" or "thorough".
func Tier() string {
	if t := os.Getenv("VERIF_TIER"); t != "" {
		return t
	}
	return "quick"
}

// Inflight records the case that is about to be handed to code which may
// kill the process in a way no recover() can catch (Go's "fatal error: stack
// overflow", concurrent map writes, ...).  If the process dies the driver
// finds the file, reports the key on its first line as the violation and
// keeps the file as the replay; InflightDone removes it.
func Inflight(key string, payload []byte) {
	dir := os.Getenv("VERIF_WORK")
	if dir == "" {
		dir = os.TempDir()
	}
	os.MkdirAll(dir, 0o755)
	buf := append([]byte("VKEY="+key+"\n"), payload...)
	os.WriteFile(filepath.Join(dir, "inflight.input"), buf, 0o644)
}

func InflightDone() {
	dir := os.Getenv("VERIF_WORK")
	if dir == "" {
		dir = os.TempDir()
	}
	os.Remove(filepath.Join(dir, "inflight.input"))
}

// InflightReplay returns the payload of a saved in-flight case when the
// driver asks for its replay (VERIF_INFLIGHT), else nil.
func InflightReplay() []byte {
	p := os.Getenv("VERIF_INFLIGHT")
	if p == "" {
		return nil
	}
	b, err := os.ReadFile(p)
	if err != nil {
		return nil
	}
	if i := bytes.IndexByte(b, '\n'); i >= 0 && bytes.HasPrefix(b, []byte("VKEY=")) {
		return b[i+1:]
	}
	return b
}
