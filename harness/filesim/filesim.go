//go:build verif

// Package filesim turns the token values the stage function generates for
// file-ish outputs into real files under the job's files directory, keeps a
// ledger of everything a job wrote, and derives - independently of
// martian/core/post_process.go - where a top-level file output has to end up
// under outs/.
package filesim

import (
	"fmt"
	"hash/fnv"
	"os"
	"path/filepath"
	"sort"
	"strconv"
	"strings"

	"verifharness/jsonx"
	"verifharness/mrogen"
	"verifharness/simrun"
)

// Entry is one thing a job wrote (or, for Written == false, a path it
// returned without writing anything).
type Entry struct {
	Path    string
	IsDir   bool
	IsLink  bool // a (relative) symbolic link to another entry of the same job
	Size    int64 // lstat size right after the job wrote everything
	Content string
	Written bool
	Kind    string // out | inside-dir | extra | tmp
	Token   string
	Job     *simrun.Job `json:"-"`
	Param   string      // output parameter the value sits in (Kind out)
	// AlsoIn: further output parameters of the same job that name the same
	// path (two outputs may draw the same token)
	AlsoIn []string
	// who wrote it, in a form that survives the process (engine E2)
	JobName  string // identity of the job
	CallPath string
	Phase    string
	Split    bool // the stage splits
}

type Ledger struct {
	Root    string // pipestance directory
	Entries map[string]*Entry
	Order   []*Entry
	// NeverWrittenPct etc. are fixed by construction (hash of the token).
}

func New(root string) *Ledger {
	return &Ledger{Root: root, Entries: map[string]*Entry{}}
}

func hash(s string) uint32 {
	h := fnv.New32a()
	h.Write([]byte(s))
	return h.Sum32()
}

// ContentFor is the content of the file written for a token.
func ContentFor(token string) string {
	return token + ":" + strings.Repeat("x", int(hash(token)%97))
}

// Norm maps absolute paths inside the pipestance back to tokens.
func (l *Ledger) Norm(v any) any {
	prefix := l.Root + "/"
	switch x := v.(type) {
	case string:
		if strings.HasPrefix(x, prefix) {
			return filepath.Base(x)
		}
		return x
	case []any:
		r := make([]any, len(x))
		for i, e := range x {
			r[i] = l.Norm(e)
		}
		return r
	case *jsonx.Obj:
		r := jsonx.NewObj()
		for i, k := range x.Keys {
			r.Set(k, l.Norm(x.Vals[i]))
		}
		return r
	}
	return v
}

func (l *Ledger) add(e *Entry) {
	if e.Job != nil && e.JobName == "" {
		e.JobName, e.CallPath, e.Phase = e.Job.String(), e.Job.CallPath, e.Job.Phase
		e.Split = e.Job.Stage != nil && e.Job.Stage.Split
	}
	if old := l.Entries[e.Path]; old != nil {
		// two outputs of one job drew the same token: one file
		if e.Param != "" && e.Param != old.Param {
			old.AlsoIn = append(old.AlsoIn, e.Param)
		}
		return
	}
	l.Entries[e.Path] = e
	l.Order = append(l.Order, e)
}

func (l *Ledger) writeFile(j *simrun.Job, path, token, kind, param string) error {
	if old := l.Entries[path]; old != nil {
		if param != "" && param != old.Param {
			old.AlsoIn = append(old.AlsoIn, param)
		}
		return nil
	}
	if err := os.MkdirAll(filepath.Dir(path), 0o755); err != nil {
		return err
	}
	c := ContentFor(token)
	if err := os.WriteFile(path, []byte(c), 0o644); err != nil {
		return err
	}
	l.add(&Entry{Path: path, Content: c, Written: true, Kind: kind, Token: token, Job: j, Param: param})
	return nil
}

// LeafKind says what the token of a file-ish output position becomes (a pure
// function of the declared base type and the token): "plain" (stays a
// string), "never" (a path is returned but nothing is written), "dir", "link",
// "chain" (a link to a link in a sub-directory), "file".
func LeafKind(base, token string) string {
	h := hash(token)
	switch {
	case base == "string" || base == "map":
		if h%3 != 0 {
			return "plain"
		}
		return "file"
	case base == "path" && h%2 == 0 && h%13 != 0:
		return "dir"
	case h%13 == 0:
		return "never"
	case h%14 == 1:
		return "chain"
	case h%7 == 1:
		return "link"
	}
	return "file"
}

// leaf decides what a token in a file-ish position becomes.
func (l *Ledger) leaf(j *simrun.Job, base, token, param string, isFileType bool) (any, error) {
	h := hash(token)
	p := filepath.Join(j.FilesPath, token)
	if old := l.Entries[p]; old != nil && param != "" && param != old.Param {
		old.AlsoIn = append(old.AlsoIn, param)
		for _, e := range l.Order {
			// (the files behind a link or inside a directory output)
			if e != old && e.Token == old.Token && e.Job == old.Job {
				e.AlsoIn = append(e.AlsoIn, param)
			}
		}
	}
	switch {
	case base == "string" || base == "map":
		// a string (or a string inside an untyped map) that happens to be
		// the path of a file the stage wrote
		if h%3 != 0 {
			return token, nil
		}
		return p, l.writeFile(j, p, token, "out", param)
	case base == "path" && h%2 == 0 && h%13 != 0:
		if l.Entries[p] == nil {
			if err := os.MkdirAll(p, 0o755); err != nil {
				return nil, err
			}
			l.add(&Entry{Path: p, IsDir: true, Written: true, Kind: "out", Token: token, Job: j, Param: param})
			if err := l.writeFile(j, filepath.Join(p, "part0"), token+"/part0", "inside-dir", param); err != nil {
				return nil, err
			}
		}
		return p, nil
	case h%13 == 0:
		// returned but never written
		if l.Entries[p] == nil {
			l.add(&Entry{Path: p, Written: false, Kind: "out", Token: token, Job: j, Param: param})
		}
		return p, nil
	}
	if h%7 == 1 && l.Entries[p] == nil {
		// the output is a relative symbolic link (h%14 == 1: a chain of
		// two) to the file, which sits next to it
		real := p + ".real"
		if err := l.writeFile(j, real, token, "link-target", param); err != nil {
			return nil, err
		}
		target := filepath.Base(real)
		if h%14 == 1 {
			// the middle link sits one directory further down, so that
			// each hop has to be resolved relative to its own directory
			sub := p + ".d"
			if err := os.MkdirAll(sub, 0o755); err != nil {
				return nil, err
			}
			l.add(&Entry{Path: sub, IsDir: true, Written: true, Kind: "link-target", Token: token, Job: j, Param: param})
			mid := filepath.Join(sub, "l2")
			if err := os.Symlink(filepath.Join("..", target), mid); err != nil {
				return nil, err
			}
			l.add(&Entry{Path: mid, IsLink: true, Content: ContentFor(token), Written: true, Kind: "link-target", Token: token, Job: j, Param: param})
			target = filepath.Join(filepath.Base(sub), "l2")
		}
		if err := os.Symlink(target, p); err != nil {
			return nil, err
		}
		l.add(&Entry{Path: p, IsLink: true, Content: ContentFor(token), Written: true, Kind: "out", Token: token, Job: j, Param: param})
		return p, nil
	}
	return p, l.writeFile(j, p, token, "out", param)
}

type structFields func(base string) []mrogen.Field

func (l *Ledger) walk(j *simrun.Job, prog *mrogen.Program, ty mrogen.Ty, v any, param string) (any, error) {
	if v == nil {
		return nil, nil
	}
	if el, ok := ty.Elem(); ok {
		if ty.IsArray() {
			a, ok := v.([]any)
			if !ok {
				return v, nil
			}
			r := make([]any, len(a))
			for i, e := range a {
				x, err := l.walk(j, prog, el, e, param)
				if err != nil {
					return nil, err
				}
				r[i] = x
			}
			return r, nil
		}
		o, ok := v.(*jsonx.Obj)
		if !ok {
			return v, nil
		}
		r := jsonx.NewObj()
		for i, k := range o.Keys {
			x, err := l.walk(j, prog, el, o.Vals[i], param)
			if err != nil {
				return nil, err
			}
			r.Set(k, x)
		}
		return r, nil
	}
	u := prog.U
	switch ty.Base {
	case "int", "float", "bool":
		return v, nil
	case "string", "file", "path":
		if s, ok := v.(string); ok {
			return l.leaf(j, ty.Base, s, param, false)
		}
		return v, nil
	case "map":
		o, ok := v.(*jsonx.Obj)
		if !ok {
			return v, nil
		}
		r := jsonx.NewObj()
		for i, k := range o.Keys {
			if s, ok := o.Vals[i].(string); ok {
				x, err := l.leaf(j, "map", s, param, false)
				if err != nil {
					return nil, err
				}
				r.Set(k, x)
			} else {
				r.Set(k, o.Vals[i])
			}
		}
		return r, nil
	}
	if u.IsFileType(ty.Base) {
		if s, ok := v.(string); ok {
			return l.leaf(j, ty.Base, s, param, true)
		}
		return v, nil
	}
	var fields []mrogen.Field
	if s := u.Struct(ty.Base); s != nil {
		fields = s.Fields
	} else {
		_, outs, _ := prog.Callable(ty.Base)
		for _, p := range outs {
			fields = append(fields, mrogen.Field{Name: p.Name, T: p.T})
		}
	}
	o, ok := v.(*jsonx.Obj)
	if !ok {
		return v, nil
	}
	r := jsonx.NewObj()
	for i, k := range o.Keys {
		var ft *mrogen.Ty
		for _, f := range fields {
			if f.Name == k {
				t := f.T
				ft = &t
			}
		}
		if ft == nil {
			r.Set(k, o.Vals[i])
			continue
		}
		x, err := l.walk(j, prog, *ft, o.Vals[i], param)
		if err != nil {
			return nil, err
		}
		r.Set(k, x)
	}
	return r, nil
}

// Materialise writes the files a job's outputs name, some files no output
// names and some temporary files, and returns the outputs with tokens
// replaced by paths.
func (l *Ledger) Materialise(j *simrun.Job, prog *mrogen.Program, outs *jsonx.Obj) (*jsonx.Obj, error) {
	// a new attempt of a job may get the directory name of the one that was
	// reset (same process, same second): what the reset wiped is forgotten,
	// so that the new attempt writes it again
	keep := l.Order[:0]
	for _, e := range l.Order {
		if (strings.HasPrefix(e.Path, j.FilesPath+"/") || strings.HasPrefix(e.Path, j.MdPath+"/")) && e.Job != j && !e.Exists() {
			delete(l.Entries, e.Path)
			continue
		}
		keep = append(keep, e)
	}
	l.Order = keep
	before := len(l.Order)
	res := outs
	if j.Phase != "split" && j.Stage != nil {
		params := append([]mrogen.Param{}, j.Stage.Outs...)
		if j.Phase == "chunk" {
			params = append(params, j.Stage.ChunkOuts...)
		}
		res = jsonx.NewObj()
		for i, k := range outs.Keys {
			var pt *mrogen.Ty
			for _, p := range params {
				if p.Name == k {
					t := p.T
					pt = &t
				}
			}
			if pt == nil {
				res.Set(k, outs.Vals[i])
				continue
			}
			x, err := l.walk(j, prog, *pt, outs.Vals[i], k)
			if err != nil {
				return nil, err
			}
			res.Set(k, x)
		}
	}
	id := j.Fqname + "/" + j.Phase + strconv.Itoa(j.Chunk)
	h := hash(id)
	for i := 0; i < int(h%3); i++ {
		tok := fmt.Sprintf("extra%d_%d", i, h%1000)
		if err := l.writeFile(j, filepath.Join(j.FilesPath, tok), tok, "extra", ""); err != nil {
			return nil, err
		}
	}
	for i := 0; i < int((h/3)%3); i++ {
		tok := fmt.Sprintf("tmp%d_%d", i, h%1000)
		if err := l.writeFile(j, filepath.Join(j.MdPath, "tmp", tok), tok, "tmp", ""); err != nil {
			return nil, err
		}
	}
	// sizes as the file system reports them now that the job is done
	for _, e := range l.Order[before:] {
		if e.Written {
			if fi, err := os.Lstat(e.Path); err == nil {
				e.Size = fi.Size()
			}
		}
	}
	return res, nil
}

// Check reports what is wrong with the file or directory of an entry: "" if
// it is there with the content the job wrote.
func (e *Entry) Check() string {
	if !e.Written {
		return ""
	}
	if e.IsDir {
		fi, err := os.Stat(e.Path)
		if err != nil {
			return "directory is gone: " + err.Error()
		}
		if !fi.IsDir() {
			return "is no longer a directory"
		}
		return ""
	}
	b, err := os.ReadFile(e.Path)
	if err != nil {
		return "file is gone: " + err.Error()
	}
	if string(b) != e.Content {
		return fmt.Sprintf("content changed: %q, written %q", b, e.Content)
	}
	return ""
}

// Exists: is anything at the entry's path (not following symlinks)?
func (e *Entry) Exists() bool {
	_, err := os.Lstat(e.Path)
	return err == nil
}

// Inside returns the ledger entries at or below a path.
func (l *Ledger) Inside(path string) []*Entry {
	var r []*Entry
	for _, e := range l.Order {
		if e.Path == path || strings.HasPrefix(e.Path, path+"/") {
			r = append(r, e)
		}
	}
	return r
}

// Paths collects every string in v that is the path of a ledger entry.
func (l *Ledger) Paths(v any, into map[string]*Entry) {
	switch x := v.(type) {
	case string:
		if e := l.Entries[x]; e != nil {
			into[x] = e
		}
	case []any:
		for _, e := range x {
			l.Paths(e, into)
		}
	case *jsonx.Obj:
		for _, e := range x.Vals {
			l.Paths(e, into)
		}
	}
}

// SortedPaths of a set.
func SortedPaths(m map[string]*Entry) []string {
	r := make([]string, 0, len(m))
	for p := range m {
		r = append(r, p)
	}
	sort.Strings(r)
	return r
}
