package mrogen

import (
	"encoding/json"
	"fmt"
	"strconv"
	"strings"

	"pgregory.net/rapid"

	"verifharness/jsonx"
)

// ValueCfg tunes value generation.
type ValueCfg struct {
	// NullPct is the percentage of positions that become null.
	NullPct int
	// MaxLen bounds collection sizes.
	MaxLen int
	// Depth budget for untyped maps.
	// PlainStrings restricts strings to a tame alphabet.
	PlainStrings bool
	// SafeKeys restricts typed-map keys to legal, tame file names.
	SafeKeys bool
	// IntegralFloatsForInt lets int positions receive tokens like 3.0 / 1e2.
	IntegralFloatsForInt bool
	// NoLongDigitFloats leaves out float tokens written as 20 or more plain
	// digits (exclusion for a known finding).
	NoLongDigitFloats bool
	// PlainNumbers restricts numbers to forms that survive float64
	// round trips (no huge exponents, ints within 2^53 for floats).
	PlainNumbers bool
}

var hostileInts = []string{
	"0", "-0", "1", "-1", "9", "10", "99", "100", "2147483647", "2147483648",
	"-2147483649", "4294967296", "9007199254740992", "9007199254740993",
	"-9007199254740993", "9223372036854775807", "-9223372036854775808",
	"1000000000000000000", "123456789012345678",
}

// RangeBoundaryTokens are number tokens at the ends of the int64 range.
var RangeBoundaryTokens = []string{
	"9223372036854775807", "9223372036854775808", "9223372036854775809", "-9223372036854775808", "-9223372036854775809",
	"9223372036854775807.0", "9223372036854775808.0", "-9223372036854775808.0", "9.223372036854775808e18", "-9.223372036854775808e18",
	"9.223372036854775807e18", "1e19", "-1e19", "18446744073709551615", "18446744073709551616", "9223372036854774784.0", "9223372036854776832",
	"4611686018427387904.0", "9007199254740993.0",
}

var hostileFloats = []string{
	"0.0", "-0.0", "1.5", "-2.25", "1e2", "1E2", "1e+2", "2.5e-3", "1e-7",
	"1.0", "3.00", "0.1", "123456789.125", "1e21", "1.7976931348623157e308",
	"5e-324", "1e15", "1e16", "123456789012345680000", "0.30000000000000004",
	"6.02214076e23", "-1e-10", "100.0", "4.0e0",
}

func GenIntToken(t *rapid.T, plain bool) string {
	if !plain && rapid.IntRange(0, 3).Draw(t, "hostileInt") == 0 {
		return rapid.SampledFrom(hostileInts).Draw(t, "intTok")
	}
	return strconv.FormatInt(rapid.Int64Range(-1000, 100000).Draw(t, "int"), 10)
}

// LongDigits reports a number token with >= 20 digits before any '.', 'e'.
func LongDigits(tok string) bool {
	n := 0
	for _, c := range strings.TrimPrefix(tok, "-") {
		if c < '0' || c > '9' {
			break
		}
		n++
	}
	return n >= 20
}

func GenFloatToken(t *rapid.T, plain bool) string {
	if plain {
		n := rapid.IntRange(-4000, 4000).Draw(t, "floatQ")
		return strconv.FormatFloat(float64(n)/8, 'f', -1, 64)
	}
	switch rapid.IntRange(0, 3).Draw(t, "floatKind") {
	case 0:
		return rapid.SampledFrom(hostileFloats).Draw(t, "floatTok")
	case 1:
		return GenIntToken(t, false)
	default:
		f := rapid.Float64Range(-1e6, 1e6).Draw(t, "float")
		return strconv.FormatFloat(f, 'g', -1, 64)
	}
}

// ('$' is left out: mrp expands environment variables in invocation source.)
var stringRunes = []rune("abcXYZ019 _-./\\\"'`%{}[]<>:,#\n\té世\U0001F600\u0001\u007f")

func GenString(t *rapid.T, plain bool) string {
	if plain {
		return rapid.StringMatching(`[a-z]{0,6}`).Draw(t, "str")
	}
	return rapid.StringOfN(rapid.RuneFrom(stringRunes), 0, 8, -1).Draw(t, "str")
}

// (the __MRO_..__ ones are parameters of the cluster job script templates;
// keys end up in directory names, hence in those scripts)
var keyPool = []string{"k", "a.b", "x/y", "50%", "sp ace", "über", "%2E", "fork0", "", "key\"q", "Z", "0", "10", "é",
	"__MRO_MEM_GB__", "__MRO_THREADS__", "m.__MRO_CMD__"}

func GenKey(t *rapid.T, safe bool) string {
	if safe {
		return rapid.StringMatching(`[a-z][a-z0-9_]{0,4}`).Draw(t, "key")
	}
	if rapid.Bool().Draw(t, "poolKey") {
		return rapid.SampledFrom(keyPool).Draw(t, "key")
	}
	return rapid.StringOfN(rapid.RuneFrom(stringRunes), 0, 5, -1).Draw(t, "key")
}

func distinctKeys(t *rapid.T, n int, safe bool) []string {
	seen := map[string]bool{}
	var r []string
	for tries := 0; len(r) < n && tries < 4*n+4; tries++ {
		k := GenKey(t, safe)
		if !seen[k] {
			seen[k] = true
			r = append(r, k)
		}
	}
	return r
}

// maxLeaves bounds one generated value: deeply nested collection types
// (eight levels of up to nine entries each) would otherwise, once in a
// million programs, give a literal of a gigabyte.
const maxLeaves = 3000

// GenValue draws a JSON value conforming to ty.
func (u *Universe) GenValue(t *rapid.T, ty Ty, cfg *ValueCfg) any {
	n := 0
	return u.genValue(t, ty, cfg, &n)
}

func (u *Universe) genValue(t *rapid.T, ty Ty, cfg *ValueCfg, leaves *int) any {
	*leaves++
	if cfg.NullPct > 0 && rapid.IntRange(0, 99).Draw(t, "null") < cfg.NullPct {
		return nil
	}
	maxLen := cfg.MaxLen
	if maxLen == 0 {
		maxLen = 3
	}
	if el, ok := ty.Elem(); ok {
		n := rapid.IntRange(0, maxLen).Draw(t, "len")
		if *leaves > maxLeaves {
			n = 0
		}
		if ty.IsArray() {
			arr := make([]any, 0, n)
			for i := 0; i < n; i++ {
				arr = append(arr, u.genValue(t, el, cfg, leaves))
			}
			return arr
		}
		o := jsonx.NewObj()
		for _, k := range distinctKeys(t, n, cfg.SafeKeys || u.IsFileish(el)) {
			o.Set(k, u.genValue(t, el, cfg, leaves))
		}
		return o
	}
	switch ty.Base {
	case "int":
		if cfg.IntegralFloatsForInt && rapid.IntRange(0, 2).Draw(t, "intAsFloat") == 0 {
			return json.Number(rapid.SampledFrom([]string{
				"1.0", "-3.0", "1e2", "2.5e1", "0.0", "-0.0", "1e18", "12345678.0", "4.0e0", "100E-2",
			}).Draw(t, "integralFloat"))
		}
		return json.Number(GenIntToken(t, cfg.PlainNumbers))
	case "float":
		tok := GenFloatToken(t, cfg.PlainNumbers)
		if cfg.NoLongDigitFloats && LongDigits(tok) {
			tok = "1.2345678901234568e20"
		}
		return json.Number(tok)
	case "bool":
		return rapid.Bool().Draw(t, "bool")
	case "string", "file", "path":
		return GenString(t, cfg.PlainStrings)
	case "map":
		return u.genUntyped(t, cfg, 2, true)
	}
	if u.IsFileType(ty.Base) {
		return GenString(t, cfg.PlainStrings)
	}
	if s := u.Struct(ty.Base); s != nil {
		o := jsonx.NewObj()
		fields := s.Fields
		if rapid.IntRange(0, 3).Draw(t, "permuteFields") == 0 {
			fields = rapid.Permutation(fields).Draw(t, "fieldOrder")
		}
		for _, f := range fields {
			o.Set(f.Name, u.genValue(t, f.T, cfg, leaves))
		}
		return o
	}
	panic("GenValue: unknown type " + ty.String())
}

// IsFileish reports whether values of the type name files or directories
// (typed maps of such types have their keys restricted to file names).
func (u *Universe) IsFileish(ty Ty) bool {
	switch ty.Base {
	case "file", "path":
		return true
	}
	if u.IsFileType(ty.Base) {
		return true
	}
	if s := u.Struct(ty.Base); s != nil {
		for _, f := range s.Fields {
			if u.IsFileish(f.T) {
				return true
			}
		}
	}
	return false
}

func (u *Universe) genUntyped(t *rapid.T, cfg *ValueCfg, depth int, mustObj bool) any {
	kind := 5
	if !mustObj {
		kind = rapid.IntRange(0, 6).Draw(t, "untypedKind")
		if depth <= 0 && kind >= 5 {
			kind = 0
		}
	}
	switch kind {
	case 0:
		return nil
	case 1:
		return rapid.Bool().Draw(t, "bool")
	case 2:
		return json.Number(GenIntToken(t, cfg.PlainNumbers))
	case 3:
		tok := GenFloatToken(t, cfg.PlainNumbers)
		if cfg.NoLongDigitFloats && LongDigits(tok) {
			tok = "1.2345678901234568e20"
		}
		return json.Number(tok)
	case 4:
		return GenString(t, cfg.PlainStrings)
	case 5:
		o := jsonx.NewObj()
		n := rapid.IntRange(0, 3).Draw(t, "len")
		for _, k := range distinctKeys(t, n, cfg.SafeKeys) {
			o.Set(k, u.genUntyped(t, cfg, depth-1, false))
		}
		return o
	default:
		n := rapid.IntRange(0, 3).Draw(t, "len")
		arr := make([]any, 0, n)
		for i := 0; i < n; i++ {
			arr = append(arr, u.genUntyped(t, cfg, depth-1, false))
		}
		return arr
	}
}

// GenAnyJSON draws an arbitrary JSON value.
func (u *Universe) GenAnyJSON(t *rapid.T, cfg *ValueCfg) any {
	return u.genUntyped(t, cfg, 3, false)
}

// Mutation describes a single near-miss edit.
type Mutation struct {
	Kind string
	Path string
}

// Mutate applies one near-miss edit at a random position of v and returns
// the edited copy.  The edit is drawn among those applicable to the node.
func Mutate(t *rapid.T, v any) (any, Mutation) {
	n := countNodes(v)
	target := rapid.IntRange(0, n-1).Draw(t, "mutPos")
	idx := 0
	mut := Mutation{}
	out := mutateAt(t, v, &idx, target, "$", &mut)
	return out, mut
}

func applicableMuts(v any) []string {
	switch x := v.(type) {
	case json.Number:
		r := []string{"num->string", "int->frac", "wrap-array", "null", "scalar->obj", "num->range-boundary", "num->range-boundary"}
		if _, err := strconv.ParseInt(string(x), 10, 64); err == nil && len(x) < 15 {
			r = append(r, "int->integral-float")
		}
		return r
	case bool:
		return []string{"bool->string", "wrap-array", "null", "scalar->obj"}
	case string:
		return []string{"string->number", "wrap-array", "null", "scalar->obj"}
	case []any:
		r := []string{"array->obj", "wrap-array", "null"}
		if len(x) > 0 {
			r = append(r, "unwrap")
		}
		return r
	case *jsonx.Obj:
		r := []string{"obj->array", "add-field", "wrap-array", "null"}
		if len(x.Keys) > 0 {
			r = append(r, "drop-field")
		}
		return r
	}
	return []string{"wrap-array", "scalar->obj"}
}

func countNodes(v any) int {
	switch x := v.(type) {
	case []any:
		n := 1
		for _, e := range x {
			n += countNodes(e)
		}
		return n
	case *jsonx.Obj:
		n := 1
		for _, e := range x.Vals {
			n += countNodes(e)
		}
		return n
	}
	return 1
}

func mutateAt(t *rapid.T, v any, idx *int, target int, path string, mut *Mutation) any {
	me := *idx
	*idx++
	if me == target {
		mut.Path = path
		mut.Kind = rapid.SampledFrom(applicableMuts(v)).Draw(t, "mutKind")
		return applyMut(v, mut.Kind, mut)
	}
	switch x := v.(type) {
	case []any:
		r := make([]any, len(x))
		for i, e := range x {
			r[i] = mutateAt(t, e, idx, target, fmt.Sprintf("%s[%d]", path, i), mut)
		}
		return r
	case *jsonx.Obj:
		o := jsonx.NewObj()
		for i, k := range x.Keys {
			o.Set(k, mutateAt(t, x.Vals[i], idx, target, path+"."+k, mut))
		}
		return o
	}
	return v
}

func applyMut(v any, kind string, mut *Mutation) any {
	switch kind {
	case "num->string":
		if n, ok := v.(json.Number); ok {
			return string(n)
		}
	case "int->frac":
		if _, ok := v.(json.Number); ok {
			return json.Number("1.5")
		}
	case "num->range-boundary":
		// integral values at and just beyond the ends of the int64 range,
		// written as integers and as floats.
		if n, ok := v.(json.Number); ok {
			toks := RangeBoundaryTokens
			h := 0
			for _, c := range []byte(n) {
				h = h*31 + int(c)
			}
			if h < 0 {
				h = -h
			}
			return json.Number(toks[h%len(toks)])
		}
	case "int->integral-float":
		if n, ok := v.(json.Number); ok {
			if _, err := strconv.ParseInt(string(n), 10, 64); err == nil && len(n) < 15 {
				return json.Number(string(n) + ".0")
			}
		}
	case "wrap-array":
		return []any{v}
	case "unwrap":
		if a, ok := v.([]any); ok && len(a) > 0 {
			return a[0]
		}
	case "obj->array":
		if o, ok := v.(*jsonx.Obj); ok {
			return append([]any{}, o.Vals...)
		}
	case "array->obj":
		if a, ok := v.([]any); ok {
			o := jsonx.NewObj()
			for i, e := range a {
				o.Set(strconv.Itoa(i), e)
			}
			return o
		}
	case "drop-field":
		if o, ok := v.(*jsonx.Obj); ok && len(o.Keys) > 0 {
			r := jsonx.NewObj()
			for i := 1; i < len(o.Keys); i++ {
				r.Set(o.Keys[i], o.Vals[i])
			}
			return r
		}
	case "add-field":
		if o, ok := v.(*jsonx.Obj); ok {
			r := jsonx.NewObj()
			for i := range o.Keys {
				r.Set(o.Keys[i], o.Vals[i])
			}
			r.Set("zz_extra", json.Number("7"))
			return r
		}
	case "bool->string":
		if b, ok := v.(bool); ok {
			return strconv.FormatBool(b)
		}
	case "string->number":
		if _, ok := v.(string); ok {
			return json.Number("42")
		}
	case "null":
		return nil
	case "scalar->obj":
		if _, ok := v.(*jsonx.Obj); !ok {
			o := jsonx.NewObj()
			o.Set("v", v)
			return o
		}
	}
	mut.Kind = "none(" + kind + ")"
	return v
}
