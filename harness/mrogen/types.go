// Package mrogen generates MRO type universes, values, programs and source
// text for the property tests.  All random choices are rapid draws.
package mrogen

import (
	"fmt"
	"sort"
	"strings"

	"pgregory.net/rapid"
)

// Ty mirrors the shape of MRO types: Base[]^Arr or map<Base[]^(Map-1)>[]^Arr.
type Ty struct {
	Base string
	Arr  int
	Map  int
}

func (t Ty) String() string {
	var b strings.Builder
	if t.Map > 0 {
		b.WriteString("map<")
	}
	b.WriteString(t.Base)
	if t.Map > 0 {
		b.WriteString(strings.Repeat("[]", t.Map-1))
		b.WriteString(">")
	}
	b.WriteString(strings.Repeat("[]", t.Arr))
	return b.String()
}

// Elem returns the element type of an array or typed map.
func (t Ty) Elem() (Ty, bool) {
	if t.Arr > 0 {
		return Ty{t.Base, t.Arr - 1, t.Map}, true
	}
	if t.Map > 0 {
		return Ty{t.Base, t.Map - 1, 0}, true
	}
	return t, false
}

func (t Ty) IsArray() bool    { return t.Arr > 0 }
func (t Ty) IsTypedMap() bool { return t.Arr == 0 && t.Map > 0 }
func (t Ty) IsScalar() bool   { return t.Arr == 0 && t.Map == 0 }
func (t Ty) ArrayOf() Ty      { return Ty{t.Base, t.Arr + 1, t.Map} }

// MapOf is only legal when t has no map dimension.
func (t Ty) MapOf() Ty { return Ty{t.Base, 0, t.Arr + 1} }

type Field struct {
	Name    string
	T       Ty
	Help    string
	OutName string
}

type Struct struct {
	Name   string
	Fields []Field
	// WiderOf names the struct this one was derived from by widening
	// (extra fields, member types replaced by assignable source types).
	WiderOf string
}

func (s *Struct) Field(name string) *Field {
	for i := range s.Fields {
		if s.Fields[i].Name == name {
			return &s.Fields[i]
		}
	}
	return nil
}

type Universe struct {
	FileTypes []string
	Structs   []*Struct
}

var Builtins = []string{"int", "float", "string", "bool", "map", "path", "file"}

func IsBuiltin(b string) bool {
	for _, x := range Builtins {
		if x == b {
			return true
		}
	}
	return false
}

func (u *Universe) IsFileType(b string) bool {
	for _, x := range u.FileTypes {
		if x == b {
			return true
		}
	}
	return false
}

func (u *Universe) Struct(name string) *Struct {
	for _, s := range u.Structs {
		if s.Name == name {
			return s
		}
	}
	return nil
}

// FileKind says whether values of the type are files: 2 = the type names
// files (file, path, user file types, or a struct / collection containing
// one), 1 = it may contain paths (string, untyped map, or a struct /
// collection of those), 0 = it cannot.
func (u *Universe) FileKind(ty Ty) int {
	return u.fileKindBase(ty.Base, 0)
}

func (u *Universe) fileKindBase(b string, depth int) int {
	switch b {
	case "file", "path":
		return 2
	case "string", "map":
		return 1
	case "int", "float", "bool":
		return 0
	}
	if u.IsFileType(b) {
		return 2
	}
	k := 0
	if s := u.Struct(b); s != nil && depth < 8 {
		for _, f := range s.Fields {
			if fk := u.fileKindBase(f.T.Base, depth+1); fk > k {
				k = fk
			}
		}
	}
	return k
}

// BaseNames returns every scalar type name of the universe.
func (u *Universe) BaseNames() []string {
	r := append([]string{}, Builtins...)
	r = append(r, u.FileTypes...)
	for _, s := range u.Structs {
		r = append(r, s.Name)
	}
	return r
}

// Decls renders the filetype and struct declarations as MRO source.
func (u *Universe) Decls() string {
	var b strings.Builder
	for _, f := range u.FileTypes {
		fmt.Fprintf(&b, "filetype %s;\n", f)
	}
	for _, s := range u.Structs {
		fmt.Fprintf(&b, "\nstruct %s(\n", s.Name)
		for _, f := range s.Fields {
			fmt.Fprintf(&b, "    %s %s", f.T, f.Name)
			if f.Help != "" || f.OutName != "" {
				fmt.Fprintf(&b, " %s", QuoteMro(f.Help))
			}
			if f.OutName != "" {
				fmt.Fprintf(&b, " %s", QuoteMro(f.OutName))
			}
			b.WriteString(",\n")
		}
		b.WriteString(")\n")
	}
	return b.String()
}

// QuoteMro quotes a string as an MRO string literal (JSON-style escapes).
func QuoteMro(s string) string {
	var b strings.Builder
	b.WriteByte('"')
	for _, r := range s {
		switch r {
		case '"':
			b.WriteString(`\"`)
		case '\\':
			b.WriteString(`\\`)
		case '\n':
			b.WriteString(`\n`)
		case '\t':
			b.WriteString(`\t`)
		case '\r':
			b.WriteString(`\r`)
		default:
			if r < 0x20 {
				fmt.Fprintf(&b, `\u%04x`, r)
			} else {
				b.WriteRune(r)
			}
		}
	}
	b.WriteByte('"')
	return b.String()
}

var fileTypePool = []string{"json", "txt", "bam", "csv", "h5"}
var fieldPool = []string{"a", "b", "c", "x", "y", "val", "name", "f_1", "items", "k9"}

type UniverseCfg struct {
	MaxStructs int
	MaxWider   int
	MaxFields  int
	// NoFiles removes file-ish types (file, path, user file types).
	NoFiles bool
}

func GenUniverse(t *rapid.T, cfg UniverseCfg) *Universe {
	u := &Universe{}
	if !cfg.NoFiles {
		nf := rapid.IntRange(0, 3).Draw(t, "nFileTypes")
		u.FileTypes = append(u.FileTypes, fileTypePool[:nf]...)
		// file type names may be dotted (filetype tar.gz;): one of them, now
		// and then
		if nf > 0 && rapid.IntRange(0, 2).Draw(t, "dottedFileType") == 0 {
			u.FileTypes[nf-1] = rapid.SampledFrom([]string{"tar.gz", "bam.bai", "a.b.c"}).Draw(t, "dottedName")
		}
	}
	if cfg.MaxFields == 0 {
		cfg.MaxFields = 4
	}
	ns := rapid.IntRange(1, max(1, cfg.MaxStructs)).Draw(t, "nStructs")
	for i := 0; i < ns; i++ {
		s := &Struct{Name: fmt.Sprintf("S%d", i)}
		nf := rapid.IntRange(1, cfg.MaxFields).Draw(t, "nFields")
		names := rapid.Permutation(fieldPool).Draw(t, "fieldNames")[:nf]
		for _, n := range names {
			s.Fields = append(s.Fields, Field{Name: n, T: u.GenType(t, cfg.NoFiles)})
		}
		u.Structs = append(u.Structs, s)
	}
	nw := rapid.IntRange(0, cfg.MaxWider).Draw(t, "nWider")
	for i := 0; i < nw; i++ {
		base := u.Structs[rapid.IntRange(0, len(u.Structs)-1).Draw(t, "widenWhich")]
		w := &Struct{Name: fmt.Sprintf("W%d", i), WiderOf: base.Name}
		for _, f := range base.Fields {
			w.Fields = append(w.Fields, Field{Name: f.Name, T: u.GenSourceType(t, f.T)})
		}
		extra := rapid.IntRange(0, 2).Draw(t, "extraFields")
		for j := 0; j < extra; j++ {
			w.Fields = append(w.Fields, Field{
				Name: fmt.Sprintf("extra%d_%d", i, j),
				T:    u.GenType(t, cfg.NoFiles),
			})
		}
		if rapid.Bool().Draw(t, "shuffleFields") {
			w.Fields = rapid.Permutation(w.Fields).Draw(t, "fieldOrder")
		}
		u.Structs = append(u.Structs, w)
	}
	return u
}

// GenType draws a type over the current universe (earlier structs only, so
// declarations are never recursive).
func (u *Universe) GenType(t *rapid.T, noFiles bool) Ty {
	var names []string
	for _, b := range u.BaseNames() {
		if noFiles && (b == "file" || b == "path" || u.IsFileType(b)) {
			continue
		}
		names = append(names, b)
	}
	base := rapid.SampledFrom(names).Draw(t, "base")
	ty := Ty{Base: base}
	switch rapid.IntRange(0, 9).Draw(t, "shape") {
	case 0, 1, 2, 3:
	case 4, 5:
		ty.Arr = 1
	case 6:
		ty.Arr = 2
	case 7:
		ty.Map = 1
	case 8:
		ty.Map = rapid.IntRange(2, 3).Draw(t, "mapDim")
	case 9:
		ty.Map = rapid.IntRange(1, 2).Draw(t, "mapDim")
		ty.Arr = 1
	}
	if ty.Base == "map" {
		// map<map> is not part of the grammar.
		ty.Map = 0
	}
	return ty
}

// widerStructs lists S itself and every struct directly derived from it by
// widening (assignability is not transitive: json <- string <- txt).
func (u *Universe) widerStructs(name string) []string {
	r := []string{name}
	for _, s := range u.Structs {
		if s.WiderOf == name {
			r = append(r, s.Name)
		}
	}
	return r
}

// sourceBases lists scalar type names whose values may be bound to a
// parameter of scalar type dst, following the language rules:
// int -> float, string <-> file types, file type -> file/string,
// struct -> struct with fewer fields, struct -> map.
func (u *Universe) sourceBases(dst string) []string {
	switch dst {
	case "float":
		return []string{"float", "int"}
	case "string":
		return append([]string{"string"}, u.FileTypes...)
	case "file":
		return append([]string{"file", "string"}, u.FileTypes...)
	case "path":
		return []string{"path", "string"}
	case "map":
		r := []string{"map"}
		for _, s := range u.Structs {
			r = append(r, s.Name)
		}
		return r
	case "int", "bool":
		return []string{dst}
	}
	if u.IsFileType(dst) {
		return []string{dst, "file", "string"}
	}
	if u.Struct(dst) != nil {
		return u.widerStructs(dst)
	}
	panic("unknown base " + dst)
}

// GenSourceType draws a type that the language rules say is assignable to
// dst (by construction).
func (u *Universe) GenSourceType(t *rapid.T, dst Ty) Ty {
	if rapid.IntRange(0, 2).Draw(t, "sameType") == 0 {
		return dst
	}
	if dst.Map == 0 && dst.Base == "map" && rapid.Bool().Draw(t, "typedMapForMap") {
		// map <- map<T[]..> at the innermost level, same array dims outside.
		inner := u.GenType(t, false)
		if inner.Base == "map" {
			inner.Base = "int"
		}
		if inner.Map == 0 {
			return Ty{Base: inner.Base, Arr: dst.Arr, Map: inner.Arr + 1}
		}
		return Ty{Base: inner.Base, Arr: dst.Arr, Map: inner.Map}
	}
	cands := u.sourceBases(dst.Base)
	b := rapid.SampledFrom(cands).Draw(t, "srcBase")
	return Ty{Base: b, Arr: dst.Arr, Map: dst.Map}
}

// AllTypes enumerates every type up to the given dims over the universe,
// in a deterministic order.
func (u *Universe) AllTypes(maxArr, maxMap int) []Ty {
	var r []Ty
	names := u.BaseNames()
	sort.Strings(names)
	for _, b := range names {
		for a := 0; a <= maxArr; a++ {
			for m := 0; m <= maxMap; m++ {
				r = append(r, Ty{b, a, m})
			}
		}
	}
	return r
}
