package mrogen

import (
	"encoding/json"
	"fmt"
	"sort"
	"strings"

	"verifharness/jsonx"
)

// ---- IR -------------------------------------------------------------------

type Param struct {
	Name    string
	T       Ty
	Help    string
	OutName string
	// Flag marks a bool pipeline input that feeds a disabled modifier:
	// callers bind it to values that are never null.
	Flag bool
	// NonEmpty marks a stage output that is never null or empty at run
	// time (honoured by the stage function).
	NonEmpty bool
	// SplitSrc marks a pipeline input that (transitively) is the collection
	// a map call inside the pipeline splits over.
	SplitSrc bool
}

type Resources struct {
	Threads  string // number token or ""
	MemGB    string
	VMemGB   string
	Special  string
	Volatile string // "", "strict", "false"
}

type Stage struct {
	Name      string
	Ins       []Param
	Outs      []Param
	Split     bool
	ChunkIns  []Param
	ChunkOuts []Param
	SrcLang   string // py | exec | comp
	SrcPath   string
	Res       *Resources
	Retain    []string
	Comment   string
}

type Expr interface{ isExpr() }

type (
	// Lit is a literal value of a known type (decides struct vs map form).
	Lit struct {
		V any
		T Ty
	}
	// Ref is self.Param(.Path...) when Call == "" and CALL(.Out(.Path...)) otherwise.
	Ref struct {
		Call string
		Out  string
		Path []string
	}
	ArrayLit  struct{ Elems []Expr }
	MapLit    struct {
		Keys []string
		Vals []Expr
	}
	StructLit struct {
		Fields []string
		Vals   []Expr
	}
	// Split marks a binding the call is mapped over.
	Split struct{ E Expr }
)

func (Lit) isExpr()       {}
func (Ref) isExpr()       {}
func (ArrayLit) isExpr()  {}
func (MapLit) isExpr()    {}
func (StructLit) isExpr() {}
func (Split) isExpr()     {}

type Binding struct {
	Param string
	E     Expr
}

type Call struct {
	Id        string // alias, or the callee's name
	Callee    string
	Mapped    bool
	Local     bool
	Preflight bool
	Volatile  bool
	Disabled  *Ref
	Bindings  []Binding
	Comment   string
	// WildcardSelf prints every binding of the form param = self.param as
	// the single wildcard binding "* = self" (same meaning).
	WildcardSelf bool
	// WildcardFrom prints every binding of the form param = <ref>.param
	// (a member of the struct value the reference names) as the single
	// wildcard binding "* = <ref>" (same meaning).
	WildcardFrom *Ref
}

type Pipeline struct {
	Name    string
	Ins     []Param
	Outs    []Param
	Calls   []*Call
	Ret     []Binding
	Retain  []Ref
	Comment string
}

type Program struct {
	U         *Universe
	Stages    []*Stage
	Pipelines []*Pipeline
	Top       *Call // top-level call (Id == Callee)
}

// FileKind is Universe.FileKind extended to the output structs of the
// program's stages and pipelines.
func (p *Program) FileKind(ty Ty) int {
	return p.fileKindBase(ty.Base, 0)
}

func (p *Program) fileKindBase(b string, depth int) int {
	if k := p.U.fileKindBase(b, depth); k > 0 || depth > 8 {
		return k
	}
	if p.U.Struct(b) != nil {
		// structs may have fields of callable struct type? (not generated)
		return 0
	}
	if p.Stage(b) == nil && p.Pipeline(b) == nil {
		return 0
	}
	_, outs, _ := p.Callable(b)
	k := 0
	for _, o := range outs {
		if fk := p.fileKindBase(o.T.Base, depth+1); fk > k {
			k = fk
		}
	}
	return k
}

func (p *Program) Stage(name string) *Stage {
	for _, s := range p.Stages {
		if s.Name == name {
			return s
		}
	}
	return nil
}

func (p *Program) Pipeline(name string) *Pipeline {
	for _, s := range p.Pipelines {
		if s.Name == name {
			return s
		}
	}
	return nil
}

// Callable returns (ins, outs, isStage).
func (p *Program) Callable(name string) ([]Param, []Param, bool) {
	if s := p.Stage(name); s != nil {
		return s.Ins, s.Outs, true
	}
	if pl := p.Pipeline(name); pl != nil {
		return pl.Ins, pl.Outs, false
	}
	panic("unknown callable " + name)
}

func (pl *Pipeline) Call(id string) *Call {
	for _, c := range pl.Calls {
		if c.Id == id {
			return c
		}
	}
	return nil
}

func FindParam(ps []Param, name string) *Param {
	for i := range ps {
		if ps[i].Name == name {
			return &ps[i]
		}
	}
	return nil
}

// ---- printer --------------------------------------------------------------

// Layout are the cosmetic degrees of freedom of the printer.  The zero
// value prints canonical-looking source.
type Layout struct {
	// Pick returns an int in [0,n) for a cosmetic choice point; nil => 0.
	Pick func(n int) int
	// Comments adds generated comments in front of declarations, params,
	// bindings, calls, returns and collection elements.
	Comments bool
	// OldModifiers prints "call local volatile X(...)" instead of using(...).
	OldModifiers bool
	// ShuffleCalls writes the calls of a pipeline in a drawn order (often
	// reversed) instead of dependency order.
	ShuffleCalls bool
	// CallOrder, when set, makes the choices of ShuffleCalls (instead of
	// Pick, which then stays free to be nil: nothing else varies).
	CallOrder func(n int) int
	// Dangling adds comments that are not followed by an element of their
	// scope (before a closing bracket).
	Dangling bool
}

type printer struct {
	// lines: first and last source line of every call, keyed "PIPELINE.CALL"
	// ("" pipeline for the top-level call).
	lines map[string][2]int
	b     strings.Builder
	lay *Layout
	u   *Universe
	nc  int
	nd  int
}

func (p *printer) pick(n int) int {
	if p.lay == nil || p.lay.Pick == nil || n <= 1 {
		return 0
	}
	return p.lay.Pick(n)
}

func (p *printer) comment(indent string) {
	if p.lay == nil || !p.lay.Comments {
		return
	}
	if p.pick(3) != 0 {
		return
	}
	p.nc++
	fmt.Fprintf(&p.b, "%s# c%d note\n", indent, p.nc)
}

// dangling emits a comment in front of a closing bracket.
func (p *printer) dangling(indent string) {
	if p.lay == nil || !p.lay.Dangling || p.pick(4) != 0 {
		return
	}
	p.nc++
	p.nd++
	fmt.Fprintf(&p.b, "%s# d%d dangling\n", indent, p.nc)
}

func (p *printer) ws() string {
	switch p.pick(4) {
	case 1:
		return "  "
	case 2:
		return "\t"
	}
	return " "
}

func (p *printer) nl(indent string) string {
	if p.pick(5) == 1 {
		return "\n\n" + indent
	}
	return "\n" + indent
}

func writeParams(p *printer, kind string, ps []Param, indent string) {
	for _, pa := range ps {
		p.comment(indent)
		if kind == "out" && pa.Name == "default" {
			// the unnamed ("default") output of the legacy syntax: out T,
			fmt.Fprintf(&p.b, "%s%s%s%s", indent, kind, p.ws(), pa.T)
		} else {
			fmt.Fprintf(&p.b, "%s%s%s%s%s%s", indent, kind, p.ws(), pa.T, p.ws(), pa.Name)
		}
		if pa.Help != "" || pa.OutName != "" {
			fmt.Fprintf(&p.b, "%s%s", p.ws(), QuoteMro(pa.Help))
		}
		if pa.OutName != "" {
			fmt.Fprintf(&p.b, "%s%s", p.ws(), QuoteMro(pa.OutName))
		}
		p.b.WriteString(",\n")
	}
}

// Source renders the whole program as one MRO file.
func (prog *Program) Source(lay *Layout) string {
	s, _ := prog.SourceLines(lay)
	return s
}

// SourceStats renders the program and reports how many comments were
// emitted in total and how many of them dangle.
func (prog *Program) SourceStats(lay *Layout) (src string, comments, dangling int) {
	p := &printer{lay: lay, u: prog.U, lines: map[string][2]int{}}
	prog.render(p)
	return p.b.String(), p.nc, p.nd
}

// SourceLines also returns the line span of every call.
func (prog *Program) SourceLines(lay *Layout) (string, map[string][2]int) {
	p := &printer{lay: lay, u: prog.U, lines: map[string][2]int{}}
	prog.render(p)
	return p.b.String(), p.lines
}

func (prog *Program) render(p *printer) {
	p.b.WriteString(prog.U.Decls())
	for _, s := range prog.Stages {
		p.b.WriteString("\n")
		p.printStage(s)
	}
	for _, pl := range prog.Pipelines {
		p.b.WriteString("\n")
		p.printPipeline(prog, pl)
	}
	if prog.Top != nil {
		p.b.WriteString("\n")
		p.printCall(prog, nil, prog.Top, "")
	}
}

// SourceFiles distributes the program over three files forming a diamond:
// main.mro includes pipes.mro and sub/types.mro; pipes.mro includes
// sub/types.mro.  Returns file name -> content; "main.mro" holds the call.
func (prog *Program) SourceFiles(lay *Layout) map[string]string {
	files := map[string]string{}
	p := &printer{lay: lay, u: prog.U}
	p.b.WriteString(prog.U.Decls())
	for _, s := range prog.Stages {
		p.b.WriteString("\n")
		p.printStage(s)
	}
	files["sub/types.mro"] = p.b.String()
	p = &printer{lay: lay, u: prog.U}
	p.b.WriteString("@include \"sub/types.mro\"\n")
	for _, pl := range prog.Pipelines {
		p.b.WriteString("\n")
		p.printPipeline(prog, pl)
	}
	files["pipes.mro"] = p.b.String()
	p = &printer{lay: lay, u: prog.U}
	p.b.WriteString("@include \"pipes.mro\"\n@include \"sub/types.mro\"\n\n")
	if prog.Top != nil {
		p.printCall(prog, nil, prog.Top, "")
	}
	files["main.mro"] = p.b.String()
	return files
}

// IsMemberOf: is r the member named field of the struct value w names?
func IsMemberOf(r, w Ref, field string) bool {
	if r.Call != w.Call {
		return false
	}
	full := append([]string{}, w.Path...)
	if w.Out == "" {
		// a whole call: CALL.field
		return r.Out == field && len(r.Path) == 0
	}
	full = append(full, field)
	if r.Out != w.Out || len(r.Path) != len(full) {
		return false
	}
	for i := range full {
		if r.Path[i] != full[i] {
			return false
		}
	}
	return true
}

// StageText / PipelinesAndCallText render parts of the program (for tests
// that lay the declarations out over files of their own choosing).
func (prog *Program) StageText(s *Stage, lay *Layout) string {
	p := &printer{lay: lay, u: prog.U}
	p.printStage(s)
	return p.b.String()
}

func (prog *Program) PipelinesAndCallText(lay *Layout) string {
	p := &printer{lay: lay, u: prog.U}
	for _, pl := range prog.Pipelines {
		p.b.WriteString("\n")
		p.printPipeline(prog, pl)
	}
	if prog.Top != nil {
		p.b.WriteString("\n")
		p.printCall(prog, nil, prog.Top, "")
	}
	return p.b.String()
}

func (p *printer) printStage(s *Stage) {
	if s.Comment != "" {
		fmt.Fprintf(&p.b, "# %s\n", s.Comment)
	}
	p.comment("")
	fmt.Fprintf(&p.b, "stage %s(\n", s.Name)
	writeParams(p, "in ", s.Ins, "    ")
	writeParams(p, "out", s.Outs, "    ")
	p.comment("    ")
	fmt.Fprintf(&p.b, "    src %s%s%s,\n", s.SrcLang, p.ws(), QuoteMro(s.SrcPath))
	p.dangling("    ")
	p.b.WriteString(")")
	if s.Split {
		if p.pick(2) == 1 {
			p.b.WriteString(" split using (\n")
		} else {
			p.b.WriteString(" split (\n")
		}
		writeParams(p, "in ", s.ChunkIns, "    ")
		writeParams(p, "out", s.ChunkOuts, "    ")
		p.b.WriteString(")")
	}
	if r := s.Res; r != nil {
		p.b.WriteString(" using (\n")
		if r.MemGB != "" {
			p.comment("    ")
			fmt.Fprintf(&p.b, "    mem_gb%s=%s%s,\n", p.ws(), p.ws(), r.MemGB)
		}
		if r.Threads != "" {
			p.comment("    ")
			fmt.Fprintf(&p.b, "    threads%s=%s%s,\n", p.ws(), p.ws(), r.Threads)
		}
		if r.VMemGB != "" {
			fmt.Fprintf(&p.b, "    vmem_gb%s=%s%s,\n", p.ws(), p.ws(), r.VMemGB)
		}
		if r.Special != "" {
			fmt.Fprintf(&p.b, "    special = %s,\n", QuoteMro(r.Special))
		}
		if r.Volatile != "" {
			fmt.Fprintf(&p.b, "    volatile = %s,\n", r.Volatile)
		}
		p.b.WriteString(")")
	}
	if len(s.Retain) > 0 {
		p.b.WriteString(" retain (\n")
		for _, r := range s.Retain {
			fmt.Fprintf(&p.b, "    %s,\n", r)
		}
		p.b.WriteString(")")
	}
	p.b.WriteString("\n")
}

func (p *printer) printPipeline(prog *Program, pl *Pipeline) {
	if pl.Comment != "" {
		fmt.Fprintf(&p.b, "# %s\n", pl.Comment)
	}
	p.comment("")
	fmt.Fprintf(&p.b, "pipeline %s(\n", pl.Name)
	writeParams(p, "in ", pl.Ins, "    ")
	writeParams(p, "out", pl.Outs, "    ")
	p.b.WriteString(")\n{\n")
	calls := pl.Calls
	if p.lay != nil && p.lay.ShuffleCalls && len(calls) > 1 {
		// calls may be written in any order (the compiler sorts them by
		// dependency): consumers before their producers, chains back to front
		calls = append([]*Call{}, calls...)
		pick := p.pick
		if p.lay.CallOrder != nil {
			pick = p.lay.CallOrder
		}
		if pick(3) == 0 {
			for i, j := 0, len(calls)-1; i < j; i, j = i+1, j-1 {
				calls[i], calls[j] = calls[j], calls[i]
			}
		} else {
			for i := len(calls) - 1; i > 0; i-- {
				j := pick(i + 1)
				calls[i], calls[j] = calls[j], calls[i]
			}
		}
	}
	for _, c := range calls {
		p.printCall(prog, pl, c, "    ")
		p.b.WriteString("\n")
	}
	p.comment("    ")
	p.b.WriteString("    return (\n")
	for _, b := range pl.Ret {
		p.comment("        ")
		fmt.Fprintf(&p.b, "        %s%s=%s", b.Param, p.ws(), p.ws())
		p.printExpr(b.E, "        ")
		p.b.WriteString(",\n")
	}
	p.b.WriteString("    )\n")
	if len(pl.Retain) > 0 {
		p.b.WriteString("\n    retain (\n")
		for _, r := range pl.Retain {
			p.b.WriteString("        ")
			p.printExpr(r, "        ")
			p.b.WriteString(",\n")
		}
		p.b.WriteString("    )\n")
	}
	p.b.WriteString("}\n")
}

func (p *printer) printCall(prog *Program, pl *Pipeline, c *Call, indent string) {
	start := strings.Count(p.b.String(), "\n") + 1
	defer func() {
		key := "." + c.Id
		if pl != nil {
			key = pl.Name + "." + c.Id
		}
		if p.lines != nil {
			p.lines[key] = [2]int{start, strings.Count(p.b.String(), "\n") + 1}
		}
	}()
	if c.Comment != "" {
		fmt.Fprintf(&p.b, "%s# %s\n", indent, c.Comment)
	}
	p.comment(indent)
	p.b.WriteString(indent)
	if c.Mapped {
		p.b.WriteString("map ")
	}
	p.b.WriteString("call ")
	// With OldModifiers each of local / preflight / volatile is written
	// either as a keyword in front of the callee or as "<mod> = true" in
	// the using block (a call may mix both forms).
	kwLocal, kwPreflight, kwVolatile := false, false, false
	if p.lay != nil && p.lay.OldModifiers {
		kwLocal = c.Local && p.pick(3) != 0
		kwPreflight = c.Preflight && p.pick(3) != 0
		kwVolatile = c.Volatile && p.pick(3) != 0
	}
	if kwLocal {
		p.b.WriteString("local ")
	}
	if kwPreflight {
		p.b.WriteString("preflight ")
	}
	if kwVolatile {
		p.b.WriteString("volatile ")
	}
	odds := 6
	if len(c.Bindings) == 0 {
		odds = 2 // (rare, and there is no binding the comment could go with)
	}
	if p.lay != nil && p.lay.Dangling && p.pick(odds) == 0 {
		// a comment between the keyword and its operand (counted with the
		// dangling ones: it does not precede an element of its scope)
		p.nc++
		p.nd++
		fmt.Fprintf(&p.b, "\n%s# k%d after the keyword\n%s", indent, p.nc, indent)
	}
	p.b.WriteString(c.Callee)
	if c.Id != c.Callee {
		fmt.Fprintf(&p.b, " as %s", c.Id)
	}
	p.b.WriteString("(\n")
	wild := false
	wildFrom := false
	for _, b := range c.Bindings {
		if r, ok := b.E.(Ref); ok && c.WildcardSelf && r.Call == "" && r.Out == b.Param && len(r.Path) == 0 {
			wild = true
			continue
		}
		if r, ok := b.E.(Ref); ok && c.WildcardFrom != nil && r.Call == c.WildcardFrom.Call && IsMemberOf(r, *c.WildcardFrom, b.Param) {
			wildFrom = true
			continue
		}
		p.comment(indent + "    ")
		fmt.Fprintf(&p.b, "%s    %s%s=%s", indent, b.Param, p.ws(), p.ws())
		p.printExpr(b.E, indent+"    ")
		p.b.WriteString(",\n")
	}
	if wild {
		p.comment(indent + "    ")
		fmt.Fprintf(&p.b, "%s    *%s=%sself,\n", indent, p.ws(), p.ws())
	} else if wildFrom {
		p.comment(indent + "    ")
		fmt.Fprintf(&p.b, "%s    *%s=%s", indent, p.ws(), p.ws())
		p.printExpr(*c.WildcardFrom, indent+"    ")
		p.b.WriteString(",\n")
	}
	p.dangling(indent + "    ")
	p.b.WriteString(indent + ")")
	var using []string
	if c.Disabled != nil {
		sub := &printer{lay: p.lay, u: p.u}
		sub.printExpr(*c.Disabled, indent+"    ")
		using = append(using, "disabled = "+sub.b.String())
	}
	if c.Local && !kwLocal {
		using = append(using, "local = true")
	}
	if c.Preflight && !kwPreflight {
		using = append(using, "preflight = true")
	}
	if c.Volatile && !kwVolatile {
		using = append(using, "volatile = true")
	}
	if len(using) > 0 {
		// any order of the entries
		for i := len(using) - 1; i > 0; i-- {
			j := p.pick(i + 1)
			using[i], using[j] = using[j], using[i]
		}
		p.b.WriteString(" using (\n")
		for _, u := range using {
			fmt.Fprintf(&p.b, "%s    %s,\n", indent, u)
		}
		p.b.WriteString(indent + ")")
	}
	p.b.WriteString("\n")
}

func (p *printer) printExpr(e Expr, indent string) {
	switch x := e.(type) {
	case Lit:
		p.printValue(x.V, x.T, indent)
	case Ref:
		if x.Call == "" {
			p.b.WriteString("self")
		} else {
			p.b.WriteString(x.Call)
		}
		if x.Out != "" {
			p.b.WriteString("." + x.Out)
		}
		for _, f := range x.Path {
			p.b.WriteString("." + f)
		}
	case Split:
		p.b.WriteString("split ")
		p.printExpr(x.E, indent)
	case ArrayLit:
		if len(x.Elems) == 0 {
			p.b.WriteString("[]")
			return
		}
		p.b.WriteString("[\n")
		for _, el := range x.Elems {
			p.comment(indent + "    ")
			p.b.WriteString(indent + "    ")
			p.printExpr(el, indent+"    ")
			p.b.WriteString(",\n")
		}
		p.dangling(indent + "    ")
		p.b.WriteString(indent + "]")
	case MapLit:
		if len(x.Keys) == 0 {
			p.b.WriteString("{}")
			return
		}
		p.b.WriteString("{\n")
		for i, k := range x.Keys {
			p.comment(indent + "    ")
			fmt.Fprintf(&p.b, "%s    %s:%s", indent, QuoteMro(k), p.ws())
			p.printExpr(x.Vals[i], indent+"    ")
			p.b.WriteString(",\n")
		}
		p.b.WriteString(indent + "}")
	case StructLit:
		p.b.WriteString("{\n")
		for i, k := range x.Fields {
			p.comment(indent + "    ")
			fmt.Fprintf(&p.b, "%s    %s:%s", indent, k, p.ws())
			p.printExpr(x.Vals[i], indent+"    ")
			p.b.WriteString(",\n")
		}
		p.b.WriteString(indent + "}")
	default:
		panic(fmt.Sprintf("printExpr: %T", e))
	}
}

// printValue renders a JSON value of type ty as an MRO literal.
func (p *printer) printValue(v any, ty Ty, indent string) {
	switch x := v.(type) {
	case nil:
		p.b.WriteString("null")
	case bool:
		fmt.Fprintf(&p.b, "%v", x)
	case json.Number:
		p.b.WriteString(string(x))
	case string:
		p.b.WriteString(QuoteMro(x))
	case []any:
		el, _ := ty.Elem()
		if !ty.IsArray() {
			el = Ty{Base: "map"} // inside an untyped map
		}
		if len(x) == 0 {
			p.b.WriteString("[]")
			return
		}
		p.b.WriteString("[\n")
		for _, e := range x {
			p.b.WriteString(indent + "    ")
			p.printValue(e, el, indent+"    ")
			p.b.WriteString(",\n")
		}
		p.b.WriteString(indent + "]")
	case *jsonx.Obj:
		st := (*Struct)(nil)
		if ty.IsScalar() {
			st = p.u.Struct(ty.Base)
		}
		if len(x.Keys) == 0 {
			p.b.WriteString("{}")
			return
		}
		p.b.WriteString("{\n")
		for i, k := range x.Keys {
			p.b.WriteString(indent + "    ")
			var et Ty
			if st != nil {
				p.b.WriteString(k)
				if f := st.Field(k); f != nil {
					et = f.T
				} else {
					et = Ty{Base: "map"}
				}
			} else {
				p.b.WriteString(QuoteMro(k))
				if ty.IsTypedMap() {
					et, _ = ty.Elem()
				} else {
					et = Ty{Base: "map"}
				}
			}
			p.b.WriteString(": ")
			p.printValue(x.Vals[i], et, indent+"    ")
			p.b.WriteString(",\n")
		}
		p.b.WriteString(indent + "}")
	default:
		panic(fmt.Sprintf("printValue: %T", v))
	}
}

// ExprString renders one expression (for diagnostics).
func (prog *Program) ExprString(e Expr) string {
	p := &printer{u: prog.U}
	p.printExpr(e, "")
	return p.b.String()
}

// CallNames lists the ids of all calls in the program, sorted.
func (prog *Program) CallNames() []string {
	var r []string
	for _, pl := range prog.Pipelines {
		for _, c := range pl.Calls {
			r = append(r, pl.Name+"."+c.Id)
		}
	}
	sort.Strings(r)
	return r
}
