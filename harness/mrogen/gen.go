package mrogen

import (
	"fmt"
	"strings"

	"pgregory.net/rapid"

	"verifharness/jsonx"
)

// ProgCfg tunes program generation.
type ProgCfg struct {
	MaxStages    int
	MaxPipelines int
	MaxCalls     int
	// Features
	MapCalls   bool
	Disabled   bool
	SplitStage bool
	TopMapped  bool
	Preflight  bool
	// Wildcards: some calls bind parameters through "* = self".
	Wildcards bool
	// Decorate adds cosmetic-but-semantic clauses: stage resources, help
	// strings, src strings with arguments.
	Decorate bool
	// NoFiles: no file-ish types at all.
	NoFiles bool
	// VDR: file-rich stage signatures, volatile / strict / retain
	// annotations on stages, calls and pipelines.
	VDR bool
	// Values config for literals.
	Values ValueCfg
	// StaticPipelineMaps: pipelines are mapped only over collections whose
	// size is known when the pipestance is invoked (literals, top-level
	// inputs).
	StaticPipelineMaps bool
	// SplitFlags: a flag input of a mapped pipeline may be given per element.
	SplitFlags bool
	// NoChainedMaps: split sources are never outputs of mapped calls or of
	// pipelines (whatever MapLevel allows otherwise).
	NoChainedMaps bool
	// Views: some stage inputs are structs mirroring the outputs of an
	// earlier stage (whole calls get bound to them).
	Views bool
	// KeyedMapBias: most calls that can be map calls are, and most of those
	// split over typed maps (runs that are about fork names).
	KeyedMapBias bool
	// MapOnlyInTop: map calls appear only in the body of the pipeline the
	// top-level call invokes.
	MapOnlyInTop bool
	// MapLevel restricts map calls (0 = unrestricted): 1 = only stages are
	// mapped and split sources are never outputs of mapped calls; 2 = also
	// chained maps and mapped pipelines that contain no map call; 3 = all.
	MapLevel int
	// Exclude lists generator shapes that are avoided because they trigger a
	// known finding (each use is counted in Excluded).
	Exclude map[string]bool
	// NoStructToMap: never bind a struct-typed value to an untyped map
	// (exclusion for a known finding; counted by the caller).
	NoStructToMap bool
	// Excluded counts constructs avoided because of known findings.
	Excluded map[string]int
	// Assignable is the reference assignability relation (injected to avoid
	// an import cycle with refsem).
	Assignable func(u *Universe, dst, src Ty) bool
}

// source is something in scope of a pipeline body that can be referenced.
type source struct {
	ref   Ref
	t     Ty
	shape string // identity of the outer collection shape ("" if scalar)
	// nonNull: guaranteed not null at run time (usable as disabled flag).
	nonNull bool
	// producer call id (for ordering), "" for self params
	call string
	// maybeNull: produced by a call that carries a disabled modifier (so
	// the whole value may be null / the DisabledExp wrapper is involved).
	maybeDisabled bool
	// fromMapped: output of a map call.
	fromMapped bool
}

type pgen struct {
	// curParam: name of the callee parameter being bound (wildcard naming).
	curParam string
	// forceFlag: the next call gets this disabling condition (chain mode).
	forceFlag *Ref
	chain     bool
	isTop     bool
	// inProducer: generating the bindings of an inserted producer call.
	inProducer bool
	// curCallee: the callee of the call whose bindings are being generated.
	curCallee string
	// forceMerged: the next call binds one parameter to this output of a
	// map call (merged over its forks) and is, more often than not, a map
	// call itself (over another parameter).
	forceMerged *source
	// reserved: index of a parameter genMapSources must leave alone (-1: none).
	reserved int
	// mustSplit: index of the parameter a map call has to split over (-1: any).
	mustSplit int
	// ext: cache of extU.
	ext  *Universe
	extN int
	// palette: element types most stage parameters are built from.
	palette   []Ty
	noPalette bool
	hasMap    map[string]bool // pipelines containing a map call (transitively)
	t         *rapid.T
	cfg       *ProgCfg
	u         *Universe
	prog      *Program
	// per-pipeline state
	pl      *Pipeline
	sources []source
	nLit    int
}

// assignable: may a reference of type src be bound to a parameter of type
// dst.  A struct reference bound directly to a typed-map parameter is
// refused by the compiler ("binding is not a typed map") although the types
// are assignable inside collections; acceptance is not complete, so the
// generator simply avoids that shape.
func (g *pgen) assignable(dst, src Ty) bool {
	if dst.Arr == 0 && (dst.Map > 0) != (src.Map > 0) {
		return false
	}
	ok := g.cfg.Assignable(g.extU(), dst, src)
	if ok && g.cfg.Exclude["typed-map-to-untyped-map"] && g.typedMapToMap(dst, src, 0) {
		g.excluded("typed-map-to-untyped-map")
		return false
	}
	if ok && g.cfg.Exclude["struct-to-typed-map"] && g.structToTypedMap(dst, src, 0) {
		g.excluded("struct-to-typed-map")
		return false
	}
	if ok && g.cfg.NoStructToMap && g.structToMap(dst, src, 0) {
		if g.cfg.Excluded != nil {
			g.cfg.Excluded["struct-to-untyped-map"]++
		}
		return false
	}
	return ok
}

// extU is the universe extended by the implicit output structs of the
// callables generated so far (a whole call is a value of that struct type).
func (g *pgen) extU() *Universe {
	n := len(g.prog.Stages) + len(g.prog.Pipelines) + len(g.u.Structs)
	if g.ext != nil && g.extN == n {
		return g.ext
	}
	u := &Universe{FileTypes: g.u.FileTypes}
	u.Structs = append(u.Structs, g.u.Structs...)
	add := func(name string, outs []Param) {
		if len(outs) == 0 {
			return
		}
		st := &Struct{Name: name}
		for _, o := range outs {
			st.Fields = append(st.Fields, Field{Name: o.Name, T: o.T})
		}
		u.Structs = append(u.Structs, st)
	}
	for _, st := range g.prog.Stages {
		add(st.Name, st.Outs)
	}
	for _, pl := range g.prog.Pipelines {
		if pl != g.pl {
			add(pl.Name, pl.Outs)
		}
	}
	g.ext, g.extN = u, n
	return u
}

// viewOf declares a struct that mirrors the outputs of a stage - the same
// names, member types the outputs convert to (a wider struct variant is seen
// as the struct it widens, an int as a float), all of them or some - so that
// a whole call can be bound where the view is expected.
func (g *pgen) viewOf(src *Stage, tag string) (Ty, bool) {
	if len(src.Outs) == 0 {
		return Ty{}, false
	}
	v := &Struct{Name: fmt.Sprintf("V%s_%s", src.Name, tag)}
	keepAll := rapid.Bool().Draw(g.t, "viewKeepsAll")
	for i, o := range src.Outs {
		if !keepAll && i > 0 && rapid.Bool().Draw(g.t, "viewDrops") {
			continue
		}
		ft := o.T
		if w := g.u.Struct(ft.Base); w != nil && w.WiderOf != "" {
			ft.Base = w.WiderOf
		} else if ft.Base == "int" && rapid.Bool().Draw(g.t, "viewIntAsFloat") {
			ft.Base = "float"
		}
		v.Fields = append(v.Fields, Field{Name: o.Name, T: ft})
	}
	g.u.Structs = append(g.u.Structs, v)
	return Ty{Base: v.Name}, true
}

// flagRefOf returns a reference to a bool output of a stage call.
func (g *pgen) flagRefOf(c *Call) *Ref {
	if st := g.prog.Stage(c.Callee); st != nil && !c.Mapped && c.Disabled == nil {
		for _, o := range st.Outs {
			if o.T == (Ty{Base: "bool"}) {
				return &Ref{Call: c.Id, Out: o.Name}
			}
		}
	}
	return nil
}

func (g *pgen) lastFlagRef() *Ref {
	for i := len(g.pl.Calls) - 1; i >= 0; i-- {
		if r := g.flagRefOf(g.pl.Calls[i]); r != nil {
			return r
		}
	}
	return nil
}

// markSplitSrc flags the pipeline input a split source refers to.
func (g *pgen) markSplitSrc(e Expr) {
	if r, ok := e.(Ref); ok && r.Call == "" {
		for i := range g.pl.Ins {
			if g.pl.Ins[i].Name == r.Out {
				g.pl.Ins[i].SplitSrc = true
			}
		}
	}
}

// excluded reports (and counts) that a shape is avoided.
func (g *pgen) excluded(shape string) bool {
	if g.cfg.Exclude[shape] {
		if g.cfg.Excluded != nil {
			g.cfg.Excluded[shape]++
		}
		return true
	}
	return false
}

// typedMapToMap: does converting src to dst turn a typed map into an
// untyped map anywhere?
func (g *pgen) typedMapToMap(dst, src Ty, depth int) bool {
	if depth > 6 {
		return false
	}
	if dst.Base == "map" && dst.Map == 0 && src.Map > 0 {
		return true
	}
	df, sf := g.structFields(dst.Base), g.structFields(src.Base)
	if len(df) > 0 && len(sf) > 0 {
		for _, f := range df {
			for _, o := range sf {
				if o.Name == f.Name && f.T != o.T && g.typedMapToMap(f.T, o.T, depth+1) {
					return true
				}
			}
		}
	}
	return false
}

// structToTypedMap: does converting src to dst turn a struct into a typed
// map anywhere (only possible inside arrays or struct fields)?
func (g *pgen) structToTypedMap(dst, src Ty, depth int) bool {
	if depth > 6 {
		return false
	}
	if dst.Map > 0 && src.Map == 0 && len(g.structFields(src.Base)) > 0 {
		return true
	}
	df, sf := g.structFields(dst.Base), g.structFields(src.Base)
	if len(df) > 0 && len(sf) > 0 {
		for _, f := range df {
			for _, o := range sf {
				if o.Name == f.Name && f.T != o.T && g.structToTypedMap(f.T, o.T, depth+1) {
					return true
				}
			}
		}
	}
	return false
}

// structToMap: does converting src to dst turn a struct into an untyped map
// anywhere (directly, in elements, or in struct fields)?
func (g *pgen) structToMap(dst, src Ty, depth int) bool {
	if depth > 6 {
		return false
	}
	if dst.Base == "map" && dst.Map == 0 && len(g.structFields(src.Base)) > 0 && src.Map == 0 {
		return true
	}
	df, sf := g.structFields(dst.Base), g.structFields(src.Base)
	if len(df) > 0 && len(sf) > 0 && dst.Base != src.Base {
		for _, f := range df {
			for _, o := range sf {
				if o.Name == f.Name && g.structToMap(f.T, o.T, depth+1) {
					return true
				}
			}
		}
	}
	return false
}

// GenProgram draws a well-typed program with a top-level call.
func GenProgram(t *rapid.T, cfg *ProgCfg) *Program {
	u := GenUniverse(t, UniverseCfg{MaxStructs: 3, MaxWider: 2, MaxFields: 3, NoFiles: cfg.NoFiles})
	g := &pgen{t: t, cfg: cfg, u: u, prog: &Program{U: u}, reserved: -1, mustSplit: -1}
	ns := rapid.IntRange(1, max(1, cfg.MaxStages)).Draw(t, "nStages")
	for i := 0; i < ns; i++ {
		g.prog.Stages = append(g.prog.Stages, g.genStage(i))
	}
	hasBool := false
	for _, s := range g.prog.Stages {
		for _, o := range s.Outs {
			hasBool = hasBool || o.T == (Ty{Base: "bool"})
		}
	}
	if !hasBool {
		s0 := g.prog.Stages[0]
		s0.Outs = append(s0.Outs, Param{Name: "flag", T: Ty{Base: "bool"}})
	}
	if cfg.Preflight && rapid.Bool().Draw(t, "havePreflight") {
		// preflight stages cannot have outputs
		g.prog.Stages = append(g.prog.Stages, &Stage{Name: "PF0", SrcLang: "comp", SrcPath: "stagebin PF0",
			Ins: []Param{{Name: "p", T: g.genStageType("pfIn")}}})
	}
	np := rapid.IntRange(1, max(1, cfg.MaxPipelines)).Draw(t, "nPipelines")
	if cfg.Disabled && rapid.IntRange(0, 4).Draw(t, "deepNesting") == 0 {
		// a chain of pipelines each calling the previous one (deeply nested
		// disabling conditions)
		g.chain = true
		np = rapid.IntRange(3, 5).Draw(t, "chainLen")
	}
	for i := 0; i < np; i++ {
		g.genPipeline(i, i == np-1)
	}
	top := g.prog.Pipelines[len(g.prog.Pipelines)-1]
	g.prog.Top = g.genTopCall(top)
	return g.prog
}

// paletteType: most stage parameters draw their element type from a small
// per-program palette, so that outputs of one call fit inputs of another
// (as the element, as a collection to map over, or as the merged output of
// a map call) far more often than independent draws would allow.
func (g *pgen) paletteType(label string) (Ty, bool) {
	if g.noPalette {
		return Ty{}, false
	}
	if g.palette == nil {
		n := rapid.IntRange(2, 3).Draw(g.t, "paletteSize")
		for i := 0; i < n; i++ {
			save := g.noPalette
			g.noPalette = true
			e := g.genStageType("palette")
			g.noPalette = save
			e.Arr, e.Map = 0, 0
			if e.Base == "bool" || e.Base == "map" {
				e.Base = "int"
			}
			g.palette = append(g.palette, e)
		}
	}
	if rapid.IntRange(0, 2).Draw(g.t, label+"Palette") == 0 {
		return Ty{}, false
	}
	e := g.palette[rapid.IntRange(0, len(g.palette)-1).Draw(g.t, label+"PaletteElem")]
	switch rapid.IntRange(0, 9).Draw(g.t, label+"PaletteShape") {
	case 0, 1, 2, 3:
		return e, true
	case 4, 5, 6, 7:
		return e.ArrayOf(), true
	case 8:
		return e.MapOf(), true
	}
	return e.ArrayOf().ArrayOf(), true
}

func (g *pgen) genStageType(label string) Ty {
	if ty, ok := g.paletteType(label); ok {
		return ty
	}
	if g.cfg.VDR && rapid.IntRange(0, 2).Draw(g.t, label+"FileIsh") == 0 {
		bases := append([]string{"file", "path", "string"}, g.u.FileTypes...)
		for _, st := range g.u.Structs {
			if g.u.FileKind(Ty{Base: st.Name}) == 2 {
				bases = append(bases, st.Name)
			}
		}
		ty := Ty{Base: rapid.SampledFrom(bases).Draw(g.t, label+"FileBase")}
		switch rapid.IntRange(0, 5).Draw(g.t, label+"FileShape") {
		case 3:
			ty.Arr = 1
		case 4:
			ty.Map = 1
		case 5:
			ty.Arr = 1
			if rapid.Bool().Draw(g.t, label+"FileMapArr") {
				ty.Map = 1
			}
		}
		return ty
	}
	// bias towards simple types with a fair share of collections
	switch rapid.IntRange(0, 9).Draw(g.t, label+"Kind") {
	case 0, 1, 2:
		return Ty{Base: rapid.SampledFrom([]string{"int", "float", "string", "bool"}).Draw(g.t, label+"Prim")}
	case 3, 4:
		return Ty{Base: rapid.SampledFrom([]string{"int", "float", "string"}).Draw(g.t, label+"Prim"), Arr: 1}
	case 5:
		return Ty{Base: rapid.SampledFrom([]string{"int", "string"}).Draw(g.t, label+"Prim"), Map: 1}
	case 6:
		s := g.u.Structs[rapid.IntRange(0, len(g.u.Structs)-1).Draw(g.t, label+"Struct")]
		return Ty{Base: s.Name}
	case 7:
		s := g.u.Structs[rapid.IntRange(0, len(g.u.Structs)-1).Draw(g.t, label+"Struct")]
		if rapid.Bool().Draw(g.t, label+"StructMap") {
			return Ty{Base: s.Name, Map: 1}
		}
		return Ty{Base: s.Name, Arr: 1}
	}
	return g.u.GenType(g.t, g.cfg.NoFiles)
}

var inNames = []string{"p", "q", "r", "s", "v", "w"}
var outNames = []string{"o", "res", "val", "data", "flag", "items"}

func (g *pgen) genStage(i int) *Stage {
	t := g.t
	s := &Stage{Name: fmt.Sprintf("ST%d", i), SrcLang: "comp", SrcPath: fmt.Sprintf("stagebin ST%d", i)}
	nin := rapid.IntRange(1, 3).Draw(t, "nIns")
	for j := 0; j < nin; j++ {
		s.Ins = append(s.Ins, Param{Name: inNames[j], T: g.genStageType("in")})
	}
	if g.cfg.Views && len(g.prog.Stages) > 0 && rapid.IntRange(0, 3).Draw(t, "viewParam") == 0 {
		src := g.prog.Stages[rapid.IntRange(0, len(g.prog.Stages)-1).Draw(t, "viewOfStage")]
		if vt, ok := g.viewOf(src, s.Name); ok {
			if rapid.IntRange(0, 3).Draw(t, "viewArray") == 0 {
				vt = vt.ArrayOf()
			}
			s.Ins[rapid.IntRange(0, len(s.Ins)-1).Draw(t, "viewAt")].T = vt
		}
	}
	nout := rapid.IntRange(1, 3).Draw(t, "nOuts")
	for j := 0; j < nout; j++ {
		ty := g.genStageType("out")
		if j == 0 && g.cfg.MapCalls && len(g.prog.Stages) > 0 && rapid.IntRange(0, 3).Draw(t, "feedsMapCall") != 0 {
			// a collection whose elements fit an input of an earlier stage
			// (or of this one): something a map call can split over at run
			// time (forks created while the pipestance runs)
			cands := append([]*Stage{}, g.prog.Stages...)
			cands = append(cands, s)
			src := cands[rapid.IntRange(0, len(cands)-1).Draw(t, "feedsStage")]
			in := src.Ins[rapid.IntRange(0, len(src.Ins)-1).Draw(t, "feedsParam")]
			if in.T.Map == 0 && in.T.Base != "map" && rapid.IntRange(0, 2).Draw(t, "feedsAsMap") == 0 {
				ty = in.T.MapOf()
			} else {
				ty = in.T.ArrayOf()
			}
		}
		if j == nout-1 && nout > 1 && rapid.IntRange(0, 3).Draw(t, "boolOut") == 0 {
			ty = Ty{Base: "bool"}
		} else if j == nout-1 && nout == 1 && ty.Arr == 0 && ty.Map == 0 && rapid.IntRange(0, 3).Draw(t, "boolOut") == 0 {
			ty = Ty{Base: "bool"}
		}
		s.Outs = append(s.Outs, Param{Name: outNames[j], T: ty})
	}
	if g.cfg.Decorate {
		if rapid.IntRange(0, 2).Draw(t, "resources") == 0 {
			r := &Resources{}
			// (negative requests are "adaptive"; values between -1 and 0,
			// and whole and fractional values on either side of zero)
			// (half of the time a written-out decimal such as 1.1 or 12.07:
			// most of them have no exact binary form)
			dec := func(label string, pool []string) string {
				if rapid.Bool().Draw(t, label+"Pool") {
					return rapid.SampledFrom(pool).Draw(t, label)
				}
				n := rapid.IntRange(1, 3).Draw(t, label+"Digits")
				sign := ""
				if rapid.IntRange(0, 4).Draw(t, label+"Neg") == 0 {
					sign = "-"
				}
				return fmt.Sprintf("%s%d.%0*d", sign, rapid.IntRange(0, 64).Draw(t, label+"Whole"), n, rapid.IntRange(0, []int{9, 99, 999}[n-1]).Draw(t, label+"Frac"))
			}
			r.MemGB = dec("mem", []string{"", "1", "2", "0.05", "1.5", "-4", "3e0", "0.125", "-0.5", "-0.25", "-1.5", "-1", "0"})
			r.Threads = dec("threads", []string{"", "1", "2", "0.5", "0.01", "-1", "1.5", "-0.5", "0"})
			r.VMemGB = dec("vmem", []string{"", "", "8", "16.5", "-0.75", "-2", "0.5"})
			r.Special = rapid.SampledFrom([]string{"", "", "highmem", "a b", "q\"x", "esc\\n"}).Draw(t, "special")
			r.Volatile = rapid.SampledFrom([]string{"", "", "strict", "false"}).Draw(t, "volatile")
			if *r != (Resources{}) {
				s.Res = r
			}
		}
		s.SrcLang = rapid.SampledFrom([]string{"comp", "comp", "exec", "py"}).Draw(t, "lang")
		switch s.SrcLang {
		case "py":
			s.SrcPath = rapid.SampledFrom([]string{"stages/x", "stages/with_underscore", "é/stage"}).Draw(t, "pyPath")
		default:
			s.SrcPath = rapid.SampledFrom([]string{"bin/tool", "bin/tool arg1 arg2", "tool --flag=1", "bin/t  two  spaces", "a\\b", "t\targ"}).Draw(t, "srcPath")
		}
		for j := range s.Ins {
			if rapid.IntRange(0, 3).Draw(t, "help") == 0 {
				s.Ins[j].Help = rapid.SampledFrom([]string{"help text", "with \"quotes\"", "back\\slash", "new\nline", "é ü", ""}).Draw(t, "helpText")
			}
		}
		for j := range s.Outs {
			if rapid.IntRange(0, 3).Draw(t, "help") == 0 {
				s.Outs[j].Help = rapid.SampledFrom([]string{"the output", "tab\there", "q\"q"}).Draw(t, "helpText")
			}
		}
		if !g.cfg.NoFiles && rapid.IntRange(0, 2).Draw(t, "fileOuts") == 0 {
			// file outputs and a retain list (possibly naming one twice)
			nf := rapid.IntRange(1, 3).Draw(t, "nFileOuts")
			var names []string
			for j := 0; j < nf; j++ {
				ft := "file"
				if len(g.u.FileTypes) > 0 && rapid.Bool().Draw(t, "userFileType") {
					ft = rapid.SampledFrom(g.u.FileTypes).Draw(t, "fileType")
				}
				n := fmt.Sprintf("fout%d", j)
				s.Outs = append(s.Outs, Param{Name: n, T: Ty{Base: ft}})
				names = append(names, n)
			}
			for j, k := 0, rapid.IntRange(0, 4).Draw(t, "nRetain"); j < k; j++ {
				s.Retain = append(s.Retain, rapid.SampledFrom(names).Draw(t, "retain"))
			}
		}
	}
	if g.cfg.VDR {
		if v := rapid.SampledFrom([]string{"", "", "", "strict", "false"}).Draw(t, "stageVolatile"); v != "" {
			s.Res = &Resources{Volatile: v}
		}
		for _, o := range s.Outs {
			if g.prog.FileKind(o.T) > 0 && rapid.IntRange(0, 3).Draw(t, "retainOut") == 0 {
				s.Retain = append(s.Retain, o.Name)
			}
		}
	}
	if g.cfg.SplitStage && rapid.IntRange(0, 2).Draw(t, "split") == 0 {
		s.Split = true
		s.ChunkIns = []Param{{Name: "chunk_in", T: Ty{Base: rapid.SampledFrom([]string{"int", "string", "float"}).Draw(t, "chunkInT")}}}
		if rapid.Bool().Draw(t, "chunkOut") {
			s.ChunkOuts = []Param{{Name: "chunk_out", T: Ty{Base: rapid.SampledFrom([]string{"int", "string"}).Draw(t, "chunkOutT")}}}
		}
	}
	return s
}

// ---- scope ----------------------------------------------------------------

// addCallSources registers the outputs of a call as sources.
func (g *pgen) addCallSources(c *Call, mapShape string, mapKind string, disabled bool) {
	_, outs, isStage := g.prog.Callable(c.Callee)
	for _, o := range outs {
		ty := o.T
		shape := ""
		if ty.Arr > 0 || ty.Map > 0 {
			shape = "out:" + c.Id + "." + o.Name
		}
		if c.Mapped {
			switch mapKind {
			case "array":
				ty = ty.ArrayOf()
			case "map":
				if ty.Map > 0 {
					continue // map call would produce a nested map: not referencable
				}
				ty = ty.MapOf()
			}
			shape = mapShape
		}
		g.sources = append(g.sources, source{
			ref: Ref{Call: c.Id, Out: o.Name}, t: ty, shape: shape, call: c.Id,
			nonNull:       isStage && !c.Mapped && !disabled && ty == (Ty{Base: "bool"}),
			maybeDisabled: disabled,
			fromMapped:    c.Mapped,
		})
	}
	// the whole call as a struct value
	if len(outs) > 0 {
		ty := Ty{Base: c.Callee}
		shape := ""
		ok := true
		if c.Mapped {
			if mapKind == "array" {
				ty = ty.ArrayOf()
			} else {
				ty = ty.MapOf()
			}
			shape = mapShape
		}
		if ok {
			g.sources = append(g.sources, source{ref: Ref{Call: c.Id}, t: ty, shape: shape, call: c.Id, maybeDisabled: disabled})
		}
	}
}

// structFields returns the fields of a struct-like type name: declared
// structs and the implicit output struct of a callable.
func (g *pgen) structFields(name string) []Field {
	if s := g.u.Struct(name); s != nil {
		return s.Fields
	}
	for _, s := range g.prog.Stages {
		if s.Name == name {
			var r []Field
			for _, o := range s.Outs {
				r = append(r, Field{Name: o.Name, T: o.T})
			}
			return r
		}
	}
	for _, p := range g.prog.Pipelines {
		if p.Name == name {
			var r []Field
			for _, o := range p.Outs {
				r = append(r, Field{Name: o.Name, T: o.T})
			}
			return r
		}
	}
	return nil
}

// project computes the type of base.field following the language rule
// that projection distributes over arrays and typed maps.
func projectType(base Ty, field Ty) (Ty, bool) {
	r := field
	if base.Map > 0 {
		if r.Map > 0 || r.Base == "map" {
			return Ty{}, false // nested maps
		}
		r = Ty{Base: r.Base, Arr: 0, Map: base.Map + r.Arr}
	}
	r.Arr += base.Arr
	return r, true
}

// candidates lists every source (with projections up to depth 2) whose
// type can be bound to dst.
func (g *pgen) candidates(dst Ty, exclude map[string]bool) []source {
	return g.candidatesWhere(func(s source) bool { return g.assignable(dst, s.t) }, exclude)
}

// candidatesAll: every source with its projections, whatever the type.
func (g *pgen) candidatesAll() []source {
	return g.candidatesWhere(func(source) bool { return true }, nil)
}

func (g *pgen) candidatesWhere(want func(source) bool, exclude map[string]bool) []source {
	var out []source
	var visit func(s source, depth int)
	visit = func(s source, depth int) {
		if !exclude[s.call] || s.call == "" {
			if want(s) {
				out = append(out, s)
			}
		}
		if depth >= 2 {
			return
		}
		fields := g.structFields(s.t.Base)
		if s.ref.Call != "" && s.ref.Out == "" {
			// whole-call struct: CALL.out is already a source of its own
			return
		}
		for _, f := range fields {
			pt, ok := projectType(Ty{Arr: s.t.Arr, Map: s.t.Map}, f.T)
			if !ok {
				continue
			}
			if s.fromMapped && s.t.Map > 0 && g.excluded("projection-through-map-of-mapped-output") {
				continue
			}
			ns := source{fromMapped: s.fromMapped, ref: Ref{Call: s.ref.Call, Out: s.ref.Out, Path: append(append([]string{}, s.ref.Path...), f.Name)},
				t: pt, call: s.call, maybeDisabled: s.maybeDisabled}
			if s.t.Arr > 0 || s.t.Map > 0 {
				ns.shape = s.shape
			} else if pt.Arr > 0 || pt.Map > 0 {
				ns.shape = fmt.Sprintf("%s/%v", s.shape, ns.ref)
			}
			visit(ns, depth+1)
		}
	}
	for _, s := range g.sources {
		if exclude != nil && s.call != "" && exclude[s.call] {
			continue
		}
		visit(s, 0)
	}
	return out
}

var plInNames = []string{"a", "b", "c", "d", "e", "f", "g", "h", "i", "j", "k", "m", "n"}

// newInput adds a pipeline input of type ty and returns it as source.
func (g *pgen) newInput(ty Ty, flag bool) source {
	name := plInNames[len(g.pl.Ins)%len(plInNames)]
	if len(g.pl.Ins) >= len(plInNames) {
		name = fmt.Sprintf("%s%d", name, len(g.pl.Ins))
	}
	if g.cfg.Wildcards && g.curParam != "" && FindParam(g.pl.Ins, g.curParam) == nil && rapid.Bool().Draw(g.t, "nameLikeParam") {
		name = g.curParam // allows "* = self"
	}
	for n := 2; FindParam(g.pl.Ins, name) != nil; n++ {
		name = fmt.Sprintf("%s_%d", name, n)
	}
	g.pl.Ins = append(g.pl.Ins, Param{Name: name, T: ty, Flag: flag})
	s := source{ref: Ref{Out: name}, t: ty, nonNull: flag}
	if ty.Arr > 0 || ty.Map > 0 {
		s.shape = "self:" + name
	}
	g.sources = append(g.sources, s)
	return s
}

// genExprFor builds an expression assignable to dst.
func (g *pgen) genExprFor(dst Ty, depth int) Expr {
	t := g.t
	cands := g.candidates(dst, nil)
	roll := rapid.IntRange(0, 9).Draw(t, "bindKind")
	if len(cands) > 0 && roll < 6 {
		// outputs of map calls (merged over their forks) first, half of the
		// time: consumers of merged values are what independent draws
		// rarely produce
		var merged []source
		for _, s := range cands {
			if s.fromMapped {
				merged = append(merged, s)
			}
		}
		if len(merged) > 0 && rapid.Bool().Draw(t, "preferMerged") {
			cands = merged
		}
		// ... and projections through two struct levels (X.out.inner.x):
		// they need a struct in a struct to exist at all
		var deep []source
		for _, s := range cands {
			if len(s.ref.Path) >= 2 {
				deep = append(deep, s)
			}
		}
		if len(deep) > 0 && rapid.IntRange(0, 2).Draw(t, "preferDeepProjection") > 0 {
			cands = deep
		}
		return cands[rapid.IntRange(0, len(cands)-1).Draw(t, "cand")].ref
	}
	if roll < 7 && len(g.pl.Ins) < 8 {
		src := g.u.GenSourceType(t, dst)
		if !g.assignable(dst, src) {
			src = dst
		}
		return g.newInput(src, false).ref
	}
	if depth < 2 && roll < 9 {
		// composite literal with references inside
		if dst.IsArray() {
			el, _ := dst.Elem()
			n := rapid.IntRange(0, 3).Draw(t, "litLen")
			a := ArrayLit{}
			for i := 0; i < n; i++ {
				a.Elems = append(a.Elems, g.genExprFor(el, depth+1))
			}
			return a
		}
		if dst.IsTypedMap() {
			el, _ := dst.Elem()
			n := rapid.IntRange(0, 3).Draw(t, "litLen")
			m := MapLit{}
			for _, k := range distinctKeys(t, n, true) {
				m.Keys = append(m.Keys, k)
				m.Vals = append(m.Vals, g.genExprFor(el, depth+1))
			}
			return m
		}
		if st := g.u.Struct(dst.Base); st != nil && dst.IsScalar() {
			sl := StructLit{}
			for _, f := range st.Fields {
				sl.Fields = append(sl.Fields, f.Name)
				sl.Vals = append(sl.Vals, g.genExprFor(f.T, depth+1))
			}
			return sl
		}
	}
	g.nLit++
	vc := g.cfg.Values
	return Lit{V: g.u.GenValue(t, dst, &vc), T: dst}
}

// ---- pipelines ------------------------------------------------------------

func (g *pgen) callables() []string {
	var r []string
	for _, s := range g.prog.Stages {
		if s.Name == "PF0" {
			continue
		}
		r = append(r, s.Name)
	}
	for _, p := range g.prog.Pipelines {
		r = append(r, p.Name)
	}
	return r
}

func (g *pgen) genPipeline(idx int, isTop bool) {
	t := g.t
	pl := &Pipeline{Name: fmt.Sprintf("PL%d", idx)}
	g.pl = pl
	g.isTop = isTop
	g.sources = nil
	g.forceMerged = nil
	// a couple of seed inputs so that references have something to find
	for i := rapid.IntRange(0, 2).Draw(t, "seedIns"); i > 0; i-- {
		g.newInput(g.genStageType("plIn"), false)
	}
	ncalls := rapid.IntRange(1, max(1, g.cfg.MaxCalls)).Draw(t, "nCalls")
	if isTop && g.cfg.MapOnlyInTop && g.cfg.MapCalls {
		// all the mapping happens here: room for producer, map call,
		// consumer of the merged output
		ncalls += rapid.IntRange(0, 2).Draw(t, "moreTopCalls")
	}
	names := g.callables()
	used := map[string]int{}
	if pf := g.prog.Stage("PF0"); pf != nil && rapid.IntRange(0, 2).Draw(t, "callPreflight") == 0 {
		// bound to pipeline inputs or literals only
		c := &Call{Id: "PF0", Callee: "PF0", Preflight: true}
		var e Expr
		if rapid.Bool().Draw(t, "pfFromInput") {
			st := g.u.GenSourceType(t, pf.Ins[0].T)
			if !g.assignable(pf.Ins[0].T, st) {
				st = pf.Ins[0].T
			}
			e = g.newInput(st, false).ref
		} else {
			vc := g.cfg.Values
			e = Lit{V: g.u.GenValue(t, pf.Ins[0].T, &vc), T: pf.Ins[0].T}
		}
		c.Bindings = []Binding{{Param: "p", E: e}}
		pl.Calls = append(pl.Calls, c)
		used["PF0"]++
	}
	if g.chain {
		ncalls += 2
		if idx == 0 && ncalls < 4 {
			ncalls = 4
		}
	}
	for ci := 0; ci < ncalls; ci++ {
		callee := rapid.SampledFrom(names).Draw(t, "callee")
		if g.chain && ci == 0 {
			// a stage producing a run-time flag
			for _, s := range g.prog.Stages {
				for _, o := range s.Outs {
					if o.T == (Ty{Base: "bool"}) {
						callee = s.Name
					}
				}
			}
		}
		if g.chain && ci == 1 && idx > 0 {
			callee = fmt.Sprintf("PL%d", idx-1)
			g.forceFlag = g.lastFlagRef()
		}
		if g.chain && idx == 0 {
			// innermost pipeline: flag stage, flag stage, then two sibling
			// calls each disabled by its own run-time flag
			switch ci {
			case 1:
				callee = pl.Calls[0].Callee
			case 2:
				g.forceFlag = g.flagRefOf(pl.Calls[0])
			case 3:
				g.forceFlag = g.flagRefOf(pl.Calls[1])
			}
		}
		// bias towards stages so that jobs actually run
		if g.prog.Stage(callee) == nil && rapid.Bool().Draw(t, "preferStage") {
			callee = g.prog.Stages[rapid.IntRange(0, len(g.prog.Stages)-1).Draw(t, "stage")].Name
			if callee == "PF0" {
				callee = g.prog.Stages[0].Name
			}
		}
		if g.cfg.Exclude["mapped-pipeline-called-again"] && g.prog.Pipeline(callee) != nil && g.sharesWithMappedPipeline(callee) {
			g.excluded("mapped-pipeline-called-again")
			callee = g.prog.Stages[0].Name
		}
		if !g.chain && rapid.IntRange(0, 2).Draw(t, "consumeMerged") == 0 {
			// a stage that can take the merged output of an earlier map
			// call of this pipeline
		findConsumer:
			for i := len(g.sources) - 1; i >= 0; i-- {
				src := g.sources[i]
				if !src.fromMapped || src.ref.Out == "" {
					continue
				}
				for _, st := range g.prog.Stages {
					if st.Name == "PF0" {
						continue
					}
					for _, in := range st.Ins {
						if g.assignable(in.T, src.t) {
							callee = st.Name
							fm := src
							g.forceMerged = &fm
							break findConsumer
						}
					}
				}
			}
		}
		if g.cfg.Wildcards && !g.chain && rapid.IntRange(0, 7).Draw(t, "wildcardPair") == 0 {
			if g.genWildcardPair(pl, used) {
				g.forceMerged = nil
				continue
			}
		}
		c := &Call{Id: callee, Callee: callee}
		if used[callee] > 0 || rapid.IntRange(0, 5).Draw(t, "alias") == 0 {
			c.Id = fmt.Sprintf("%s_%c", callee, 'A'+rune(ci))
		}
		used[callee]++
		g.genCallBindings(c)
		if g.cfg.VDR && g.prog.Stage(callee) != nil {
			// (only stage calls may carry the volatile tag)
			c.Volatile = rapid.IntRange(0, 2).Draw(t, "volatileCall") != 0
		}
		if g.cfg.Decorate && g.prog.Stage(callee) != nil {
			// several modifiers on one call (local, volatile; a preflight
			// call cannot be volatile)
			c.Local = rapid.IntRange(0, 2).Draw(t, "localCall") == 0
			if !c.Preflight {
				c.Volatile = rapid.IntRange(0, 2).Draw(t, "volatileCallDeco") == 0
			}
		}
		pl.Calls = append(pl.Calls, c)
	}
	// outputs
	nouts := rapid.IntRange(1, 3).Draw(t, "nPlOuts")
	var callSources []source
	for _, s := range g.sources {
		if s.call != "" {
			callSources = append(callSources, s)
		}
	}
	for i := 0; i < nouts; i++ {
		var s source
		if len(callSources) > 0 && rapid.IntRange(0, 4).Draw(t, "retFromCall") != 0 {
			s = callSources[rapid.IntRange(0, len(callSources)-1).Draw(t, "retSrc")]
			// maybe a projection
			if cands := g.fieldsOf(s); len(cands) > 0 && rapid.IntRange(0, 2).Draw(t, "retProj") == 0 {
				s = cands[rapid.IntRange(0, len(cands)-1).Draw(t, "retField")]
			}
		} else {
			s = g.sources[rapid.IntRange(0, len(g.sources)-1).Draw(t, "retSrc")]
		}
		name := fmt.Sprintf("out%d", i)
		pl.Outs = append(pl.Outs, Param{Name: name, T: g.widen(s.t)})
		pl.Ret = append(pl.Ret, Binding{Param: name, E: s.ref})
	}
	if g.cfg.VDR {
		for _, s := range callSources {
			if g.prog.FileKind(s.t) > 0 && len(s.ref.Path) == 0 && rapid.IntRange(0, 5).Draw(t, "plRetain") == 0 {
				pl.Retain = append(pl.Retain, s.ref)
			}
		}
	}
	// every input must be used: bind unused inputs into a return value
	usedIn := map[string]bool{}
	var mark func(e Expr)
	mark = func(e Expr) {
		switch x := e.(type) {
		case Ref:
			if x.Call == "" {
				usedIn[x.Out] = true
			}
		case Split:
			mark(x.E)
		case ArrayLit:
			for _, el := range x.Elems {
				mark(el)
			}
		case MapLit:
			for _, el := range x.Vals {
				mark(el)
			}
		case StructLit:
			for _, el := range x.Vals {
				mark(el)
			}
		}
	}
	for _, c := range pl.Calls {
		for _, b := range c.Bindings {
			mark(b.E)
		}
		if c.Disabled != nil {
			mark(*c.Disabled)
		}
	}
	for _, b := range pl.Ret {
		mark(b.E)
	}
	for _, in := range pl.Ins {
		if !usedIn[in.Name] {
			name := "pass_" + in.Name
			pl.Outs = append(pl.Outs, Param{Name: name, T: in.T})
			pl.Ret = append(pl.Ret, Binding{Param: name, E: Ref{Out: in.Name}})
		}
	}
	if g.cfg.Wildcards {
		// "* = self" binds every callee parameter that has a pipeline
		// input of the same name: usable when all of those are bound to
		// exactly that input.
		for _, c := range pl.Calls {
			if c.Mapped {
				continue
			}
			ins, _, _ := g.prog.Callable(c.Callee)
			ok, any := true, false
			for _, p := range ins {
				if FindParam(pl.Ins, p.Name) == nil {
					continue
				}
				match := false
				for _, b := range c.Bindings {
					if r, isRef := b.E.(Ref); b.Param == p.Name && isRef && r.Call == "" && r.Out == p.Name && len(r.Path) == 0 {
						match = true
					}
				}
				if match {
					any = true
				} else {
					ok = false
				}
			}
			if ok && any {
				c.WildcardSelf = rapid.Bool().Draw(t, "wildcard")
			}
		}
	}
	g.prog.Pipelines = append(g.prog.Pipelines, pl)
}

// widen returns a declared type that accepts src: the type itself, or a
// supertype (float for int, the narrower struct for a widened struct).
func (g *pgen) widen(src Ty) Ty {
	if rapid.IntRange(0, 2).Draw(g.t, "widen") != 0 {
		return src
	}
	if src.Base == "int" {
		return Ty{Base: "float", Arr: src.Arr, Map: src.Map}
	}
	if s := g.u.Struct(src.Base); s != nil && s.WiderOf != "" {
		if w := (Ty{Base: s.WiderOf, Arr: src.Arr, Map: src.Map}); g.assignable(w, src) {
			return w
		}
	}
	return src
}

func (g *pgen) fieldsOf(s source) []source {
	if s.ref.Call != "" && s.ref.Out == "" {
		return nil
	}
	var out []source
	for _, f := range g.structFields(s.t.Base) {
		pt, ok := projectType(Ty{Arr: s.t.Arr, Map: s.t.Map}, f.T)
		if !ok {
			continue
		}
		out = append(out, source{ref: Ref{Call: s.ref.Call, Out: s.ref.Out, Path: append(append([]string{}, s.ref.Path...), f.Name)}, t: pt, call: s.call, shape: s.shape})
	}
	return out
}

func (g *pgen) genCallBindings(c *Call) {
	t := g.t
	saveCallee := g.curCallee
	g.curCallee = c.Callee
	defer func() { g.curCallee = saveCallee }()
	ins, _, _ := g.prog.Callable(c.Callee)
	mapShape, mapKind := "", ""
	splitIdx := map[int]bool{}
	mayMap := g.cfg.MapCalls && len(ins) > 0
	if g.cfg.MapOnlyInTop && !g.isTop {
		mayMap = false
	}
	if lvl := g.cfg.MapLevel; mayMap && lvl > 0 && lvl < 3 {
		if g.prog.Stage(c.Callee) == nil && (lvl == 1 || g.hasMap[c.Callee]) {
			mayMap = false
		}
	}
	mergedIdx := -1
	if fm := g.forceMerged; fm != nil {
		g.forceMerged = nil
		for i, in := range ins {
			if !in.Flag && g.assignable(in.T, fm.t) {
				mergedIdx = i
				break
			}
		}
		if mergedIdx >= 0 {
			c.Bindings = append(c.Bindings, Binding{Param: ins[mergedIdx].Name, E: fm.ref})
			g.reserved = mergedIdx
			if mayMap && len(ins) >= 2 && rapid.IntRange(0, 2).Draw(t, "mapConsumer") != 0 {
				mapShape, mapKind, splitIdx = g.genMapSources(c, ins)
				mayMap = false
			}
		}
	}
	if g.prog.Pipeline(c.Callee) != nil && mayMap && g.cfg.Exclude["mapped-pipeline-called-again"] {
		// known finding: a pipeline that is map-called and called once
		// more (mapped or not) - two instances of the same call statements,
		// fork ids are matched by call statement
		mine := map[string]bool{}
		g.reachablePipelines(c.Callee, mine)
		for _, opl := range append(append([]*Pipeline{}, g.prog.Pipelines...), g.pl) {
			for _, oc := range opl.Calls {
				theirs := map[string]bool{}
				g.reachablePipelines(oc.Callee, theirs)
				for name := range theirs {
					if mine[name] {
						mayMap = false
					}
				}
			}
		}
		if !mayMap {
			g.excluded("mapped-pipeline-called-again")
		}
	}
	g.mustSplit = -1
	if pl := g.prog.Pipeline(c.Callee); pl != nil && mayMap && g.cfg.Exclude["mapped-pipeline-constant-output"] {
		// known finding: an output of a mapped pipeline that does not come
		// from a call (a pass-through of an input, a literal) is left as an
		// unresolved merge expression unless it is the element itself.
		req, ok := g.passThroughParams(pl)
		switch {
		case !ok || len(req) > 1:
			mayMap = false
			g.excluded("mapped-pipeline-constant-output")
		case len(req) == 1:
			for i, in := range ins {
				if in.Name == req[0] {
					g.mustSplit = i
				}
			}
			if g.mustSplit == mergedIdx || ins[g.mustSplit].Flag {
				mayMap = false
			}
		}
	}
	mapOdds := 2
	if g.prog.Pipeline(c.Callee) != nil {
		mapOdds = 0 // pipelines that may be mapped at all are few: map them
	}
	if g.cfg.KeyedMapBias {
		mapOdds = 0
	}
	if mayMap && rapid.IntRange(0, mapOdds).Draw(t, "mapCall") == 0 {
		mapShape, mapKind, splitIdx = g.genMapSources(c, ins)
	}
	g.reserved = -1
	g.mustSplit = -1
	if mergedIdx >= 0 {
		splitIdx[mergedIdx] = true // bound above
	}
	if g.hasMap == nil {
		g.hasMap = map[string]bool{}
	}
	if c.Mapped || g.hasMap[c.Callee] {
		g.hasMap[g.pl.Name] = true
	}
	for i, in := range ins {
		if splitIdx[i] {
			continue // already bound by genMapSources
		}
		if in.Flag {
			c.Bindings = append(c.Bindings, Binding{Param: in.Name, E: g.genFlagExpr()})
			continue
		}
		g.curParam = in.Name
		e := g.genExprFor(in.T, 0)
		g.curParam = ""
		if in.SplitSrc {
			// the callee maps over this input
			for tries := 0; tries < 6 && g.badSplitFeed(e); tries++ {
				e = g.genExprFor(in.T, 0)
			}
			if g.badSplitFeed(e) {
				vc := g.cfg.Values
				e = Lit{V: g.u.GenValue(t, in.T, &vc), T: in.T}
			}
			g.markSplitSrc(e)
		}
		c.Bindings = append(c.Bindings, Binding{Param: in.Name, E: e})
	}
	// keep declaration order of parameters
	ordered := make([]Binding, 0, len(c.Bindings))
	for _, in := range ins {
		for _, b := range c.Bindings {
			if b.Param == in.Name {
				ordered = append(ordered, b)
			}
		}
	}
	c.Bindings = ordered
	disabled := false
	disableOdds := 5
	if g.prog.Stage(c.Callee) == nil {
		disableOdds = 2 // disabled sub-pipelines (nested disabling conditions)
		if g.chain {
			disableOdds = 0
		}
	} else if g.chain {
		disableOdds = 1
	}
	if g.forceFlag != nil {
		r := *g.forceFlag
		g.forceFlag = nil
		c.Disabled = &r
		disabled = true
	} else if g.cfg.Disabled && rapid.IntRange(0, disableOdds).Draw(t, "disable") == 0 {
		var flags, runtimeFlags []source
		for _, s := range g.sources {
			if s.nonNull && s.t == (Ty{Base: "bool"}) {
				flags = append(flags, s)
				if s.call != "" {
					runtimeFlags = append(runtimeFlags, s)
				}
			}
		}
		if len(runtimeFlags) > 0 && rapid.IntRange(0, 2).Draw(t, "preferRuntimeFlag") != 0 {
			flags = runtimeFlags
		} else if len(flags) == 0 || rapid.IntRange(0, 3).Draw(t, "newFlag") == 0 {
			if len(g.pl.Ins) < 8 {
				flags = []source{g.newInput(Ty{Base: "bool"}, true)}
			}
		}
		if len(flags) > 0 {
			r := flags[rapid.IntRange(0, len(flags)-1).Draw(t, "flag")].ref
			c.Disabled = &r
			disabled = true
		}
	}
	if c.Mapped && mapShape == "" {
		c.Mapped = false
	}
	if !c.Preflight {
		g.addCallSources(c, mapShape, mapKind, disabled)
	}
}

// projectsThroughArrayAndMap: does the referenced value pick a member out of
// structs that sit in an array and in a typed map at once?
func (g *pgen) projectsThroughArrayAndMap(r Ref) bool {
	for _, s := range g.candidatesAll() {
		if s.ref.Call == r.Call && s.ref.Out == r.Out && strings.Join(s.ref.Path, ".") == strings.Join(r.Path, ".") {
			return s.t.Arr > 0 && s.t.Map > 0
		}
	}
	return true // unknown: stay on the safe side
}

// badSplitFeed: would binding e to an input the callee maps over create a
// shape excluded because of a known finding?
func (g *pgen) badSplitFeed(e Expr) bool {
	if g.curCallee != "" && g.excludedTwin(e) {
		return true
	}
	r, ok := e.(Ref)
	if !ok || r.Call == "" {
		return false
	}
	if len(r.Path) > 0 && g.projectsThroughArrayAndMap(r) && g.excluded("split-over-projected-output") {
		return true
	}
	if pc := g.pl.Call(r.Call); pc != nil && pc.Disabled != nil && g.excluded("split-over-disabled-call-output") {
		return true
	}
	return false
}

// genWildcardPair adds two calls of one stage whose arguments all come from
// a struct value each ("* = self.w1", "* = self.w2"): a struct with one
// member per parameter of the stage is declared, and two inputs of that
// type are added to the pipeline.
func (g *pgen) genWildcardPair(pl *Pipeline, used map[string]int) bool {
	var cands []*Stage
	for _, st := range g.prog.Stages {
		ok := st.Name != "PF0" && len(st.Ins) >= 1
		for _, in := range st.Ins {
			if in.Flag {
				ok = false
			}
		}
		if ok {
			cands = append(cands, st)
		}
	}
	if len(cands) == 0 || len(pl.Ins) > 6 {
		return false
	}
	st := cands[rapid.IntRange(0, len(cands)-1).Draw(g.t, "wildcardStage")]
	sname := "ARGS_" + st.Name
	if g.u.Struct(sname) == nil {
		as := &Struct{Name: sname}
		for _, in := range st.Ins {
			as.Fields = append(as.Fields, Field{Name: in.Name, T: in.T})
		}
		g.u.Structs = append(g.u.Structs, as)
	}
	for k := 0; k < 2; k++ {
		in := g.newInput(Ty{Base: sname}, false)
		c := &Call{Id: fmt.Sprintf("%s_W%d", st.Name, used[st.Name]), Callee: st.Name}
		used[st.Name]++
		for _, p := range st.Ins {
			c.Bindings = append(c.Bindings, Binding{Param: p.Name, E: Ref{Out: in.ref.Out, Path: []string{p.Name}}})
		}
		w := in.ref
		c.WildcardFrom = &w
		pl.Calls = append(pl.Calls, c)
		g.addCallSources(c, "", "", false)
	}
	return true
}

// reachablePipelines: the pipeline and every pipeline it calls, transitively.
func (g *pgen) reachablePipelines(name string, into map[string]bool) {
	pl := g.prog.Pipeline(name)
	if pl == nil || into[name] {
		return
	}
	into[name] = true
	for _, c := range pl.Calls {
		g.reachablePipelines(c.Callee, into)
	}
}

// excludedTwin: e (at any depth) refers to a call of a pipeline that shares
// a map call statement with the pipeline being called now - two instances
// of one map call, the forks of one feeding the split of the other (known
// finding: the fork of the twin is not found, the element arrives as null).
func (g *pgen) excludedTwin(e Expr) bool {
	mine := map[string]bool{}
	g.reachablePipelines(g.curCallee, mine)
	if len(mine) == 0 {
		return false
	}
	var refs []Ref
	var walk func(e Expr)
	walk = func(e Expr) {
		switch x := e.(type) {
		case Ref:
			if x.Call != "" {
				refs = append(refs, x)
			}
		case Split:
			walk(x.E)
		case ArrayLit:
			for _, el := range x.Elems {
				walk(el)
			}
		case MapLit:
			for _, el := range x.Vals {
				walk(el)
			}
		case StructLit:
			for _, el := range x.Vals {
				walk(el)
			}
		}
	}
	walk(e)
	for _, r := range refs {
		pc := g.pl.Call(r.Call)
		if pc == nil {
			continue
		}
		theirs := map[string]bool{}
		g.reachablePipelines(pc.Callee, theirs)
		for name := range theirs {
			if !mine[name] {
				continue
			}
			for _, c := range g.prog.Pipeline(name).Calls {
				if c.Mapped && g.excluded("twin-instance-feeds-split") {
					return true
				}
			}
		}
	}
	return false
}

// genFlagExpr: a bool that is never null.
func (g *pgen) genFlagExpr() Expr {
	var flags []source
	for _, s := range g.sources {
		if s.nonNull && s.t == (Ty{Base: "bool"}) {
			flags = append(flags, s)
		}
	}
	switch k := rapid.IntRange(0, 3).Draw(g.t, "flagKind"); {
	case k == 0 && len(g.pl.Ins) < 8:
		return g.newInput(Ty{Base: "bool"}, true).ref
	case k <= 2 && len(flags) > 0:
		return flags[rapid.IntRange(0, len(flags)-1).Draw(g.t, "flagSrc")].ref
	}
	return Lit{V: rapid.Bool().Draw(g.t, "flagLit"), T: Ty{Base: "bool"}}
}

// genFlagExprNoInput: a never-null bool that is a literal or an in-scope
// run-time flag.
func (g *pgen) genFlagExprNoInput() Expr {
	var flags []source
	for _, s := range g.sources {
		if s.nonNull && s.t == (Ty{Base: "bool"}) && s.call != "" {
			flags = append(flags, s)
		}
	}
	if len(flags) > 0 && rapid.IntRange(0, 2).Draw(g.t, "elemFlagRef") != 0 {
		return flags[rapid.IntRange(0, len(flags)-1).Draw(g.t, "elemFlagSrc")].ref
	}
	return Lit{V: rapid.IntRange(0, 3).Draw(g.t, "elemFlagLit") == 0, T: Ty{Base: "bool"}}
}

func exprUsesCall(e Expr) bool {
	switch x := e.(type) {
	case Ref:
		return x.Call != ""
	case Split:
		return exprUsesCall(x.E)
	case ArrayLit:
		for _, el := range x.Elems {
			if exprUsesCall(el) {
				return true
			}
		}
	case MapLit:
		for _, el := range x.Vals {
			if exprUsesCall(el) {
				return true
			}
		}
	case StructLit:
		for _, el := range x.Vals {
			if exprUsesCall(el) {
				return true
			}
		}
	}
	return false
}

// markNonEmpty: the stage output a pipeline is mapped over is never empty at
// run time while the known finding about empty collections is listed.
func (g *pgen) markNonEmpty(c *Call, s source) {
	if g.prog.Stage(c.Callee) != nil || !g.cfg.Exclude["mapped-pipeline-over-empty"] || s.call == "" {
		return
	}
	if pc := g.pl.Call(s.call); pc != nil {
		if st := g.prog.Stage(pc.Callee); st != nil {
			for i := range st.Outs {
				if st.Outs[i].Name == s.ref.Out {
					st.Outs[i].NonEmpty = true
					g.excluded("mapped-pipeline-over-empty")
				}
			}
		}
	}
}

// sharesWithMappedPipeline: does calling the pipeline create a second
// instance of call statements of which a map-called instance exists?
func (g *pgen) sharesWithMappedPipeline(callee string) bool {
	mine := map[string]bool{}
	g.reachablePipelines(callee, mine)
	for _, opl := range append(append([]*Pipeline{}, g.prog.Pipelines...), g.pl) {
		for _, oc := range opl.Calls {
			if !oc.Mapped || g.prog.Pipeline(oc.Callee) == nil {
				continue
			}
			theirs := map[string]bool{}
			g.reachablePipelines(oc.Callee, theirs)
			for name := range theirs {
				if mine[name] {
					return true
				}
			}
		}
	}
	return false
}

// passThroughParams lists the inputs of a pipeline that its call-free return
// bindings refer to; ok is false if a return binding is a pure literal (or
// mixes several inputs).
func (g *pgen) passThroughParams(pl *Pipeline) ([]string, bool) {
	seen := map[string]bool{}
	var req []string
	for _, b := range pl.Ret {
		if exprUsesCall(b.E) {
			// (an output of a call that may be disabled by a constant flag
			// is a constant null as well)
			disabled := false
			var walkC func(e Expr)
			walkC = func(e Expr) {
				switch x := e.(type) {
				case Ref:
					if pc := pl.Call(x.Call); pc != nil && pc.Disabled != nil {
						disabled = true
					}
				case ArrayLit:
					for _, el := range x.Elems {
						walkC(el)
					}
				case MapLit:
					for _, el := range x.Vals {
						walkC(el)
					}
				case StructLit:
					for _, el := range x.Vals {
						walkC(el)
					}
				}
			}
			walkC(b.E)
			if disabled {
				return nil, false
			}
			continue
		}
		var selfs []string
		var walk func(e Expr)
		walk = func(e Expr) {
			switch x := e.(type) {
			case Ref:
				selfs = append(selfs, x.Out)
			case ArrayLit:
				for _, el := range x.Elems {
					walk(el)
				}
			case MapLit:
				for _, el := range x.Vals {
					walk(el)
				}
			case StructLit:
				for _, el := range x.Vals {
					walk(el)
				}
			}
		}
		walk(b.E)
		if len(selfs) != 1 {
			return nil, false
		}
		if r, isRef := b.E.(Ref); !isRef || len(r.Path) > 0 {
			return nil, false
		}
		if !seen[selfs[0]] {
			seen[selfs[0]] = true
			req = append(req, selfs[0])
		}
	}
	return req, true
}

// holdsTypedMap: is there a typed map anywhere inside values of the type
// (through struct members, also of callable output structs)?
func (g *pgen) holdsTypedMap(ty Ty, depth int) bool {
	if ty.Map > 0 {
		return true
	}
	if depth > 6 {
		return false
	}
	for _, f := range g.structFields(ty.Base) {
		if g.holdsTypedMap(f.T, depth+1) {
			return true
		}
	}
	return false
}

// insertProducer adds a plain (not mapped, not disabled) call of a stage with
// an output of exactly type ty to the current pipeline and returns that
// output as a source.
func (g *pgen) insertProducer(ty Ty) (source, bool) {
	// one time in three, when the universe allows it: a stage that returns a
	// collection of structs, split over through a member projection
	// (split P.items.count) - the member values are found at run time by
	// walking the collection
	if rapid.IntRange(0, 2).Draw(g.t, "projectedProducer") == 0 {
		for _, st := range g.prog.Stages {
			if st.Name == "PF0" {
				continue
			}
			for _, o := range st.Outs {
				sd := g.u.Struct(o.T.Base)
				if sd == nil || (o.T.Arr > 0) == (o.T.Map > 0) {
					continue // a struct in exactly one kind of collection
				}
				for _, f := range sd.Fields {
					if pt, ok := projectType(Ty{Arr: o.T.Arr, Map: o.T.Map}, f.T); !ok || pt != ty {
						continue
					}
					pc := &Call{Id: fmt.Sprintf("%s_P%d", st.Name, len(g.pl.Calls)), Callee: st.Name}
					g.inProducer = true
					saveCfg, saveReserved := *g.cfg, g.reserved
					g.cfg.MapCalls, g.cfg.Disabled = false, false
					g.genCallBindings(pc)
					*g.cfg = saveCfg
					g.reserved = saveReserved
					g.inProducer = false
					g.pl.Calls = append(g.pl.Calls, pc)
					for _, s := range g.candidatesAll() {
						if s.call == pc.Id && s.ref.Out == o.Name && len(s.ref.Path) == 1 && s.ref.Path[0] == f.Name {
							return s, true
						}
					}
					return source{}, false
				}
			}
		}
		// no such stage yet: declare one, if some struct has a member of
		// the element type
		if el, ok := ty.Elem(); ok && !g.cfg.VDR {
			for _, sd := range g.u.Structs {
				for _, f := range sd.Fields {
					if f.T != el || sd.WiderOf != "" {
						continue
					}
					ot := Ty{Base: sd.Name, Arr: 1}
					if ty.IsTypedMap() {
						ot = Ty{Base: sd.Name, Map: 1}
					}
					if pt, ok := projectType(Ty{Arr: ot.Arr, Map: ot.Map}, f.T); !ok || pt != ty {
						continue
					}
					name := fmt.Sprintf("STQ%d", len(g.prog.Stages))
					g.prog.Stages = append(g.prog.Stages, &Stage{Name: name, SrcLang: "comp", SrcPath: "stagebin " + name,
						Ins: []Param{{Name: "p", T: Ty{Base: "int"}}}, Outs: []Param{{Name: "items", T: ot}}})
					pc := &Call{Id: fmt.Sprintf("%s_P%d", name, len(g.pl.Calls)), Callee: name}
					g.inProducer = true
					saveCfg, saveReserved := *g.cfg, g.reserved
					g.cfg.MapCalls, g.cfg.Disabled = false, false
					g.genCallBindings(pc)
					*g.cfg = saveCfg
					g.reserved = saveReserved
					g.inProducer = false
					g.pl.Calls = append(g.pl.Calls, pc)
					for _, s := range g.candidatesAll() {
						if s.call == pc.Id && s.ref.Out == "items" && len(s.ref.Path) == 1 && s.ref.Path[0] == f.Name {
							return s, true
						}
					}
					return source{}, false
				}
			}
		}
	}
	for _, st := range g.prog.Stages {
		if st.Name == "PF0" {
			continue
		}
		for _, o := range st.Outs {
			if o.T != ty {
				continue
			}
			pc := &Call{Id: fmt.Sprintf("%s_P%d", st.Name, len(g.pl.Calls)), Callee: st.Name}
			g.inProducer = true
			saveCfg, saveReserved := *g.cfg, g.reserved
			g.cfg.MapCalls, g.cfg.Disabled = false, false
			g.genCallBindings(pc)
			*g.cfg = saveCfg
			g.reserved = saveReserved
			g.inProducer = false
			g.pl.Calls = append(g.pl.Calls, pc)
			for _, s := range g.sources {
				if s.call == pc.Id && s.ref.Out == o.Name && len(s.ref.Path) == 0 {
					return s, true
				}
			}
			return source{}, false
		}
	}
	return source{}, false
}

// genMapSources picks the parameters the call is mapped over and binds them
// to split sources that are consistent by construction (same shape).
func (g *pgen) genMapSources(c *Call, ins []Param) (shape, kind string, idx map[int]bool) {
	t := g.t
	idx = map[int]bool{}
	first := rapid.IntRange(0, len(ins)-1).Draw(t, "splitParam")
	// prefer a parameter for which a run-time produced collection is in scope
	if rapid.IntRange(0, 3).Draw(t, "seekDynamic") != 0 {
		for off := 0; off < len(ins); off++ {
			j := (first + off) % len(ins)
			if ins[j].Flag {
				continue
			}
			found := false
			for _, ct := range []Ty{ins[j].T.ArrayOf(), ins[j].T.MapOf()} {
				if ct.Base == "map" && ct.Map > 0 || (ins[j].T.Map > 0 && ct.Arr == 0) {
					continue
				}
				for _, s := range g.candidates(ct, nil) {
					if s.call != "" && s.shape != "" && len(s.ref.Path) == 0 && !s.maybeDisabled {
						found = true
					}
				}
			}
			if found {
				first = j
				break
			}
		}
	}
	if g.mustSplit >= 0 {
		first = g.mustSplit
	}
	if first == g.reserved && g.reserved >= 0 {
		if g.mustSplit >= 0 {
			return "", "", idx
		}
		first = (first + 1) % len(ins)
	}
	in := ins[first]
	if in.Flag || (first == g.reserved && g.reserved >= 0) {
		return "", "", idx
	}
	overMap := rapid.IntRange(0, 2).Draw(t, "overMap")
	wantMap := in.T.Map == 0 && in.T.Base != "map" && (overMap == 0 || g.cfg.KeyedMapBias && overMap == 1)
	if _, outs, isStage := g.prog.Callable(c.Callee); wantMap {
		for _, o := range outs {
			if o.T.Map > 0 || o.T.Base == "map" {
				wantMap = false // the map call would produce a nested map
			} else if !isStage && g.holdsTypedMap(o.T, 0) && g.excluded("mapped-pipeline-over-map-with-map-member") {
				// known finding: a pipeline mapped over a typed map whose
				// outputs hold a typed map inside a struct
				wantMap = false
			}
		}
		if wantMap && !isStage && g.cfg.Exclude["mapped-pipeline-over-map-with-map-member"] {
			// ... or which contains (at any depth) a call with such an output
			inside := map[string]bool{}
			g.reachablePipelines(c.Callee, inside)
			for name := range inside {
				for _, ic := range g.prog.Pipeline(name).Calls {
					_, iouts, _ := g.prog.Callable(ic.Callee)
					for _, o := range iouts {
						if g.holdsTypedMap(o.T, 0) || o.T.Base == "map" {
							wantMap = false
						}
					}
				}
			}
			if !wantMap {
				g.excluded("mapped-pipeline-over-map-with-map-member")
			}
		}
	}
	var collT Ty
	if wantMap {
		collT = in.T.MapOf()
		kind = "map"
	} else {
		collT = in.T.ArrayOf()
		kind = "array"
	}
	cands := g.candidates(collT, nil)
	isColl := func(s source) bool {
		if kind == "array" {
			return s.t.Arr > 0
		}
		return s.t.Arr == 0 && s.t.Map > 0
	}
	okSplit := func(s source) bool {
		if s.shape == "" || !isColl(s) {
			return false
		}
		// (known finding: a projection through an array AND a typed map of
		// structs is not forked; through one kind of collection it is)
		if s.call != "" && len(s.ref.Path) > 0 && s.t.Arr > 0 && s.t.Map > 0 && g.excluded("split-over-projected-output") {
			return false
		}
		if s.maybeDisabled && g.excluded("split-over-disabled-call-output") {
			return false
		}
		if g.prog.Stage(c.Callee) == nil && g.cfg.StaticPipelineMaps && s.call != "" {
			return false // pipelines are mapped over literals and inputs only
		}
		if g.prog.Stage(c.Callee) == nil && g.cfg.Exclude["mapped-pipeline-over-empty"] {
			// known finding: stages of a mapped pipeline that do not use
			// the element run although the collection is empty at run
			// time.  Sources of mapped pipelines are direct stage outputs
			// (marked never-empty below), literals, or top-level inputs.
			if s.call == "" && !g.isTop {
				g.excluded("mapped-pipeline-over-empty")
				return false
			}
			if s.call != "" {
				pc := g.pl.Call(s.call)
				if pc == nil || g.prog.Stage(pc.Callee) == nil || pc.Mapped || len(s.ref.Path) > 0 || s.ref.Out == "" {
					g.excluded("mapped-pipeline-over-empty")
					return false
				}
			}
		}
		if (g.cfg.MapLevel == 1 || g.cfg.NoChainedMaps) && s.call != "" {
			if pc := g.pl.Call(s.call); pc != nil && (pc.Mapped || g.prog.Stage(pc.Callee) == nil) {
				return false // no chained maps at level 1
			}
		}
		return true
	}
	var cs []source
	for _, s := range cands {
		if okSplit(s) {
			cs = append(cs, s)
		}
	}
	roll := rapid.IntRange(0, 9).Draw(t, "splitSrcKind")
	// no collection produced at run time in scope: call a stage that
	// produces one first (so that forks get created while the pipestance
	// runs - the static case needs no help to be frequent)
	hasDyn := false
	for _, s := range cs {
		if s.call != "" {
			hasDyn = true
		}
	}
	if !hasDyn && !g.inProducer && !(g.cfg.StaticPipelineMaps && g.prog.Stage(c.Callee) == nil) && rapid.IntRange(0, 3).Draw(t, "makeProducer") != 0 {
		if s, ok := g.insertProducer(collT); ok && okSplit(s) {
			cs = append(cs, s)
			roll = 0
		}
	}
	if g.cfg.SplitFlags && g.prog.Pipeline(c.Callee) != nil && kind == "array" {
		for _, other := range ins {
			if other.Flag && rapid.Bool().Draw(t, "literalForFlags") {
				roll = 9 // a literal source: flags can be given per element
				break
			}
		}
	}
	var e Expr
	switch {
	case len(cs) > 0 && roll < 6:
		// prefer collections produced at run time
		var dyn []source
		for _, s := range cs {
			if s.call != "" {
				dyn = append(dyn, s)
			}
		}
		if len(dyn) > 0 && rapid.IntRange(0, 3).Draw(t, "preferDynamic") != 0 {
			cs = dyn
		}
		s := cs[rapid.IntRange(0, len(cs)-1).Draw(t, "splitCand")]
		e, shape = s.ref, s.shape
		g.markNonEmpty(c, s)
	case roll < 8 && len(g.pl.Ins) < 8:
		s := g.newInput(collT, false)
		e, shape = s.ref, s.shape
	default:
		// literal collection (non-empty: the grammar demands it)
		n := rapid.IntRange(1, 3).Draw(t, "splitLitLen")
		vc := g.cfg.Values
		if kind == "array" {
			a := ArrayLit{}
			for i := 0; i < n; i++ {
				a.Elems = append(a.Elems, Lit{V: g.u.GenValue(t, in.T, &vc), T: in.T})
			}
			e, shape = a, fmt.Sprintf("lit:array:%d", n)
		} else {
			m := MapLit{}
			keys := []string{"ka", "kb", "kc"}[:n]
			for _, k := range keys {
				m.Keys = append(m.Keys, k)
				m.Vals = append(m.Vals, Lit{V: g.u.GenValue(t, in.T, &vc), T: in.T})
			}
			e, shape = m, fmt.Sprintf("lit:map:%d", n)
		}
	}
	c.Mapped = true
	c.Bindings = append(c.Bindings, Binding{Param: in.Name, E: Split{E: e}})
	idx[first] = true
	g.markSplitSrc(e)
	// further split parameters with the same shape
	for j, other := range ins {
		if other.Flag && j != first && kind == "array" && len(shape) > 10 && shape[:10] == "lit:array:" && g.cfg.SplitFlags && rapid.IntRange(0, 1).Draw(t, "splitFlag") == 0 {
			// the disabling flag of calls inside a mapped pipeline, given
			// per element: literal and run-time flags side by side
			if lit, ok := e.(ArrayLit); ok {
				a := ArrayLit{}
				for range lit.Elems {
					a.Elems = append(a.Elems, g.genFlagExprNoInput())
				}
				c.Bindings = append(c.Bindings, Binding{Param: other.Name, E: Split{E: a}})
				idx[j] = true
			}
			continue
		}
		if j == first || (j == g.reserved && g.reserved >= 0) || other.Flag || rapid.IntRange(0, 2).Draw(t, "moreSplit") != 0 {
			continue
		}
		var ct Ty
		if kind == "map" {
			if other.T.Map > 0 || other.T.Base == "map" {
				continue
			}
			ct = other.T.MapOf()
		} else {
			ct = other.T.ArrayOf()
		}
		var same []source
		for _, s := range g.candidates(ct, nil) {
			if s.shape == shape && okSplit(s) {
				same = append(same, s)
			}
		}
		if len(same) > 0 {
			s := same[rapid.IntRange(0, len(same)-1).Draw(t, "splitCand2")]
			g.markNonEmpty(c, s)
			c.Bindings = append(c.Bindings, Binding{Param: other.Name, E: Split{E: s.ref}})
			idx[j] = true
			g.markSplitSrc(s.ref)
		} else if len(shape) > 4 && shape[:4] == "lit:" {
			vc := g.cfg.Values
			if lit, ok := e.(ArrayLit); ok {
				a := ArrayLit{}
				for range lit.Elems {
					a.Elems = append(a.Elems, Lit{V: g.u.GenValue(t, other.T, &vc), T: other.T})
				}
				c.Bindings = append(c.Bindings, Binding{Param: other.Name, E: Split{E: a}})
				idx[j] = true
			} else if lit, ok := e.(MapLit); ok {
				m := MapLit{}
				for _, k := range lit.Keys {
					m.Keys = append(m.Keys, k)
					m.Vals = append(m.Vals, Lit{V: g.u.GenValue(t, other.T, &vc), T: other.T})
				}
				c.Bindings = append(c.Bindings, Binding{Param: other.Name, E: Split{E: m}})
				idx[j] = true
			}
		}
	}
	return shape, kind, idx
}

func (g *pgen) genTopCall(top *Pipeline) *Call {
	t := g.t
	c := &Call{Id: top.Name, Callee: top.Name}
	vc := g.cfg.Values
	for _, in := range top.Ins {
		var v any
		if in.T == (Ty{Base: "bool"}) {
			v = rapid.Bool().Draw(t, "topFlag") // flags are never null
		} else if in.SplitSrc {
			// collections that are mapped over: mostly non-empty
			vc2 := vc
			vc2.NullPct = 0
			v = g.u.GenValue(t, in.T, &vc2)
			for tries := 0; tries < 3 && isEmptyColl(v) && rapid.IntRange(0, 9).Draw(t, "allowEmpty") != 0; tries++ {
				v = g.u.GenValue(t, in.T, &vc2)
			}
			if rapid.IntRange(0, 19).Draw(t, "nullSplitSrc") == 0 {
				v = nil
			}
		} else {
			v = g.u.GenValue(t, in.T, &vc)
		}
		c.Bindings = append(c.Bindings, Binding{Param: in.Name, E: Lit{V: v, T: in.T}})
	}
	return c
}

func isEmptyColl(v any) bool {
	switch x := v.(type) {
	case []any:
		return len(x) == 0
	case *jsonx.Obj:
		return len(x.Keys) == 0
	}
	return v == nil
}
