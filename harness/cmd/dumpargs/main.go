// dumpargs reports exactly what it was started with: argv, the VERIF_E*
// environment variables and its working directory, hex-encoded, to the file
// named by $DUMPARGS_OUT (written atomically), and writes fixed tokens to
// stdout and stderr so that redirections can be checked.
package main

import (
	"encoding/hex"
	"encoding/json"
	"fmt"
	"os"
	"strings"
)

func main() {
	rep := map[string]any{}
	var argv []string
	for _, a := range os.Args {
		argv = append(argv, hex.EncodeToString([]byte(a)))
	}
	rep["argv"] = argv
	env := map[string]string{}
	for _, kv := range os.Environ() {
		if i := strings.IndexByte(kv, '='); i > 0 && strings.HasPrefix(kv, "VERIF_E") {
			env[kv[:i]] = hex.EncodeToString([]byte(kv[i+1:]))
		}
	}
	rep["env"] = env
	cwd, _ := os.Getwd()
	rep["cwd"] = hex.EncodeToString([]byte(cwd))
	fmt.Fprint(os.Stdout, "DUMPARGS-STDOUT-TOKEN")
	fmt.Fprint(os.Stderr, "DUMPARGS-STDERR-TOKEN")
	out := os.Getenv("DUMPARGS_OUT")
	if out == "" {
		os.Exit(3)
	}
	b, _ := json.Marshal(rep)
	if err := os.WriteFile(out+".tmp", b, 0o644); err != nil {
		os.Exit(4)
	}
	if err := os.Rename(out+".tmp", out); err != nil {
		os.Exit(5)
	}
}
