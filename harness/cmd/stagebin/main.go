// stagebin is the code of every generated stage when a program runs under
// the real mrp / mrjob: "stagebin <STAGE> <split|main|join> <metadata path>
// <files path> <run file>".  It computes the outputs with the same stage
// function the oracles use, records what it did in the ledger, and acts out
// the faults of plan.json.
package main

import (
	"encoding/json"
	"fmt"
	"hash/fnv"
	"os"
	"path/filepath"
	"strconv"
	"strings"
	"syscall"
	"time"

	"verifharness/filesim"
	"verifharness/jsonx"
	"verifharness/plan"
	"verifharness/simrun"
	"verifharness/stagefn"
)

type record struct {
	Identity string          `json:"identity"`
	Stage    string          `json:"stage"`
	Phase    string          `json:"phase"`
	MdPath   string          `json:"md_path"`
	Pid      int             `json:"pid"`
	Start    int64           `json:"start_ns"`
	End      int64           `json:"end_ns"`
	Args     json.RawMessage `json:"args"`
	Outs     json.RawMessage `json:"outs,omitempty"`
	Fault    string          `json:"fault,omitempty"`
	Threads  float64         `json:"threads"`
	MemGB    float64         `json:"mem_gb"`
	Attempt  int             `json:"attempt"`
	// file runs: what is wrong with the files named in the arguments
	InputProblems []string `json:"input_problems,omitempty"`
}

func die(format string, a ...any) {
	fmt.Fprintf(os.Stderr, "stagebin: "+format+"\n", a...)
	os.Exit(97)
}

func errPipe(text string) {
	f := os.NewFile(4, "errors")
	if f != nil {
		f.WriteString(text)
		f.Close()
	}
}

func readJSON(p string) (any, []byte) {
	b, err := os.ReadFile(p)
	if err != nil {
		die("reading %s: %v", p, err)
	}
	v, err := jsonx.Parse(b)
	if err != nil {
		die("parsing %s: %v", p, err)
	}
	return v, b
}

func main() {
	if len(os.Args) < 6 {
		die("usage: stagebin STAGE PHASE MDPATH FILESPATH RUNFILE")
	}
	stage, phase, md := os.Args[1], os.Args[2], os.Args[3]
	start := time.Now()
	pl, caseDir, err := plan.Find(md)
	if err != nil {
		die("no plan.json above %s: %v", md, err)
	}
	id := plan.Identity(caseDir, md, phase)
	st := pl.Prog.Stage(stage)
	if st == nil {
		die("unknown stage %s", stage)
	}
	argsV, argsRaw := readJSON(filepath.Join(md, "_args"))
	args, _ := argsV.(*jsonx.Obj)
	rec := record{Identity: id, Stage: stage, Phase: phase, MdPath: md, Pid: os.Getpid(), Start: start.UnixNano(), Args: argsRaw}
	var led *filesim.Ledger
	if pl.Opts.Files {
		led = filesim.New(filepath.Join(caseDir, "ps"))
		// every path under the pipestance named in the arguments must be
		// there, with what its producer wrote (derivable from its name)
		rec.InputProblems = checkInputs(led, argsV)
		if n, ok := led.Norm(args).(*jsonx.Obj); ok {
			args = n
			rec.Args = json.RawMessage(jsonx.Marshal(n))
		}
	}
	// what mrp reserved for this job
	if b, err := os.ReadFile(filepath.Join(md, "_jobinfo")); err == nil {
		var ji struct {
			Threads float64 `json:"threads"`
			MemGB   float64 `json:"memGB"`
		}
		json.Unmarshal(b, &ji)
		rec.Threads, rec.MemGB = ji.Threads, ji.MemGB
	}
	os.MkdirAll(pl.Ledger, 0o755)
	// attempt number = records of this identity so far + 1
	prior, _ := filepath.Glob(filepath.Join(pl.Ledger, sanitize(id)+".*.json"))
	rec.Attempt = len(prior) + 1
	write := func() {
		rec.End = time.Now().UnixNano()
		b, _ := json.Marshal(rec)
		name := filepath.Join(pl.Ledger, fmt.Sprintf("%s.%d.%d.json", sanitize(id), rec.Attempt, os.Getpid()))
		os.WriteFile(name+".tmp", b, 0o644)
		os.Rename(name+".tmp", name)
	}
	// a start marker, so that a job that never ends is visible too
	write()

	fault, has := pl.Faults[id]
	if has && fault.Once && rec.Attempt > 1 {
		has = false
	}
	if has {
		rec.Fault = fault.Kind
		if fault.SleepMs > 0 {
			time.Sleep(time.Duration(fault.SleepMs) * time.Millisecond)
		}
		if fault.Gate != "" {
			for i := 0; i < 6000; i++ {
				if _, err := os.Stat(fault.Gate); err == nil {
					break
				}
				time.Sleep(10 * time.Millisecond)
			}
		}
	}
	if pl.SleepMs > 0 {
		time.Sleep(time.Duration(pl.SleepMs) * time.Millisecond)
	}

	var outs *jsonx.Obj
	switch phase {
	case "split":
		outs = stagefn.SplitDefs(pl.Prog, st, args, &pl.Opts).JSON()
	case "join":
		defsV, _ := readJSON(filepath.Join(md, "_chunk_defs"))
		outsV, _ := readJSON(filepath.Join(md, "_chunk_outs"))
		defs, _ := defsV.([]any)
		couts, _ := outsV.([]any)
		if led != nil {
			rec.InputProblems = append(rec.InputProblems, checkInputs(led, outsV)...)
			couts, _ = led.Norm(couts).([]any)
		}
		outs = stagefn.Join(pl.Prog, st, args, defs, couts, &pl.Opts)
	default:
		if st.Split {
			outs = stagefn.ChunkMain(pl.Prog, st, args, &pl.Opts)
		} else {
			outs = stagefn.Main(pl.Prog, st, args, &pl.Opts)
		}
	}
	outName := "_outs"
	if phase == "split" {
		outName = "_stage_defs"
	}
	if led != nil {
		ph := phase
		if phase == "main" && st.Split {
			ph = "chunk"
		}
		callFork := id[:strings.LastIndexByte(id, ':')]
		call, fork := callFork, ""
		if i := strings.Index(callFork, "//"); i >= 0 {
			call, fork = callFork[:i], callFork[i+2:]
		}
		j := &simrun.Job{Fqname: id, CallPath: call, ForkName: fork, Phase: ph, Chunk: -1, MdPath: md, FilesPath: os.Args[4], Stage: st}
		m, err := led.Materialise(j, pl.Prog, outs)
		if err != nil {
			die("writing files: %v", err)
		}
		outs = m
		for _, e := range led.Order {
			e.JobName = id
		}
		eb, _ := json.Marshal(led.Order)
		name := filepath.Join(pl.Ledger, fmt.Sprintf("files.%s.%d.%d.json", sanitize(id), rec.Attempt, os.Getpid()))
		os.WriteFile(name+".tmp", eb, 0o644)
		os.Rename(name+".tmp", name)
	}
	if os.Getenv("STAGEBIN_PY") != "" {
		// called from a python stage module (adapters/python): the module
		// hands the values to the adapter, which writes them; a fault is
		// acted out in python (exception, martian.exit, os._exit, kill)
		env := jsonx.NewObj()
		env.Set("outs", outs)
		if has {
			f := jsonx.NewObj()
			f.Set("kind", fault.Kind)
			f.Set("text", fault.Text)
			env.Set("fault", f)
		}
		rec.Outs = json.RawMessage(jsonx.Marshal(outs))
		write()
		os.Stdout.Write(jsonx.Marshal(env))
		return
	}
	b := jsonx.MarshalStyle(outs, simrun.OutsStyle(id))
	if has {
		switch fault.Kind {
		case "exit":
			write()
			os.Exit(3)
		case "signal":
			write()
			syscall.Kill(os.Getpid(), syscall.SIGKILL)
			time.Sleep(time.Second)
		case "errpipe":
			errPipe(fault.Text)
			write()
			os.Exit(1)
		case "assert":
			errPipe("ASSERT:" + fault.Text)
			write()
			os.Exit(1)
		case "truncate-outs":
			b = b[:len(b)/2]
		case "missing-key":
			if len(outs.Keys) > 0 {
				r := jsonx.NewObj()
				for i, k := range outs.Keys[1:] {
					r.Set(k, outs.Vals[i+1])
				}
				b = jsonx.Marshal(r)
			}
		case "bad-stage-defs":
			b = []byte(`[1, 2]`)
		}
	}
	rec.Outs = json.RawMessage(jsonx.Marshal(outs))
	if err := os.WriteFile(filepath.Join(md, outName), b, 0o644); err != nil {
		die("writing %s: %v", outName, err)
	}
	write()
}

// checkInputs: every string that is a path inside the pipestance names a
// file (or directory) that exists; a regular file holds the content its
// name stands for.  Paths whose name says "returned but never written" are
// not expected to exist.
func checkInputs(led *filesim.Ledger, v any) []string {
	var probs []string
	var walk func(v any)
	walk = func(v any) {
		switch x := v.(type) {
		case string:
			if !strings.HasPrefix(x, led.Root+"/") {
				return
			}
			token := filepath.Base(x)
			fi, err := os.Stat(x)
			if err != nil {
				if filesim.LeafKind("file", token) == "never" || filesim.LeafKind("path", token) == "never" {
					return
				}
				probs = append(probs, x+": "+err.Error())
				return
			}
			if fi.IsDir() {
				return
			}
			if b, err := os.ReadFile(x); err != nil || string(b) != filesim.ContentFor(token) {
				probs = append(probs, fmt.Sprintf("%s: content %q (%v)", x, b, err))
			}
		case []any:
			for _, e := range x {
				walk(e)
			}
		case *jsonx.Obj:
			for _, e := range x.Vals {
				walk(e)
			}
		}
	}
	walk(v)
	return probs
}

func sanitize(s string) string {
	r := []byte(s)
	for i, c := range r {
		if !(c >= 'a' && c <= 'z' || c >= 'A' && c <= 'Z' || c >= '0' && c <= '9' || c == '.' || c == '_' || c == '-') {
			r[i] = '_'
		}
	}
	h := fnv.New32a()
	h.Write([]byte(s))
	return string(r) + "-" + strconv.FormatUint(uint64(h.Sum32()), 16)
}
