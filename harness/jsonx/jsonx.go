// Package jsonx: JSON values with exact number tokens.
//
// A value is one of nil, bool, string, json.Number, []any, *Obj.  Objects
// keep their key order so that serialisation is a pure function of the
// generated value (no map iteration inside properties).
package jsonx

import (
	"bytes"
	"encoding/json"
	"fmt"
	"io"
	"sort"
	"strconv"
	"strings"
	"unicode/utf16"
)

type Obj struct {
	Keys []string
	Vals []any
}

func (o *Obj) Get(k string) (any, bool) {
	for i := len(o.Keys) - 1; i >= 0; i-- {
		if o.Keys[i] == k {
			return o.Vals[i], true
		}
	}
	return nil, false
}

func (o *Obj) Set(k string, v any) {
	for i := range o.Keys {
		if o.Keys[i] == k {
			o.Vals[i] = v
			return
		}
	}
	o.Keys = append(o.Keys, k)
	o.Vals = append(o.Vals, v)
}

func NewObj() *Obj { return &Obj{} }

// Parse decodes exactly one JSON value (trailing garbage is an error);
// duplicate keys: last one wins, as in encoding/json.
func Parse(data []byte) (any, error) {
	dec := json.NewDecoder(bytes.NewReader(data))
	dec.UseNumber()
	v, err := parseValue(dec)
	if err != nil {
		return nil, err
	}
	if _, err := dec.Token(); err != io.EOF {
		return nil, fmt.Errorf("trailing data after JSON value")
	}
	return v, nil
}

func parseValue(dec *json.Decoder) (any, error) {
	tok, err := dec.Token()
	if err != nil {
		return nil, err
	}
	switch t := tok.(type) {
	case json.Delim:
		switch t {
		case '[':
			arr := []any{}
			for dec.More() {
				v, err := parseValue(dec)
				if err != nil {
					return nil, err
				}
				arr = append(arr, v)
			}
			if _, err := dec.Token(); err != nil {
				return nil, err
			}
			return arr, nil
		case '{':
			o := NewObj()
			for dec.More() {
				kt, err := dec.Token()
				if err != nil {
					return nil, err
				}
				k, ok := kt.(string)
				if !ok {
					return nil, fmt.Errorf("non-string key")
				}
				v, err := parseValue(dec)
				if err != nil {
					return nil, err
				}
				o.Set(k, v)
			}
			if _, err := dec.Token(); err != nil {
				return nil, err
			}
			return o, nil
		}
		return nil, fmt.Errorf("unexpected delimiter %v", t)
	default:
		return tok, nil
	}
}

// Equal compares two values; numbers are compared by token unless
// numeric is set, in which case they are compared as exact decimals
// (1.0 == 1, 1e2 == 100) via big-float-free normalisation.
func Equal(a, b any, numeric bool) bool {
	switch x := a.(type) {
	case nil:
		return b == nil
	case bool:
		y, ok := b.(bool)
		return ok && x == y
	case string:
		y, ok := b.(string)
		return ok && x == y
	case json.Number:
		y, ok := b.(json.Number)
		if !ok {
			return false
		}
		if x == y {
			return true
		}
		if numeric {
			return NormNumber(string(x)) == NormNumber(string(y))
		}
		return false
	case []any:
		y, ok := b.([]any)
		if !ok || len(x) != len(y) {
			return false
		}
		for i := range x {
			if !Equal(x[i], y[i], numeric) {
				return false
			}
		}
		return true
	case *Obj:
		y, ok := b.(*Obj)
		if !ok || len(x.Keys) != len(y.Keys) {
			return false
		}
		for i, k := range x.Keys {
			yv, ok := y.Get(k)
			if !ok || !Equal(x.Vals[i], yv, numeric) {
				return false
			}
		}
		return true
	}
	panic(fmt.Sprintf("jsonx.Equal: unexpected %T", a))
}

// NormNumber turns a JSON number token into a canonical exact decimal
// scientific form "<sign><digits>e<exp>" (digits without leading or
// trailing zeros), so that equal reals get equal strings.
func NormNumber(tok string) string {
	s := tok
	neg := false
	if strings.HasPrefix(s, "-") {
		neg = true
		s = s[1:]
	}
	exp := 0
	if i := strings.IndexAny(s, "eE"); i >= 0 {
		e, err := strconv.Atoi(s[i+1:])
		if err != nil {
			return "?" + tok
		}
		exp = e
		s = s[:i]
	}
	if i := strings.IndexByte(s, '.'); i >= 0 {
		exp -= len(s) - i - 1
		s = s[:i] + s[i+1:]
	}
	s = strings.TrimLeft(s, "0")
	for strings.HasSuffix(s, "0") {
		s = s[:len(s)-1]
		exp++
	}
	if s == "" {
		return "0"
	}
	if neg {
		s = "-" + s
	}
	return s + "e" + strconv.Itoa(exp)
}

// Style controls serialisation; all choices come from the caller (rapid).
type Style struct {
	// Pad returns whitespace to emit at a structural position.
	Pad func() string
	// ASCII writes every non-ASCII character as \uXXXX (surrogate pairs
	// above the BMP), which is what Python's json.dumps does by default.
	ASCII bool
	// EscapeSlash writes '/' as "\/" (legal JSON; PHP's json_encode).
	EscapeSlash bool
	// Spaced writes ", " and ": " separators (Python's default).
	Spaced bool
}

// PythonStyle is the output style of Python's json.dumps with defaults.
var PythonStyle = &Style{ASCII: true, Spaced: true}

func writeStringStyle(b *bytes.Buffer, s string, st *Style) {
	if st == nil || (!st.ASCII && !st.EscapeSlash) {
		WriteString(b, s)
		return
	}
	var tmp bytes.Buffer
	WriteString(&tmp, s)
	for _, r := range tmp.String() {
		switch {
		case r == '/' && st.EscapeSlash:
			b.WriteString("\\/")
		case r < 0x80 || !st.ASCII:
			b.WriteRune(r)
		case r >= 0x10000:
			r1, r2 := utf16.EncodeRune(r)
			fmt.Fprintf(b, "\\u%04x\\u%04x", r1, r2)
		default:
			fmt.Fprintf(b, "\\u%04x", r)
		}
	}
}

func Marshal(v any) []byte {
	var b bytes.Buffer
	write(&b, v, nil)
	return b.Bytes()
}

func MarshalStyle(v any, st *Style) []byte {
	var b bytes.Buffer
	write(&b, v, st)
	return b.Bytes()
}

func pad(b *bytes.Buffer, st *Style) {
	if st != nil && st.Pad != nil {
		b.WriteString(st.Pad())
	}
}

func write(b *bytes.Buffer, v any, st *Style) {
	switch x := v.(type) {
	case nil:
		b.WriteString("null")
	case bool:
		if x {
			b.WriteString("true")
		} else {
			b.WriteString("false")
		}
	case string:
		writeStringStyle(b, x, st)
	case json.Number:
		b.WriteString(string(x))
	case []any:
		b.WriteByte('[')
		for i, e := range x {
			if i > 0 {
				b.WriteByte(',')
				if st != nil && st.Spaced {
					b.WriteByte(' ')
				}
			}
			pad(b, st)
			write(b, e, st)
			pad(b, st)
		}
		if len(x) == 0 {
			pad(b, st)
		}
		b.WriteByte(']')
	case *Obj:
		b.WriteByte('{')
		for i, k := range x.Keys {
			if i > 0 {
				b.WriteByte(',')
				if st != nil && st.Spaced {
					b.WriteByte(' ')
				}
			}
			pad(b, st)
			writeStringStyle(b, k, st)
			pad(b, st)
			b.WriteByte(':')
			if st != nil && st.Spaced {
				b.WriteByte(' ')
			}
			pad(b, st)
			write(b, x.Vals[i], st)
			pad(b, st)
		}
		if len(x.Keys) == 0 {
			pad(b, st)
		}
		b.WriteByte('}')
	default:
		panic(fmt.Sprintf("jsonx.write: unexpected %T", v))
	}
}

// WriteString writes a JSON string literal without HTML escaping.
func WriteString(b *bytes.Buffer, s string) {
	enc := json.NewEncoder(b)
	enc.SetEscapeHTML(false)
	if err := enc.Encode(s); err != nil {
		panic(err)
	}
	b.Truncate(b.Len() - 1) // newline
}

// SortKeys returns a deep copy with object keys sorted.
func SortKeys(v any) any {
	switch x := v.(type) {
	case []any:
		r := make([]any, len(x))
		for i := range x {
			r[i] = SortKeys(x[i])
		}
		return r
	case *Obj:
		idx := make([]int, len(x.Keys))
		for i := range idx {
			idx[i] = i
		}
		sort.Slice(idx, func(a, b int) bool { return x.Keys[idx[a]] < x.Keys[idx[b]] })
		o := &Obj{}
		for _, i := range idx {
			o.Keys = append(o.Keys, x.Keys[i])
			o.Vals = append(o.Vals, SortKeys(x.Vals[i]))
		}
		return o
	}
	return v
}

// Canon is the canonical (sorted keys, no whitespace) serialisation.
func Canon(v any) string { return string(Marshal(SortKeys(v))) }
