// Package plan is what the real stage binary (cmd/stagebin) needs to behave
// like the stage function the oracles use: the signatures of the program,
// the behaviour knobs, and the faults to act out.
package plan

import (
	"encoding/json"
	"os"
	"path/filepath"
	"strings"

	"verifharness/mrogen"
	"verifharness/stagefn"
)

// Fault makes one job (or every attempt of it) misbehave.
type Fault struct {
	// Kind: exit (non-zero exit without a message), signal (the stage
	// process kills itself), errpipe (error text on the error pipe), assert
	// (ASSERT: text on the error pipe), truncate-outs, missing-key,
	// bad-stage-defs, sleep (only delays), gate (waits for a file).
	Kind string
	Text string
	// Once: only the first attempt of the job misbehaves.
	Once bool
	// SleepMs / Gate: wait before doing anything else.
	SleepMs int
	Gate    string
}

type Plan struct {
	Prog    *mrogen.Program
	Opts    stagefn.Opts
	Faults  map[string]Fault // job identity -> fault
	SleepMs int              // every job takes at least this long
	Ledger  string           // directory for execution records
}

// Strip returns a copy of the program that holds signatures only.
func Strip(p *mrogen.Program) *mrogen.Program {
	q := &mrogen.Program{U: p.U}
	for _, s := range p.Stages {
		c := *s
		q.Stages = append(q.Stages, &c)
	}
	for _, pl := range p.Pipelines {
		q.Pipelines = append(q.Pipelines, &mrogen.Pipeline{Name: pl.Name, Ins: pl.Ins, Outs: pl.Outs})
	}
	return q
}

func (p *Plan) Write(dir string) error {
	b, err := json.Marshal(p)
	if err != nil {
		return err
	}
	tmp := filepath.Join(dir, "plan.json.tmp")
	if err := os.WriteFile(tmp, b, 0o644); err != nil {
		return err
	}
	return os.Rename(tmp, filepath.Join(dir, "plan.json"))
}

// Find looks for plan.json in the directories above a job's metadata path.
func Find(mdPath string) (*Plan, string, error) {
	d := mdPath
	for i := 0; i < 64; i++ {
		d = filepath.Dir(d)
		if b, err := os.ReadFile(filepath.Join(d, "plan.json")); err == nil {
			var p Plan
			if err := json.Unmarshal(b, &p); err != nil {
				return nil, d, err
			}
			return &p, d, nil
		}
		if d == "/" {
			break
		}
	}
	return nil, "", os.ErrNotExist
}

// Identity names a job from its metadata directory and phase:
// "PL1.ST0_A//fork0:chunk3" ("//" cannot occur in a directory name) - the pipestance directory is the one that holds
// the top-level call's directory, i.e. the directory below caseDir/ps.
func Identity(caseDir, mdPath, phase string) string {
	rel := strings.TrimPrefix(mdPath, filepath.Join(caseDir, "ps")+"/")
	parts := strings.Split(rel, "/")
	// .../<call>/<fork>/<split|chnkN|join>[-u...]
	if len(parts) < 3 {
		return rel + ":" + phase
	}
	last := parts[len(parts)-1]
	if i := strings.Index(last, "-u"); i >= 0 {
		last = last[:i]
	}
	fork := parts[len(parts)-2]
	call := strings.Join(parts[:len(parts)-2], ".")
	ph := phase
	if strings.HasPrefix(last, "chnk") && phase == "main" {
		ph = "chunk" + strings.TrimLeft(strings.TrimPrefix(last, "chnk"), "0")
		if ph == "chunk" {
			ph = "chunk0"
		}
	}
	return call + "//" + fork + ":" + ph
}
