#!/bin/bash
# dev helper: devrun.sh <test> <level> <checks> <seed>...   (env VERIF_EXCLUDE, VERIF_KNOWN pass through)
T=$1; L=$2; N=$3; shift 3
# known findings are active by default (VERIF_KNOWN=none switches them off)
if [ -z "$VERIF_KNOWN" ]; then
  export VERIF_KNOWN=$(python3 -c "import json; print(','.join(f['key'] for f in json.load(open('/verif/known_findings.json'))['findings'] if f['status']=='known' and f['key'] not in '${VERIF_UNKNOWN}'.split(',')))")
fi
MODFLAG=""
if [ -n "$VERIF_REPO" ]; then
  # build against another tree (a scratch worktree with a change applied)
  mkdir -p /tmp/devroot/mod-$$; sed "s#=> /repo#=> $VERIF_REPO#" /verif/harness/go.mod > /tmp/devroot/mod-$$/go.mod; cp /verif/harness/go.sum /tmp/devroot/mod-$$/go.sum
  MODFLAG="-modfile=/tmp/devroot/mod-$$/go.mod"
fi
mkdir -p /tmp/devroot/bin; ln -sfn ${VERIF_REPO:-/repo}/jobmanagers /tmp/devroot/jobmanagers; ln -sfn ${VERIF_REPO:-/repo}/adapters /tmp/devroot/adapters
cd /verif/harness && export GOFLAGS=-mod=mod GOPROXY=off GOSUMDB=off GOTOOLCHAIN=local
go test $MODFLAG -tags verif -c -o /tmp/devroot/bin/run.test ./props/run || exit 2
# the binaries the E2 tests start, from the same tree
for c in mrp mrjob mro; do (cd ${VERIF_REPO:-/repo} && go build -tags verif -o /tmp/devroot/bin/$c ./cmd/$c) || exit 2; done
for c in stagebin dumpargs; do go build $MODFLAG -tags verif -o /tmp/devroot/bin/$c ./cmd/$c || exit 2; done
rm -rf /tmp/devrun && mkdir -p /tmp/devrun
T0=$(date +%s)
for s in "$@"; do
  (cd /tmp/devrun && mkdir -p cwd$s && cd cwd$s && VERIF_STATS_OUT=/tmp/devrun/stats$s.json VERIF_LEVEL=$L VERIF_WORK=/dev/shm/devrun/work$s timeout 1500 /tmp/devroot/bin/run.test -test.run "$T" -rapid.checks=$N -rapid.seed=$s -rapid.shrinktime=60s > /tmp/devrun/log$s 2>&1; echo "seed $s rc=$? $(( $(date +%s) - T0 ))s" >> /tmp/devrun/done) &
done
wait
cat /tmp/devrun/done
for s in "$@"; do grep -m1 -o "VKEY=[^ ]*" /tmp/devrun/log$s | head -1; done | sort | uniq -c
rm -rf /dev/shm/devrun
