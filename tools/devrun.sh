#!/bin/bash
# dev helper: devrun.sh <test> <level> <checks> <seed>...   (env VERIF_EXCLUDE, VERIF_KNOWN pass through)
T=$1; L=$2; N=$3; shift 3
cd /verif/harness && export GOFLAGS=-mod=mod GOPROXY=off GOSUMDB=off GOTOOLCHAIN=local
go test -tags verif -c -o /tmp/devroot/bin/run.test ./props/run || exit 2
rm -rf /tmp/devrun && mkdir -p /tmp/devrun
for s in "$@"; do
  (cd /tmp/devrun && mkdir -p cwd$s && cd cwd$s && VERIF_LEVEL=$L VERIF_WORK=/dev/shm/devrun/work$s timeout 1500 /tmp/devroot/bin/run.test -test.run "$T" -rapid.checks=$N -rapid.seed=$s -rapid.shrinktime=60s > /tmp/devrun/log$s 2>&1; echo "seed $s rc=$?" >> /tmp/devrun/done) &
done
wait
cat /tmp/devrun/done
for s in "$@"; do grep -m1 -o "VKEY=[^ ]*" /tmp/devrun/log$s | head -1; done | sort | uniq -c
rm -rf /dev/shm/devrun
