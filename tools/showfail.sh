#!/bin/bash
# showfail.sh <log> : print the shrunk failure (message, program, start of schedule)
grep -v "rapid\] draw" $1 | cut -c1-${2:-220} | awk '/Failed test output/{exit} {print}' | grep -v "^\s*$" | awk '/schedule:/{s=1} {if(!s || n<28) print; if(s) n++}'
