#!/bin/bash
# dev helper: trypatch.sh <patch.diff> <test regex> <level> <checks> <seed>...
# applies the patch in a scratch worktree of /repo under /tmp, runs the
# props/run tests against it (devrun.sh), removes the worktree.
P=$1; shift
W=/tmp/seedwt-dev-$$
git -C /repo worktree add -q --detach $W HEAD || exit 2
trap "git -C /repo worktree remove --force $W" EXIT
(cd $W && git apply $P) || exit 2
VERIF_REPO=$W VERIF_MROOT=/tmp/devroot /verif/tools/devrun.sh "$@"
for f in /tmp/devrun/log*; do grep -a -m1 "VKEY" $f | cut -c1-220; done
