#!/usr/bin/env python3
"""Confirms a seeded property-breaking change and runs our check against it.

usage: seedtest.py <dir with patch.diff + demo> <PROP> <name> [quick|thorough|both|none]

In a scratch worktree of /repo (outside /repo and /verif): apply patch, run the
pinned suite (must pass), run the demo (must fail), revert, run the demo (must
pass), re-apply and run ./check PROP with VERIF_REPO=worktree.  Stores the
change as /verif/seeded/<PROP>-<name>/ with meta.json when confirmed.
"""
import json, os, re, shutil, subprocess, sys, time

src, prop, name = sys.argv[1], sys.argv[2], sys.argv[3]
mode = sys.argv[4] if len(sys.argv) > 4 else "quick"
WT = "/tmp/seedwt-%s-%s" % (prop, name)
ENV = dict(os.environ, GOFLAGS="-mod=mod", GOPROXY="off", GOSUMDB="off", GOTOOLCHAIN="local")


def sh(cmd, cwd=None, timeout=3600, env=ENV):
    r = subprocess.run(cmd, shell=True, cwd=cwd, env=env, stdout=subprocess.PIPE, stderr=subprocess.STDOUT, text=True, timeout=timeout)
    return r.returncode, r.stdout


def demo():
    if os.path.exists(os.path.join(src, "run.sh")):
        return sh("bash %s/run.sh %s" % (src, WT), timeout=1800)
    d = open(os.path.join(src, "demo_test.go")).read()
    m = re.search(r"((?:martian|cmd)/[a-z_0-9/]+)", d[:1500])
    pkgdir = m.group(1).rstrip("/")
    tests = re.findall(r"^func (Test\w+)\(", d, re.M)
    dst = os.path.join(WT, pkgdir, "zz_seed_demo_test.go")
    shutil.copy(os.path.join(src, "demo_test.go"), dst)
    try:
        return sh("go test -vet=off -count=1 -run '^(%s)$' ./%s/" % ("|".join(tests), pkgdir), cwd=WT, timeout=1800)
    finally:
        os.remove(dst)


res = {"property": prop, "name": name, "source": src}
sh("git -C /repo worktree remove --force %s" % WT)
rc, out = sh("git -C /repo worktree add --detach %s HEAD" % WT)
assert rc == 0, out
try:
    patch = os.path.join(src, "patch.diff")
    rc, out = sh("git apply %s" % patch, cwd=WT)
    if rc != 0:
        rc, out = sh("git apply -3 %s" % patch, cwd=WT)
    res["applies"] = rc == 0
    if rc != 0:
        print("PATCH DOES NOT APPLY", out)
        sys.exit(3)
    rc, out = sh("go build ./... && go test -vet=off -count=1 ./...", cwd=WT)
    res["suite_passes_with_change"] = rc == 0
    if rc != 0:
        print(out[-3000:])
    rc, out = demo()
    res["demo_fails_with_change"] = rc != 0
    res["demo_output_with_change"] = out[-1500:]
    # (git stash is shared between worktrees of one repository: never use it here)
    rc, out = sh("git apply -R %s" % patch, cwd=WT)
    if rc != 0:
        # (applied by three-way merge: the scratch worktree is simply reset)
        rc, out = sh("git reset -q --hard HEAD && git clean -fdq", cwd=WT)
    assert rc == 0, out
    rc, out = demo()
    res["demo_passes_without_change"] = rc == 0
    if rc != 0:
        print("demo on clean tree:", out[-3000:])
    rc, out = sh("git apply %s" % patch, cwd=WT)
    if rc != 0:
        rc, out = sh("git apply -3 %s" % patch, cwd=WT)
    assert rc == 0, out
    confirmed = res["suite_passes_with_change"] and res["demo_fails_with_change"] and res["demo_passes_without_change"]
    res["confirmed"] = confirmed
    res["checks"] = {}
    before = set()
    for root, _, files in os.walk("/verif/replays"):
        before.update(os.path.join(root, f) for f in files)
    if mode != "none":
        tiers = ["quick", "thorough"] if mode == "both" else [mode]
        for tier in tiers:
            t0 = time.time()
            rc, out = sh("./check %s %s" % (prop, tier), cwd="/verif", env=dict(ENV, VERIF_REPO=WT, VERIF_SEED=os.environ.get("VERIF_SEED", "1")), timeout=6 * 3600)
            keys = sorted(set(re.findall(r"key=(\S+)", out)))
            res["checks"][tier] = {"rc": rc, "detected": rc == 1, "keys": keys, "wall_s": round(time.time() - t0, 1)}
            print("check %s %s -> rc=%d keys=%s" % (prop, tier, rc, keys))
            if rc == 2:
                print(out[-2500:])
            if rc == 1:
                break
    # a change filed under one property may only show under the conditions
    # another property quantifies over (SEED_ALSO=C05: run that check too)
    for other in [o for o in os.environ.get("SEED_ALSO", "").split(",") if o]:
        t0 = time.time()
        rc, out = sh("./check %s quick" % other, cwd="/verif", env=dict(ENV, VERIF_REPO=WT, VERIF_SEED=os.environ.get("VERIF_SEED", "1")), timeout=6 * 3600)
        keys = sorted(set(re.findall(r"key=(\S+)", out)))
        res["checks"]["quick-of-" + other] = {"rc": rc, "detected": rc == 1, "keys": keys, "wall_s": round(time.time() - t0, 1)}
        print("check %s quick -> rc=%d keys=%s" % (other, rc, keys))
    # evidence files were rewritten by the mutated run: restore committed ones
    sh("git checkout -- evidence 2>/dev/null", cwd="/verif")
    for root, _, files in os.walk("/verif/replays"):
        for f in files:
            if os.path.join(root, f) not in before:
                os.remove(os.path.join(root, f))
    if confirmed:
        dest = "/verif/seeded/%s-%s" % (prop, name)
        os.makedirs(dest, exist_ok=True)
        for f in os.listdir(src):
            if f in ("patch.diff", "demo_test.go", "run.sh", "notes.md") and os.path.abspath(src) != os.path.abspath(dest):
                shutil.copy(os.path.join(src, f), dest)
        meta = {"property": prop, "breaks": "see notes.md", "confirmed_by": "tools/seedtest.py: suite passes with change, demo fails with change, demo passes without",
                "ran": {k: v for k, v in res.items() if k not in ("demo_output_with_change",)}}
        json.dump(meta, open(os.path.join(dest, "meta.json"), "w"), indent=1)
    print(json.dumps({k: v for k, v in res.items() if k != "demo_output_with_change"}, indent=1))
finally:
    sh("git -C /repo worktree remove --force %s" % WT)
    shutil.rmtree(WT, ignore_errors=True)
