#!/bin/bash
# usage: muttest.sh <PROP> <patch.diff> [tier]   -- applies a hand-written mutant to a scratch worktree and runs the check
PROP=$1; PATCH=$(readlink -f $2); TIER=${3:-quick}
WT=/tmp/mutwt-$PROP-$$
git -C /repo worktree add -q --detach $WT HEAD || exit 2
cd $WT && git apply $PATCH || { echo "PATCH DOES NOT APPLY"; git -C /repo worktree remove --force $WT; exit 3; }
export GOFLAGS=-mod=mod GOPROXY=off GOSUMDB=off GOTOOLCHAIN=local
if [ -z "$SKIP_SUITE" ]; then go build ./... && go test -vet=off -count=1 ./... > /tmp/mutsuite.$$ 2>&1 && echo "suite: pass" || { echo "suite: FAIL"; grep -E "^(--- FAIL|FAIL|ok)" /tmp/mutsuite.$$ | head; }; rm -f /tmp/mutsuite.$$; fi
cd /verif && before=$(find replays -type f | sort)
VERIF_REPO=$WT ./check $PROP $TIER 2>&1 | grep -E "VIOLATION|key=|rc=|\[check\] $PROP"
git checkout -- evidence 2>/dev/null
comm -13 <(echo "$before") <(find replays -type f | sort) | xargs -r rm -f
git -C /repo worktree remove --force $WT
