#!/usr/bin/env python3
"""dev helper: compare the vacuity floors of checks_config.py with the class
histograms of the evidence files (quick tier); flags a floor above 40% of
what the last run produced - such a floor can trip on another seed."""
import json, sys, os
sys.path.insert(0, '/verif')
import checks_config as cc
evdir = sys.argv[1] if len(sys.argv) > 1 else '/verif/evidence'
for pid, cfg in sorted(cc.CHECKS.items()):
    fl = cfg.get('floors', {}).get('quick', {})
    p = os.path.join(evdir, pid + '.json')
    if not fl or not os.path.exists(p):
        continue
    d = json.load(open(p))
    if d.get('tier') != 'quick':
        continue
    h = d['coverage']['class_histogram']
    for cls, f in fl.items():
        have = h.get(cls, 0)
        flag = 'TIGHT' if f > 0.4 * have else ''
        print("%s %-40s floor=%-6d have=%-7d %s" % (pid, cls, f, have, flag))
