#!/usr/bin/env python3
"""Rewrites the lists of section 8.2 (findings) and the table of 8.4 (seeded changes) of DESIGN.md
from known_findings.json and seeded/*/meta.json."""
import json, glob, os, re
V = os.path.dirname(os.path.dirname(os.path.abspath(__file__)))
d = json.load(open(V + "/known_findings.json"))
fixed = [f for f in d["findings"] if f["status"] == "fixed"]
known = [f for f in d["findings"] if f["status"] == "known"]
s = open(V + "/DESIGN.md").read()
i = s.index("### 8.2 Genuine defects found")
j = s.index("### 8.3 False alarms")
sec = ["### 8.2 Genuine defects found (all listed in `known_findings.json`)\n\n",
       "%d were repaired with `fix:` commits in /repo (each: the unedited suite passes, the check that found it passes and\n"
       "fails again when the commit is reverted); %d are recorded as known findings with a reproducer test and a generator\n"
       "exclusion keyed by the finding, so that the search continues behind them.\n\nFixed:\n\n" % (len(fixed), len(known))]
for f in fixed:
    w = f["what"]
    w = w.split(" ", 3)[3] if w.startswith("fixed:") else w
    sec.append("* `%s` (%s) — %s\n" % (f["commit"], f["key"], w))
sec.append("\nKnown (not repaired; why is in each entry's `what`):\n\n")
for f in known:
    sec.append("* %s — %s\n" % (f["key"], f["what"][:400]))
sec.append("\n")
s = s[:i] + "".join(sec) + s[j:]
# table
rows = []
for dd in sorted(glob.glob(V + "/seeded/*")):
    m = json.load(open(dd + "/meta.json"))
    q = m.get("ran", {}).get("checks", {}).get("quick", {})
    notes = open(dd + "/notes.md").readline().strip().lstrip("# ").strip()
    verdict = "yes" if q.get("detected") else "NO"
    if not q.get("detected"):
        for name, oq in m.get("ran", {}).get("checks", {}).items():
            if name.startswith("quick-of-") and oq.get("detected"):
                verdict = "by the %s check" % name[len("quick-of-"):]
                q = oq
    rows.append("| %s | %s | %s | %s |\n" % (os.path.basename(dd), verdict,
                                           ", ".join(q.get("keys", [])[:2]).replace("|", "/"), notes.replace("|", "/")[:110]))
i = s.index("| change | caught by the quick tier |")
j = s.index("\n\n", i)
s = s[:i] + "| change | caught by the quick tier | keys reported | what it is |\n|---|---|---|---|\n" + "".join(rows).rstrip("\n") + s[j:]
open(V + "/DESIGN.md", "w").write(s)
print("DESIGN.md updated: %d fixed, %d known, %d seeded" % (len(fixed), len(known), len(rows)))
