#!/bin/bash
# dev helper: gotest.sh <pkg> <run-regex> <checks> <seed>   (known findings active; output filtered)
cd /verif/harness && export GOFLAGS=-mod=mod GOPROXY=off GOSUMDB=off GOTOOLCHAIN=local
if [ -z "$VERIF_KNOWN" ]; then
  export VERIF_KNOWN=$(python3 -c "import json; print(','.join(f['key'] for f in json.load(open('/verif/known_findings.json'))['findings'] if f['status']=='known'))")
fi
MODFLAG=""
if [ -n "$VERIF_REPO" ]; then
  # build against another tree (a scratch worktree with a change applied)
  mkdir -p /tmp/devroot/mod-$$; sed "s#=> /repo#=> $VERIF_REPO#" /verif/harness/go.mod > /tmp/devroot/mod-$$/go.mod; cp /verif/harness/go.sum /tmp/devroot/mod-$$/go.sum
  MODFLAG="-modfile=/tmp/devroot/mod-$$/go.mod"
fi
mkdir -p /tmp/devroot/bin; ln -sfn ${VERIF_REPO:-/repo}/jobmanagers /tmp/devroot/jobmanagers; ln -sfn ${VERIF_REPO:-/repo}/adapters /tmp/devroot/adapters
go test $MODFLAG -tags verif -count=1 -run "$2" ./$1/ -rapid.checks=$3 -rapid.seed=$4 -rapid.shrinktime=30s > /tmp/gotest.log 2>&1
echo "rc=$?"
grep -a -v "rapid\] draw\|\[compare\]\|^Array lengths\|^Values are\| != " /tmp/gotest.log | cut -c1-${5:-300} | head -${6:-80}
rm -rf /verif/harness/props/*/testdata/rapid
