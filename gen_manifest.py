#!/usr/bin/env python3
"""Writes MANIFEST.json from checks_config.py (kept valid at all times)."""
import json, os, sys
sys.path.insert(0, os.path.dirname(os.path.abspath(__file__)))
from checks_config import CHECKS, NOT_APPLICABLE, HOOK_COMMITS

checks = []
for pid in sorted(CHECKS):
    c = CHECKS[pid]
    checks.append({
        "property_id": pid,
        "quick_cmd": "./check %s quick" % pid,
        "thorough_cmd": "./check %s thorough" % pid,
        "evidence_file": "evidence/%s.json" % pid,
        "replay_cmd_template": "./check %s --replay {path}" % pid,
        "engine": c.get("engine", "pure"),
        "level_claimed": {"category": c["level"], "text": c["level_text"], "design_ref": "DESIGN.md section 4, " + pid},
        "level_note": c["level_note"],
        "technique": c["technique"],
    })
doc = {
    "version": 1,
    "setup_cmd": "./setup.sh",
    "hooks": {
        "guard": "verif",
        "enable": "go build/test -tags verif (the driver ./check passes the tag to every build of /repo packages)",
        "baseline_off_cmd": "cd /repo && GOFLAGS=-mod=mod go test -vet=off -count=1 ./...",
        "source_commits": HOOK_COMMITS,
        "add_only": True,
    },
    "engines": [
        {"name": "pure", "path": "harness/props/lang, harness/props/sys", "serves_properties": sorted(p for p in CHECKS if CHECKS[p].get("engine", "pure") == "pure"),
         "kind_free_text": "rapid property tests calling martian's exported (or verif-tag exported) pure functions in-process"},
        {"name": "E1-simrun", "path": "harness/simrun", "serves_properties": sorted(p for p in CHECKS if CHECKS[p].get("engine") == "E1"),
         "kind_free_text": "in-process pipestance driver: real Runtime/Pipestance with a verif-tagged job manager hook; rapid owns job completion order, scheduler steps and restarts"},
        {"name": "E2-mrprun", "path": "harness/mrprun", "serves_properties": sorted(p for p in CHECKS if CHECKS[p].get("engine") == "E2"),
         "kind_free_text": "real mrp/mrjob/stage processes built from the tree; fault plans, signals, strace syscall-ordinal kill injection"},
    ],
    "checks": checks,
    "not_applicable": [{"property_id": k, "reason": v} for k, v in sorted(NOT_APPLICABLE.items()) if k not in CHECKS],
    "notes": "Technique family: property-based testing (pgregory.net/rapid v1.3.0, stateful mode for histories) and native Go fuzzing. ./check <ID> quick|thorough rebuilds the test binaries and martian from /repo's working tree (VERIF_REPO overrides for mutation trials), shards rapid over seeds derived from VERIF_SEED, merges the shards' case classification into evidence/<ID>.json. Exit 2 = infrastructure trouble, never a violation.",
}
with open(os.path.join(os.path.dirname(os.path.abspath(__file__)), "MANIFEST.json"), "w") as f:
    json.dump(doc, f, indent=1)
print("MANIFEST.json written: %d checks, %d not_applicable" % (len(checks), len(doc["not_applicable"])))
