# Per-property check configuration for ./check (see DESIGN.md section 4).
# units: rapid test functions (pkg = harness package, run = -test.run regex),
#        per tier: rapid case count per shard, number of shards (distinct seeds).

def U(pkg, run, quick, thorough, **kw):
    d = {"pkg": pkg, "run": "^" + run + "$",
         "quick": {"checks": quick[0], "shards": quick[1]},
         "thorough": {"checks": thorough[0], "shards": thorough[1], "timeout": "5h"}}
    d.update(kw)
    return d


HOOK_COMMITS = ["7d5fc3e", "46899cc", "21038df", "b1e6abc", "d21a4f2"]

# Properties without a registered check yet (kept current; see DESIGN.md).
NOT_APPLICABLE = {pid: "check not built yet in this round (planned, DESIGN.md section 4)" for pid in
                  ["C%02d" % i for i in range(1, 20)]}


_SEM_RULE = ("rapid: well-typed MRO programs built type-directed from a generated universe (structs, wider struct variants, arrays, typed maps): <=4 stages "
             "(splitting or not), <=3 pipelines calling stages and earlier pipelines, aliases, projections through structs / arrays / typed maps, struct "
             "narrowing, int->float, composite literals with references, disabled modifiers (pipeline flag inputs or stage bool outputs), preflight stages, "
             "map calls of stages over arrays / typed maps (static literals, pipeline inputs, run-time stage outputs) inside the envelope recorded in "
             "known_findings.json; top-level literal arguments; x a generated schedule: which pending job finishes next, 1-3 completions between scheduler "
             "rounds, rounds drawn from refresh/step patterns {rs, s, r, rss, rrs, srs}. Stage outputs are pseudo-random conforming values keyed by a hash of "
             "everything the job received, arrays of length 0-5, written in one of three JSON styles (Go, Python with \\uXXXX escapes, escaped slashes), string values "
             "that double as file names with characters that need escaping. Stage signatures draw most element types from a per-program palette so that outputs fit "
             "inputs; a map call without a run-time collection in scope gets a producer call inserted (about 13% of the map calls split over a collection produced at run "
             "time); consumers of the merged output of a map call are generated on purpose; some stage inputs are 'view' structs mirroring another stage's outputs, "
             "bound to the whole call. ")

_SEM_ASSUME = ["harness/refsem/eval.go states the dataflow semantics (conversion = drop undeclared struct fields; projection distributes over arrays and typed maps; "
               "disabled or empty mapped calls yield null / empty / collection of nulls)",
               "virtual jobs write the same files as mrjob + stage code (_log, journal entries, _outs/_stage_defs, _complete); E2 cross-checks with real processes",
               "the generator stays inside the map-call envelope listed as known finding C01/map-calls-beyond-simple-envelope"]

CHECKS = {
    "C01": {
        "level": "exploration",
        "engine": "E1",
        "needs_bins": ["mrp", "mrjob", "stagebin"],
        "technique": "property-based testing (rapid): generated programs x generated completion schedules on the real Pipestance with a hooked job manager, compared against an independent reference evaluator",
        "level_text": ("Every job's _args (and a join's _chunk_defs / _chunk_outs, in order) as found on disk when the job is handed to the job manager, and the top-level "
                       "_outs at completion, are compared with an independent reference evaluation of the generator's IR; ~2-3k pipestances per quick run. Map calls inside map-called pipelines "
                       "(TestNestedMapsJobs: arrays of arrays with ragged and empty inner sizes, the inner collection passed in or produced inside the mapped pipeline, a leaf that may split or "
                       "also take the whole inner collection) and per-element disabling flags of a map-called pipeline (TestFlaggedMapsJobs: split [false, MAKE.f1, true] next to split [MAKE.a, MAKE.b, MAKE.a]): every job's arguments, start order and multiplicity are judged; the merged values such programs hand on are not (known finding "
                       "C01/nested-map-merge-repeats-forks). Exploration."),
        "level_note": "E1: jobs are completed in-process by the harness instead of running mrjob/stage processes; the schedule is owned by rapid.",
        "rule": _SEM_RULE + "Non-trivial (C01): >= 2 stage jobs and at least one of map call / disabled modifier / projection / sub-pipeline; distinct by hash(program, schedule).",
        "assumptions": _SEM_ASSUME,
        "units": [U("props/run", "TestRunSemantics", (700, 14), (12000, 15), env={"VERIF_STATS_PROP": "C01"}),
                  U("props/run", "TestNestedMapsJobs", (400, 2), (8000, 4), env={"VERIF_STATS_PROP": "C01"}),
                  U("props/run", "TestFlaggedMapsJobs", (300, 2), (5000, 4), env={"VERIF_STATS_PROP": "C01"}),
                  U("props/run", "TestE2Run", (60, 6), (1500, 8))],
        "floors": {"quick": {"map-call:array": 200, "map-call:map": 80, "disabled-true": 150, "projection": 300, "sub-pipeline": 300, "split-stage": 300, "map-source:dynamic": 60, "e2-run": 250}},
    },
    "C02": {
        "level": "exploration",
        "engine": "E1",
        "needs_bins": ["mrp", "mrjob", "stagebin"],
        "technique": "property-based testing (rapid): invariant over the logical event history of generated adversarial completion schedules vs the reference dependency relation",
        "level_text": ("At every job start the harness checks, against the reference model's value provenance (weakest reading: only producers the consumed values "
                       "actually derive from, per instance), that every producer instance has finished, that split < chunks < join inside a fork, and that preflights "
                       "of enclosing pipelines are done; schedules are generated (which pending job finishes, how many scheduler steps / journal scans in between). Also checked at every job start of runs that are interrupted 1-3 times and re-attached with jobs in flight (queued, alive, alive with outputs written but no completion marker, finished unnoticed, dead, given up and reporting later). Exploration."),
        "level_note": "In E1 'start' is the hand-over to the job manager; real process start times are covered by the E2 sample.",
        "rule": _SEM_RULE + "Non-trivial (C02): at some point >= 2 jobs were pending and a job other than the oldest was finished first, or a dependency crosses a pipeline boundary, or forks are expanded at run time. Interrupted runs (TestInterruptOrder): the same invariants at every job start of runs in which the pipestance object is abandoned 1-3 times with jobs in flight (queued, alive, alive with outputs / stage defs written but no completion marker, finished unnoticed, dead after writing outputs) and re-attached; non-trivial: the interruption fell inside the run.",
        "assumptions": _SEM_ASSUME,
        "units": [U("props/run", "TestRunSemantics", (700, 14), (12000, 15), env={"VERIF_STATS_PROP": "C02"}),
                  U("props/run", "TestNestedMapsJobs", (400, 2), (8000, 4), env={"VERIF_STATS_PROP": "C02"}),
                  U("props/run", "TestFlaggedMapsJobs", (300, 2), (5000, 4), env={"VERIF_STATS_PROP": "C02"}),
                  U("props/run", "TestInterruptOrder", (200, 6), (4000, 8)),
                  U("props/run", "TestE2Run", (60, 6), (1500, 8))],
        "floors": {"quick": {"e2-run": 250, "dep-crosses-pipeline": 300, "dynamic-forks": 60, "preflight": 100, "fate:alive-after-outs": 300}},
    },
    "C03": {
        "level": "exploration",
        "engine": "E1",
        "needs_bins": ["mrp", "mrjob", "stagebin"],
        "technique": "property-based testing (rapid): executed-job multiset of generated runs equals the reference model's job multiset; deterministic no-progress predicate for stalls",
        "level_text": ("Per call and phase the multiset of jobs handed to the job manager (identified by their canonical arguments) must equal the model's: nothing twice, "
                       "nothing skipped, nothing for disabled / empty-mapped calls; the run must reach completion (4 fruitless refresh+step rounds with no pending job = stalled). Exploration."),
        "level_note": "Remote double submission is only reachable through the E2 fake_remote sample.",
        "rule": _SEM_RULE + "Non-trivial (C03): a mapped call of size != 1, a call disabled at run time, a map over an empty collection, or a split returning != 1 chunks.",
        "assumptions": _SEM_ASSUME,
        "units": [U("props/run", "TestRunSemantics", (700, 14), (12000, 15), env={"VERIF_STATS_PROP": "C03"}),
                  U("props/run", "TestNestedMapsJobs", (400, 2), (8000, 4), env={"VERIF_STATS_PROP": "C03"}),
                  U("props/run", "TestFlaggedMapsJobs", (300, 2), (5000, 4), env={"VERIF_STATS_PROP": "C03"}),
                  U("props/run", "TestE2Run", (60, 6), (1500, 8))],
        "floors": {"quick": {"e2-run": 250, "disabled-true": 150, "map-over-empty": 30, "chunks:0": 100, "chunks:11": 50}},
    },
    "C09": {
        "level": "exploration",
        "engine": "pure",
        "technique": "property-based testing (rapid): generated programs printed under random layouts / comment placements, checked by re-parse, structural AST equality, comment multiset, fixed point, call-graph equality; include-expanded rendering recompiled; native fuzzing in the thorough tier",
        "level_text": ("Generated well-typed programs (all literal spellings incl. exponents, extreme numbers, escapes, non-ASCII; resources; help strings; src strings with arguments, quotes and "
                       "backslashes; both modifier syntaxes; split / split using; wildcard bindings) printed with random whitespace, comments before every kind of element and, separately flagged, "
                       "dangling comments. Oracles: the formatted text parses; a reflective AST comparison (ignoring locations, comment attachment, call order, int-vs-integral-float spelling) finds "
                       "the same program; compiled views are EquivalentCall both ways with identical call-graph JSON; no comment is lost, and without dangling comments each is kept exactly once and "
                       "Format(Format(s)) == Format(s); the include-expanded rendering of a three-file diamond compiles alone to an equivalent program with the same call graph. Calls carry several modifiers in mixed keyword / using syntax, using entries in any order, calls written in any order (often reversed), dotted file type names. Exploration."),
        "level_note": "Invalid UTF-8 inside string literals is treated as outside 'source text' (covered by C08).",
        "rule": ("rapid program generator (C01's, plus decoration) x Layout draws; non-trivial: the text has a comment, a backslash escape, an exponent or a using clause; distinct by hash of the source text. "
                 "Include test: every case non-trivial (three files, diamond, nested directory)."),
        "assumptions": ["AST comparison treats 1e2 and 100 as the same literal value"],
        "units": [
            U("props/lang", "TestC09Format", (2500, 10), (40000, 12)),
            U("props/lang", "TestC09IncludeExpanded", (1500, 4), (20000, 4)),
        ],
        "fuzz": [{"pkg": "props/lang", "target": "FuzzC09", "thorough": {"seconds": 300}}],
        "floors": {"quick": {"comments": 8000, "dangling": 2000, "old-modifiers": 3000, "include-expanded": 5000}},
    },
    "C10": {
        "level": "exploration",
        "engine": "E1",
        "needs_bins": [],
        "technique": "property-based testing (rapid): metamorphic same-input-same-bytes relation over 12 in-process repetitions (fresh parser each time) and repeated E1 runs under a fixed schedule",
        "level_text": ("For generated programs with wide map / struct literals (up to 9 keys), several split arguments and 0 or 2-4 injected independent type errors (including several bad entries "
                       "inside one unordered literal): formatted text, compile error text, include-expanded source and call-graph JSON are computed 12 times and must be byte-identical; Go "
                       "randomises map iteration per range statement, so an unsorted traversal over k >= 4 keys survives 11 repetitions with probability < 1e-10. Runtime part: the same program "
                       "driven three times under a fixed FIFO schedule must give the same directory listing (fork ids), the same per-fork _invocation files and the same serialized pipestance (nodes, forks with their indices, chunks, bindings: what _finalstate and the API hold), as the run built it and as a fresh runtime re-attaching to the finished pipestance rebuilds it; for nodes that ran, the fork order of the two views must agree as well. Also: bursts of 2-5 declaration-level errors in one scope (17 families), the strictest enforcement level, calls in any order, and formatting with include fixing over declarations spread across files with some includes missing and some callables declared nowhere. Exploration."),
        "level_note": "Separate OS processes are not compared (pointer- or time-dependent output would differ between in-process repetitions as well, because every repetition allocates afresh).",
        "rule": ("rapid program generator (C09 configuration, collections up to 9 entries) x optional 2-4 ill-typed mutations; non-trivial: >= 8 key/value pairs in the text or >= 2 injected errors. "
                 "Run part: C01 generator, non-trivial: >= 3 fork directories. Distinct by hash of the source."),
        "assumptions": _SEM_ASSUME,
        "units": [
            U("props/lang", "TestC10Deterministic", (450, 10), (20000, 12)),
            U("props/lang", "TestC10FixIncludes", (1500, 2), (30000, 4)),
            U("props/run", "TestC10Run", (250, 6), (4000, 6)),
        ],
        "floors": {"quick": {"multi-error": 800, "call-graph": 2000, "run": 1000, "fix-includes:several-added": 800, "fix-includes:several-undeclared": 100}},
    },
    "C11": {
        "level": "exploration",
        "engine": "E1",
        "needs_bins": ["mrp", "mrjob", "stagebin"],
        "technique": "property-based testing (rapid): injectivity + parse round trip of fork / journal names over generated Unicode key sets; end-to-end mapped runs over adversarial keys and lengths against the reference model, in process and (cluster job mode, keys that are job script template parameters) with real processes",
        "level_text": ("Unit level (verif-tag exports): for generated key sets (dots, slashes, percent signs, spaces, control and non-ASCII characters, already-encoded looking text, names of "
                       "metadata files) distinct keys give distinct directory and journal names, and the journal file name of (node, fork, chunk, attempt, file) parses back to exactly "
                       "those parts and cannot be taken for an array index. End to end (E1): map calls of a (splitting or plain) stage over literal maps with such keys, literal arrays of "
                       "length 1..101, and run-time maps / arrays; chunk counts {1,2,9,10,11}; the pipestance must complete (deterministic stall predicate) and every fork must receive "
                       "and return its own element (C01/C03 machinery with key-dependent values). With real processes in a cluster job mode (TestE2ClusterKeys: generated programs "
                       "in which most calls are map calls, mostly over typed maps whose keys include the parameters of the job script templates, __MRO_MEM_GB__ and the like): every job "
                       "runs in, and reports under, the names mrp listens for, or the run does not complete with the model's outputs. Exploration."),
        "level_note": "Node.find/getFork routing is exercised only end to end (they need a live node tree); keys are <= 60 bytes; '$' is excluded from program text because mrp expands environment variables in invocation source.",
        "rule": ("unit: 2-8 distinct keys from a hostile alphabet / pool x node name x chunk index x attempt id x metadata file name; non-trivial: a key contains '.', '/', '%', space or is empty. "
                 "e2e: one mapped call per program, source kind in {static map, static array, run-time map, run-time array}; non-trivial: a key outside [a-z0-9], a length >= 10 or a run-time source; "
                 "distinct by hash(program, schedule)."),
        "assumptions": _SEM_ASSUME,
        "units": [
            U("props/sys", "TestC11Names", (30000, 2), (500000, 4)),
            U("props/run", "TestC11Forks", (350, 10), (6000, 12)),
            U("props/run", "TestStaleAttempt", (150, 6), (2500, 8)),
            U("props/run", "TestE2ClusterKeys", (12, 8), (250, 8)),
        ],
        "floors": {"quick": {"cluster-odd-key": 24, "names": 30000, "source:static-map": 800, "source:dynamic-map": 300, "source:dynamic-array": 300, "len:101": 30, "split-stage": 800, "fate:zombie-reported": 100}},
    },
    "C12": {
        "level": "exploration",
        "engine": "E2",
        "needs_bins": ["mrp", "mrjob", "stagebin"],
        "technique": "property-based testing (rapid stateful/model-based): FIFO semaphore model vs ResourceSemaphore, slot model vs MaxJobsSemaphore (incl. re-attached jobs), range oracle for request clamping; generated programs run by the real mrp in local mode (weighted overlap of stage processes vs limits) and in a cluster job mode with mrp killed and restarted while jobs are out (overlap vs --maxjobs across both instances)",
        "level_text": ("Model-based stateful search through the exported API: generated sequences of acquire (blocking, in goroutines) / release / availability-update "
                       "operations on ResourceSemaphore checked after every step against a FIFO model (reserved <= max, grants only from the head and in request order, "
                       "no lost wake-up, over-max fails at once, final drain completes); MaxJobsSemaphore with real Metadata objects (Current <= Limit, freed slots are "
                       "handed on); GetSystemReqs clamps every finite request into (0, limit] and the result is acquirable. Every operation is one critical section, so "
                       "operation sequences with blocked acquirers cover the interleavings; histories start with 0..limit jobs re-attached in the queued or running state. With real "
                       "processes: local mode with generated --localcores/--localmem and per-stage requests (overlap of stage processes weighted by the reservations in _jobinfo), and a "
                       "cluster job mode with --maxjobs 1-4 in which, in two cases of three, mrp is killed while jobs are out on the cluster and restarted with the same options: the "
                       "number of stage processes alive at any instant stays within --maxjobs across both mrp instances, and the run completes with the model's outputs. Exploration."),
        "level_note": "Liveness is bounded progress (10 s settle per step, orders of magnitude above the microseconds needed); current size after availability updates is read from the implementation, not predicted.",
        "rule": ("rapid t.Repeat sequences (<= ~30 steps, then a drain) of acquire(n in {0, exactly free, max, >max, random}), release, updateActual, updateFreeUsed, "
                 "updateSize on limits {1,2,4,10,100,400}; MaxJobs: submit/finish(release | complete+FindDone | errors+FindDone)/FindDone with limit 1-4; GetSystemReqs: "
                 "requests zero / negative / over limit / fractional. Non-trivial: semaphore history where a queued waiter was granted after a release or update; "
                 "maxjobs history where more acquirers than the limit got through after blocking; request outside (0,limit] or fractional. Distinct by hash of the history."),
        "assumptions": ["real job processes and the E2 overlap measurement are part of the E2 tier (added separately)"],
        "units": [
            U("props/sys", "TestC12ResourceSemaphore", (3000, 4), (40000, 8)),
            U("props/sys", "TestC12MaxJobs", (1500, 3), (20000, 4)),
            U("props/sys", "TestC12SystemReqs", (20000, 1), (300000, 2)),
            U("props/run", "TestE2Resources", (40, 6), (1200, 8)),
            U("props/run", "TestE2Cluster", (20, 8), (300, 8)),
        ],
        "floors": {"quick": {"semaphore": 5000, "maxjobs": 2000, "maxjobs-reattached": 1000, "systemreqs": 10000, "e2-resources": 150, "jobs-overlapped": 40, "e2-cluster": 60, "cluster-restart": 30}},
    },
    "C04": {
        "level": "exploration",
        "engine": "E1",
        "needs_bins": ["mrp", "mrjob", "stagebin"],
        "technique": "property-based testing (rapid): generated file-passing programs x VDR mode x generated schedule on the in-process engine with stages that write real files; validity predicate at every job start / finish and at completion (no model of what gets deleted)",
        "level_text": ("Programs of the C01 generator with file-rich signatures (file, path, user file types, strings and untyped maps holding paths, inside structs / arrays / typed maps, "
                       "through sub-pipelines, several consumers, map calls) and volatile / volatile=strict / volatile=false / retain annotations on stages, calls and pipelines x vdr mode "
                       "(rolling, post, strict, disable) x schedules with 0-450us pauses so that the asynchronous cleanup runs between actions.  Stages write each file they return under their own "
                       "files directory (some paths are returned but never written, some files are written but never returned).  Oracle: every file named anywhere in a job's arguments (and, for "
                       "joins, chunk outputs) exists with the producer's content when the job is handed to the job manager and again when it finishes; every file named by the top-level outputs, "
                       "a stage retain or a pipeline retain on a stage call exists with its content after the final VDR pass and after post-processing. Exploration."),
        "level_note": ("The goroutines inside storage.go are given time to run (yield / sleep draws) but their interleaving is not owned; jobs do not run concurrently with the scheduler thread "
                       "in E1.  Map calls stay inside the envelope of known finding C01/map-calls-beyond-simple-envelope."),
        "rule": ("rapid program + vdr mode + schedule; non-trivial: VDR enabled, >= 1 stage file was deleted during the run and >= 1 job had a file in its arguments; distinct by hash(program, mode, schedule); "
                 "classes: mode, consumer-of-file, late-consumer (started > 6 harness actions after the producer finished), top-output-names-file, retained-file, files-deleted."),
        "assumptions": _SEM_ASSUME + ["stages obey the contract: a returned path names a file the job wrote itself under its own files directory"],
        "units": [U("props/run", "TestRunFiles", (600, 10), (12000, 10), env={"VERIF_ONLY": "C04"}),
                  U("props/run", "TestE2Files", (40, 6), (1200, 8), env={"VERIF_ONLY": "C04"})],
        "floors": {"quick": {"e2-files": 150, "consumer-of-file": 500, "late-consumer": 50, "files-deleted": 500, "top-output-names-file": 300, "retained-file": 100, "mode:strict": 300, "mode:rolling": 300, "mode:post": 100}},
    },
    "C05": {
        "level": "exploration",
        "engine": "E1",
        "needs_bins": ["mrp", "mrjob", "stagebin"],
        "technique": "property-based testing (rapid): generated program x schedule x 1-3 interruptions at generated moments; fault injection at the level of the pipestance object (abandon + re-attach, as a restarted mrp does) with a generated fate for every job in flight; differential against the reference model and an undisturbed run of the same program",
        "level_text": ("Programs of the C01 generator (<= 60 jobs) x schedules x interruptions: the Pipestance object is abandoned between any two harness actions (after a job wrote its "
                       "completion marker but before mrp refreshed, between refresh and step, right after dynamic forks were expanded, after the final VDR pass, after post-processing); every job in "
                       "flight is left queued, running with a dead process (pid in _jobinfo as the job monitor records it), dead after writing _outs, killed with the error recorded by its monitor, finished without mrp having noticed, or alive "
                       "(it finishes after the restart); the stale _lock is removed and a new Pipestance is attached with the same invocation (Reset + RestartLocalJobs, what mrp does).  Oracle: "
                       "the re-attach is accepted, the run completes, the final outputs equal the reference model's, no job whose completion was recorded before an interruption is handed to the "
                       "job manager again, every job still receives the arguments the model predicts, and the outputs record after the final cleanup equals that of an undisturbed run. With real processes: SIGTERM / SIGINT / SIGKILL (of mrp or of its whole process group) after a generated number of job starts, and crash points placed by system call count - mrp runs under strace, which delivers SIGKILL when one of its threads makes its n-th file-system or write call (n generated, 1-3 crashes in a row), so the kill falls between any two file-system effects of mrp, incl. during the final cleanup and post-processing; then mrp is restarted without the tracer. Exploration."),
        "level_note": ("E1 decides the re-attach logic at the granularity of harness actions; the E2 unit (TestE2Interrupt) sends SIGTERM / SIGINT / SIGKILL to the real mrp (or its process "
                       "group) after a generated number of job starts and restarts it: lock released after a handled signal, restart completes, outputs equal the model's, no job with a "
                       "_complete marker runs again.  Crash points at system-call granularity (strace injection) are not built."),
        "rule": ("rapid program + schedule + interruption points and fates; non-trivial: an interruption fell strictly inside the run (>= 1 job finished, >= 1 in flight); distinct by hash(program, history); "
                 "classes: fate of in-flight jobs, number of interruptions, during-cleanup / after-cleanup."),
        "assumptions": _SEM_ASSUME + ["a job that is running records its pid in _jobinfo and the job manager removes _queued_locally when it starts the process, as the local job manager and mrjob do"],
        "units": [U("props/run", "TestInterrupt", (800, 10), (15000, 10)),
                  U("props/run", "TestE2Interrupt", (20, 6), (600, 8)),
                  U("props/run", "TestE2CrashPoints", (14, 6), (400, 8))],
        "floors": {"quick": {"inside-run": 1500, "fate:queued": 300, "fate:dead-running": 300, "fate:dead-after-outs": 300, "fate:killed-with-error": 300, "fate:finished-unnoticed": 300, "fate:alive": 300, "fate:alive-after-outs": 300, "fate:during-cleanup": 300, "fate:after-cleanup": 300, "e2": 80, "signal:TERM": 8, "signal:INT": 8, "signal:KILL": 8,
                             "e2-crash-point": 60, "crash:inside-run": 8, "crash:after-last-completion": 8}},
    },
    "C06": {
        "level": "exploration",
        "engine": "E1",
        "needs_bins": ["mrp", "mrjob", "stagebin"],
        "technique": "property-based testing (rapid): generated program x schedule x failure site (any job) x failure manifestation, 1-2 successive faults; fault injection through the files a failing job leaves behind; oracle = invariants at failure + differential against the reference model after restart",
        "level_text": ("Programs of the C01 generator (<= 60 jobs) x schedules x a generated job as the failure site (split, chunk, main, join; mapped and dynamically forked calls; preflights) x "
                       "manifestation: _errors with the text mrjob records (non-zero exit, signal, python traceback, out of memory), _assert, _outs cut off in the middle, _outs missing a "
                       "declared output, _outs with a value of a definitely wrong JSON type (checked against the C17 reference validator), _stage_defs that is not a dictionary / has a non-list "
                       "'chunks' / is cut off.  Oracle: the pipestance state becomes failed and never complete; GetFatalError names the failing stage and carries the error text; no job whose "
                       "call depends on the failed call is ever handed to the job manager (C02 oracle); jobs of independent calls keep receiving the model's arguments; the lock is released when "
                       "mrp gives up; after re-attaching without the fault only work that had not completed (for rejected outputs: the fork that produced them) is executed, the run completes and "
                       "the final outputs equal the model's; then optionally a second fault elsewhere. Faults include unreadable outputs of any chunk of a splitting stage (first, middle, last). Exploration."),
        "level_note": ("Exit codes, signals and the python adapter's own error paths are what mrjob / martian_shell.py turn into _errors / _assert; exercising those processes, mrp's exit status "
                       "and --autoretry is done by the E2 unit (TestE2Faults: exit code, SIGKILL of the stage process, error pipe, ASSERT:, broken _outs / _stage_defs; mrp exits non-zero, "
                       "names the stage (an assertion: carries its message), no dependent ran, retry budget respected, restart without the fault completes).  The python adapter is not exercised."),
        "rule": ("rapid program + schedule + site + manifestation; non-trivial: the failed call has >= 1 dependent and >= 1 independent call; distinct by hash(program, history); classes: kind of "
                 "failure, phase of the failing job, has-dependents, has-independents."),
        "assumptions": _SEM_ASSUME,
        "units": [U("props/run", "TestFaults", (1200, 10), (20000, 10)),
                  U("props/run", "TestE2Faults", (40, 6), (1200, 8))],
        "floors": {"quick": {"kind:errors": 1000, "kind:assert": 500, "kind:invalid-outs": 200, "kind:missing-key": 200, "kind:wrong-type": 200, "kind:bad-stage-defs": 100,
                             "phase:split": 300, "phase:chunk": 300, "phase:join": 300, "phase:main": 1000, "has-dependents": 800, "has-independents": 1500, "e2": 150, "kind:exit": 20, "kind:signal": 20, "autoretry:2": 30}},
    },
    "C07": {
        "level": "exploration",
        "engine": "E1",
        "needs_bins": [],
        "technique": "property-based testing (rapid): (A) generated accepted programs run at enforcement level 'error' with arbitrary conforming stage outputs, every delivered argument validated by an independent validator; (B) certainly-ill-typed single-point mutants must be rejected with an error located in the mutated call",
        "level_text": ("A: the C01 program generator (weighted to composed conversions) x stage outputs with nulls at any depth, driven through the real Pipestance at "
                       "EnforceError: no failure, every _args value validates against its parameter type under harness/refsem.Valid; plus a hand-structured family of programs with a "
                       "map call inside a map-called pipeline (arrays of arrays, typed maps of arrays, arrays of typed maps; int, float and string elements; merged results "
                       "consumed on both levels), for which only the invocation is judged: what compiles must resolve its call graph. B: ~1e5 mutants per run (wrong base type, "
                       "array depth +-1, array vs map, unknown / missing parameter, missing / extra struct field, inconsistent split collections, reference to a missing output "
                       "or field, the unnamed output of a stage bound through the legacy 'x = CALL' shorthand to a parameter it cannot convert to, the output of a map call "
                       "bound one dimension short), with the calls of a pipeline written in dependency order or in any other order; each must give a compile error whose text "
                       "names a line inside the mutated call. Exploration."),
        "level_note": "Mutations that a documented coercion could make legal are not generated; acceptance completeness is not claimed (compiler rejections of generated programs are generator issues).",
        "rule": ("A: rapid programs + schedules as for C01 at EnforceError with output null rate in {0,5,20}%; non-trivial: >= 1 job and >= 1 projection / sub-pipeline boundary / map call "
                 "(an implicit conversion site exercised at run time). B: generated program x one ill-typed mutation; every mutant is non-trivial; distinct by hash of the source."),
        "assumptions": _SEM_ASSUME,
        "units": [
            U("props/run", "TestC07Accept", (450, 8), (8000, 10)),
            U("props/run", "TestC07AcceptNested", (1500, 2), (30000, 4)),
            U("props/lang", "TestC07Reject", (12000, 6), (150000, 6)),
        ],
        "floors": {"quick": {"accept-run": 2000, "accept-nested": 2000, "reject": 50000, "mut:split-mismatch:length": 500, "mut:wrong-literal:struct-missing-field": 300,
                             "mut:mapped-output-depth:array": 1000, "mut:wrong-default-shorthand:float-for-int": 100}},
    },
    "C08": {
        "level": "exploration",
        "engine": "pure",
        "technique": "property-based testing (rapid): near-valid program mutation with hostile tokens + byte soups against a no-panic / located-error / proportional-cost oracle; native coverage-guided fuzzing in the thorough tier",
        "level_text": ("Generated-input search over near-valid MRO texts: every *.mro of the repository and harness-owned seeds, tokenised and edited with 0-3 hostile "
                       "substitutions (64-bit boundary integers, out-of-range floats, every escape form, empty strings, keywords as identifiers, invalid UTF-8, "
                       "truncation, nesting to 10^4, 32767+ array dimensions), plus token soups and raw bytes, fed to ParseSourceBytes, UncheckedParse, ParseValExp, "
                       "FormatSrcBytes under recover. Sets of 2-6 files on disk with generated @include edges (chains, diamonds, repeated and self includes, cycles entered from several "
                       "places, missing files, sub-directories), compiled from every file as the root. Oracle: no panic, no runaway recursion or allocation, error text carries file:line, "
                       "time and allocation proportional to input. Exploration."),
        "level_note": "A Go stack overflow ends the test process; the include-graph unit leaves the case in flight behind so that the driver reports it as a violation with the files as replay; elsewhere it would surface as infrastructure failure (exit 2); time/alloc limits are two orders of magnitude above normal and confirmed three times before they count.",
        "rule": ("rapid: seed program x 0-3 token-level edits (replace/insert hostile token, same-class replacement, delete, duplicate, swap, deep nesting, huge type dimensions, "
                 "truncation) and token soups / raw bytes. Non-trivial: >= 5 tokens and (>= 1 edit or soup). Distinct by hash of the input bytes. Classes: compiled / "
                 "parsed-compile-error / value-expression / syntax-error. Include graphs: file count x edge shape {random, DAG, cycle entered from outside} x declaration kind per file; "
                 "non-trivial: a cycle, a repeated include, a self include or a missing file. Semantic-error programs: generated well-typed "
                 "program x one or two injected mistakes from a catalogue (constructs in contexts that do not allow them: wildcard / self / call references / modifiers / split in the top-level "
                 "call; calls depending on themselves or on each other in 2- and 3-cycles, optionally each disabled by its own output; pipelines calling themselves or each other; split in a plain "
                 "call, map call without split; undefined callees; bursts of declaration-level errors); non-trivial: a mistake was injected."),
        "assumptions": ["position = error text contains ':<line>' or 'line <n>'"],
        "units": [
            U("props/lang", "TestC08NearValid", (4000, 10), (60000, 14)),
            U("props/lang", "TestC08Bytes", (20000, 2), (300000, 2)),
            U("props/lang", "TestC08IncludeGraphs", (4000, 2), (100000, 4)),
            U("props/lang", "TestC08SemanticErrors", (1500, 4), (40000, 6)),
        ],
        "fuzz": [{"pkg": "props/lang", "target": "FuzzC08", "thorough": {"seconds": 600}}],
        "floors": {"quick": {"compiled": 1000, "parsed-compile-error": 1000, "syntax-error": 5000, "edit:replace-same-class": 2000,
                             "include-cycle": 2000, "repeated-include": 1000, "missing-include": 500, "self-include": 500,
                             "semantic-error-program": 4000, "inject:ctx:top-wildcard": 80, "inject:ctx:dependency-cycle-self-disabled": 80, "inject:ctx:mutual-recursion": 50}},
    },
    "C18": {
        "level": "exploration",
        "engine": "pure",
        "needs_bins": ["dumpargs"],
        "technique": "property-based testing (rapid): round trip through a real /bin/sh of quoted strings and of job scripts rendered from the shipped templates",
        "level_text": ("Generated-input search with /bin/sh as oracle: strings over a shell-metacharacter-weighted alphabet (plus template placeholder "
                       "names) are quoted and evaluated by sh; job scripts rendered from fake_remote/sge/lsf templates start a reporter program whose "
                       "argv, environment, redirection targets must equal the generated originals. Strings include runs of 2-5 of one character (blank lines, spaces, backslashes). Exploration, not proof."),
        "level_note": "Trusts /bin/sh (dash) as the POSIX shell; cluster schedulers' own parsing of #$/#BSUB directive lines is not exercised.",
        "rule": ("rapid strings without NUL over an alphabet weighted to shell metacharacters, hostile words ($(..), `..`, ${VAR}, placeholder names "
                 "__MRO_*__), used as program directory, argument, environment value, metadata (stdout/stderr) directory. Non-trivial: contains >= 1 shell "
                 "metacharacter (quote class) or is invalid UTF-8 (bytes extension class); distinct by hash of string / rendered script."),
        "assumptions": ["/bin/sh is a POSIX shell", "paths cannot contain '/' inside a component or NUL"],
        "units": [
            U("props/sys", "TestC18Quote", (1500, 2), (20000, 4)),
            U("props/sys", "TestC18QuoteBytes", (600, 1), (8000, 2)),
            U("props/sys", "TestC18JobScript", (500, 6), (6000, 10)),
        ],
        "floors": {"quick": {"script:fake_remote": 500, "script:sge": 200, "quote": 10000}},
    },
    "C13": {
        "level": "exploration",
        "engine": "E1",
        "needs_bins": ["mrp", "mrjob", "stagebin"],
        "technique": "property-based testing (rapid): generated programs whose stages write real files, run to completion on the in-process engine, VDR + PostProcess, then outs/ and the rewritten top-level _outs compared with an independently derived layout (parameter name, type, explicit out name, zero-padded index, map key)",
        "level_text": ("Top-level output signatures drawn from the generated universe: file, path, user file types (extension), arrays (1-2 dimensions) and typed maps of files, structs and "
                       "stage/pipeline output structs containing files, nested combinations, keys that cannot be directory names, null values, paths returned but never written, several outputs "
                       "naming one file.  Oracle: the post-processed _outs parses, has the same keys / lengths as before, every non-file value is unchanged, every file leaf is a path below outs/ "
                       "that holds exactly what the stage wrote, the location derived independently from the parameter exists with that content, never-written files are null, no two leaves "
                       "belong at one path. Exploration."),
        "level_note": "Mapped top-level calls, explicit out names, symlink outputs and outputs outside the pipestance are not generated yet.",
        "rule": "as C04; non-trivial: >= 1 non-null file leaf nested in a struct / array / typed map; classes: file-leaf, nested-file-leaf.",
        "assumptions": _SEM_ASSUME,
        "units": [U("props/run", "TestRunFiles", (600, 10), (12000, 10), env={"VERIF_ONLY": "C13"}),
                  U("props/run", "TestE2Files", (40, 6), (1200, 8), env={"VERIF_ONLY": "C13"})],
        "floors": {"quick": {"e2-files": 150, "file-leaf": 500, "nested-file-leaf": 300}},
    },
    "C14": {
        "level": "exploration",
        "engine": "E1",
        "needs_bins": ["mrp", "mrjob", "stagebin"],
        "technique": "property-based testing (rapid): the C04 runs with a ledger of everything each job wrote; invariants over the directory tree and the _vdrkill reports at completion",
        "level_text": ("As C04, plus files no output names and temporary files per job.  Oracle after the final VDR pass (vdr enabled): no job's tmp directory holds anything; no file written "
                       "by a chunk of a splitting stage is left; no file written by the main/join job of a volatile call (call volatile, stage volatile=strict, or strict mode without "
                       "volatile=false) is left unless the stage output naming it is statically bound by a top-level output or a retain (judged per output parameter, the granularity the runtime "
                       "tracks); every path listed in any _vdrkill is gone and lies inside the pipestance; every written entry that is gone is covered by a reported path; each fork's report "
                       "count and size equal the number and lstat sizes (recorded when the job finished) of the entries written under that fork that are gone; a sentinel directory next to "
                       "the pipestance is byte-identical. Classes forks-mixed-file-presence / dynamic-forks-mixed-file-presence count runs in which forks of one call do and do not hold a file for the same output. Exploration."),
        "level_note": "A third of the E1 runs make one job fail after it wrote its files and restart the pipestance (reset of the attempt's directory, partial reports across the restart); the E2 unit (TestE2Files) checks tmp directories, chunk files, survivors and reported paths under the real mrp with VDR racing the jobs; exact count/size accounting is checked on E1 only.",
        "rule": "as C04; non-trivial: VDR enabled, >= 1 written entry removed and >= 1 file kept by a top-level output or retain; classes: mode, must-go-files, kept-and-removed.",
        "assumptions": _SEM_ASSUME + ["stages obey the contract: a returned path names a file the job wrote itself under its own files directory"],
        "units": [U("props/run", "TestRunFiles", (600, 10), (12000, 10), env={"VERIF_ONLY": "C14"}),
                  U("props/run", "TestE2Files", (40, 6), (1200, 8), env={"VERIF_ONLY": "C14"})],
        "floors": {"quick": {"e2-files": 150, "must-go-files": 500, "kept-and-removed": 300, "failed-attempt-reset": 300, "mode:strict": 300, "mode:rolling": 300, "mode:post": 100}},
    },
    "C15": {
        "level": "exploration",
        "engine": "pure",
        "needs_bins": ["mrp", "mrjob", "stagebin"],
        "technique": "property-based testing (rapid): metamorphic pairs (program, program after one cosmetic or one semantic edit in the transitive closure of the top-level call) against Ast.EquivalentCall in both orientations",
        "level_text": ("Pairs (A, B): B is A re-laid-out, re-commented, with old-style modifiers, split over an include diamond, or with a file type renamed (must be equivalent both ways), or A "
                       "after exactly one meaning-changing edit at depth 0-3 of the call closure - call alias, a literal deep inside an argument, swapped same-typed bindings / return bindings, "
                       "stage input renamed / retyped / added, output added, split toggled, disabling condition added / dropped / re-pointed, top-level argument changed (must be refused both ways). "
                       "Wildcard bindings from struct-typed inputs ('* = self.w1') are generated in pairs and re-pointed as a semantic edit; a member projection (self.cfg.alpha, CALL.out.alpha) in a call or "
                       "return binding is re-pointed to a sibling member of the same type. Exploration."),
        "level_note": "The run-time refusal (Runtime.ReattachToPipestance) delegates to EquivalentCall after a byte comparison; mutual exclusion of two live mrp processes is part of the E2 tier (not yet built).",
        "rule": "rapid program generator (4 pipelines deep) x one edit; every pair is non-trivial; distinct by hash(original text, edited text); classes: edit kind x depth.",
        "assumptions": ["edits are applied to the generator's IR and printed; an edit that makes the program stop compiling is skipped and counted"],
        "units": [U("props/lang", "TestC15Equivalence", (6000, 8), (100000, 10)),
                  U("props/run", "TestE2Lock", (20, 6), (500, 8))],
        "floors": {"quick": {"semantic": 10000, "cosmetic": 10000, "edit:repoint-disabled": 60, "edit:repoint-member": 40, "edit:rename-filetype": 500, "edit:includes": 2000, "e2-lock": 60}},
    },
    "C19": {
        "level": "exploration",
        "engine": "pure",
        "technique": "property-based testing (rapid): generated program x one mro-edit operation applied the way `mro edit` applies it (compile, refactoring.Refactor, replay on the uncompiled parse, format), then recompiled; differential against the same rename applied to the generator's IR, rename round trip, and an invariant over the resolved call graph before/after removals",
        "level_text": ("Programs from the C01 generator (4 pipelines deep, aliases forcing name collisions, `* = self` wildcards, struct projections, disabled modifiers, map calls, preflights, "
                       "callable names used as types) x one edit on a reachable callable: rename stage/pipeline, rename input, rename output, remove input, remove output, remove unused calls+outputs "
                       "with every root pipeline as top call.  Every result must compile.  Renames: the call-graph JSON must equal that of the program printed from the generator's IR after the same "
                       "rename, and X->Y->X must give the original call-graph JSON and be EquivalentCall both ways.  Removals: no new graph node, every remaining stage node resolves its remaining "
                       "inputs, disabling conditions and fork roots as before, preflights stay, the top-level call's resolved outputs are unchanged (remove-output: compile only). Two edits requested in one run (a callable rename, possibly of a callable called through an alias, plus an input or output rename under the new name) must give what the same edits give in two runs (both compile, equivalent calls, identical call graph). Exploration."),
        "level_note": ("A quarter of the cases spread the program over three files (main.mro including pipes.mro and sub/types.mro, a diamond) and apply the edit the way `mro edit` does for a set of files.  Edits with no valid result are skipped and counted: removing the last output of a callable whose "
                       "output struct is a parameter type.  Three classes are excluded as known findings (wildcard-bound inputs, output edits through struct values, map call losing its only split)."),
        "rule": "rapid program generator x edit kind x target; non-trivial: the edit changed >= 2 places of the file; distinct by hash(program text, edit, callable, parameter); classes: edit kind, multi-site.",
        "assumptions": ["the reference for renames is the generator's IR with the identifier replaced at its declaration, at every call/binding/reference and where the callable's name is used as a type"],
        "units": [U("props/lang", "TestC19Refactor", (3000, 10), (60000, 12)),
                  U("props/lang", "TestC19Combined", (2500, 4), (40000, 4))],
        "floors": {"quick": {"edit:rename-callable": 3000, "edit:rename-input": 1000, "edit:rename-output": 500, "edit:remove-input": 1000, "edit:remove-output": 300, "edit:remove-unused": 2000, "multi-site": 5000, "multi-file": 3000}},
    },
    "C16": {
        "level": "exploration",
        "engine": "E1",
        "needs_bins": [],
        "technique": "property-based testing (rapid): round trip invocation data -> MRO text -> invocation data with exact-number JSON comparison, compile + EquivalentCall of the produced text; per-fork _invocation of generated E1 runs recompiled and compared with _args",
        "level_text": ("(a,b) generated callable signatures over generated type universes x JSON argument values of the declared types (nested structs, typed maps, multi-dimensional arrays, "
                       "nulls, 64-bit boundary integers, floats with exponents, strings with escapes / control / non-ASCII characters) x any consistent subset of arguments split over an "
                       "array or a map: BuildCallSource -> InvocationDataFromSource must return the same call, include, split set and arguments (numbers compared as exact decimals), the "
                       "text must compile against the definitions and text -> data -> text must be EquivalentCall both ways. (c) after generated E1 runs, every stage fork's _invocation "
                       "must compile against _mrosource as a call of that stage whose arguments equal the fork's _args. Arguments are serialised in three JSON styles (Go; Python with \\uXXXX escapes incl. surrogate pairs; escaped slashes); call text written by hand with several @include lines (declaring file first / last / reached through an include of an include) is converted to data and back. Exploration."),
        "level_note": "mrg's command line wrapper is not exercised; floats written as >= 20 plain digits are excluded (known finding).",
        "rule": ("(a,b) rapid universe + 1-5 parameters + values (null rate 0/5/20%) + split kind; non-trivial: an argument of struct / typed map / >=2-dimensional array type or a split argument. "
                 "(c) programs and schedules as for C01; non-trivial: >= 2 stage forks checked. Distinct by hash of definitions + call text / program + schedule."),
        "assumptions": _SEM_ASSUME,
        "units": [
            U("props/run", "TestC16RoundTrip", (6000, 6), (100000, 8)),
            U("props/run", "TestC16ForkInvocations", (400, 8), (6000, 8)),
        ],
        "floors": {"quick": {"roundtrip": 20000, "split-arg": 5000, "fork-invocations": 2000}},
    },
    "C17": {
        "level": "exploration",
        "technique": "property-based testing (rapid): differential against an independent reference validator/filter, idempotence, assignability laws",
        "level_text": ("Generated-input search: ~3e5 (quick) / ~5e6 (thorough) generated (type universe, value) cases per run compared against an "
                       "independently written reference validator, reference filter and component-wise assignability rules; Values are serialised in three JSON styles; numbers include 19 tokens at and beyond the ends of the int64 range; whatever the filter returns without a fatal error must be the input with members dropped and integral floats written as integers (checked for non-conforming values too). exploration, not proof."),
        "level_note": "Trusts harness/refsem/types.go as the statement of the conversion rules; encoding/json for parsing outputs.",
        "rule": ("rapid-generated type universes (file types, structs of structs, wider struct variants, arrays <=2 dims, "
                 "typed maps of arrays) x JSON values (conforming to a constructed-assignable source type, single-point "
                 "near-miss mutations, arbitrary JSON, odd whitespace, hostile numbers/keys). Non-trivial: filter case with "
                 "type nesting depth >= 2 where the reference filter changes the value or the value is a near-miss; "
                 "assignability case with composite destination and src != dst. Distinct by hash(declarations, types, value bytes)."),
        "assumptions": ["reference validator/filter/assignability in harness/refsem/types.go encode the documented conversion rules",
                        "typed-map keys that are not legal file names are not judged for file-bearing maps (documented restriction)"],
        "units": [
            U("props/lang", "TestC17Filter", (40000, 4), (400000, 12)),
            U("props/lang", "TestC17Assignability", (15000, 2), (150000, 4)),
        ],
        "floors": {"quick": {"filter:changed": 1000, "mode:near-miss": 1000, "assign:yes": 1000, "assign:no": 1000}},
    },
}

# A floor is there to notice a class of cases that has (almost) vanished from
# a generator, not to pin a count.  The numbers above are what a few seeds
# produced when they were written; the driver compares against half of each,
# so that an ordinary run at another seed stays well clear of it.
for _c in CHECKS.values():
    for _f in _c.get("floors", {}).values():
        for _k in _f:
            _f[_k] //= 2
