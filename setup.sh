#!/bin/sh
# MANIFEST setup_cmd: everything is rebuilt by ./check from the working tree;
# this only verifies the offline toolchain and warms the Go build cache.
set -e
cd "$(dirname "$0")/harness"
export GOFLAGS=-mod=mod GOPROXY=off GOSUMDB=off GOTOOLCHAIN=local
mkdir -p ../build/setup
sed "s#=> /repo#=> ${VERIF_REPO:-/repo}#" go.mod > ../build/setup/go.mod
cp go.sum ../build/setup/go.sum
for p in $(ls props); do
  ls props/$p/*_test.go >/dev/null 2>&1 || continue
  go test -c -vet=off -tags verif -modfile=../build/setup/go.mod -o ../build/setup/$p.test ./props/$p
done
rm -rf ../build/setup
rmdir ../build 2>/dev/null || true
echo setup ok
